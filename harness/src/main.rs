#![allow(dead_code)]
//! pvh - pkgsrc-rs verification harness.
//!
//!   pvh run <ID> <tier> <seed> <shard> <nshards> <out.json> [--replay IDX] [--describe IDX]
//!
//! Runs the monitor of property <ID> on one shard of its workload and writes
//! the shard result (counters, fingerprints, failures) to <out.json> and
//! <out.json>.fp.  Exit status: 0 = shard completed (failures, if any, are
//! in the result file), 97 = step budget exceeded, 98 = stall, anything else
//! = harness error / abort.

mod corpus;
mod deep;
mod fw;
mod gen;
mod json;
mod mon;
mod oracle;
mod rng;

use fw::{Cx, Ev, Tier};
use std::time::Instant;

#[global_allocator]
static GLOBAL: fw::CountingAlloc = fw::CountingAlloc;

fn usage() -> ! {
    eprintln!("usage: pvh run <ID> <tier> <seed> <shard> <nshards> <out.json> [--replay IDX | --describe IDX]");
    std::process::exit(64);
}

fn main() {
    let args: Vec<String> = std::env::args().collect();
    if args.len() == 4 && args[1] == "deep" {
        // child side of a deep-structure probe (see deep.rs)
        let n: usize = args[3].parse().unwrap_or_else(|_| usage());
        deep::child_main(&args[2], n);
    }
    if args.len() == 7 && args[1] == "run-mt" {
        run_mt(&args);
    }
    if args.len() < 8 || args[1] != "run" {
        usage();
    }
    let id = args[2].clone();
    let tier = Tier::parse(&args[3]).unwrap_or_else(|| usage());
    let seed: u64 = args[4].parse().unwrap_or_else(|_| usage());
    let shard: u64 = args[5].parse().unwrap_or_else(|_| usage());
    let nshards: u64 = args[6].parse().unwrap_or_else(|_| usage());
    let out = std::path::PathBuf::from(&args[7]);
    let mut replay = None;
    let mut describe_only = false;
    let mut i = 8;
    while i < args.len() {
        match args[i].as_str() {
            "--replay" => {
                replay = Some(args.get(i + 1).and_then(|s| s.parse().ok()).unwrap_or_else(|| usage()));
                i += 2;
            }
            "--describe" => {
                replay = Some(args.get(i + 1).and_then(|s| s.parse().ok()).unwrap_or_else(|| usage()));
                describe_only = true;
                i += 2;
            }
            _ => usage(),
        }
    }
    if nshards == 0 || shard >= nshards {
        usage();
    }
    let Some(monitor) = mon::lookup(&id) else {
        eprintln!("pvh: no monitor for {id}");
        std::process::exit(64);
    };
    let engine = std::env::var("PVH_ENGINE").unwrap_or_else(|_| {
        if cfg!(miri) {
            "miri".into()
        } else if cfg!(debug_assertions) {
            "debug".into()
        } else {
            "release".into()
        }
    });
    let scratch = std::env::var("PVH_SCRATCH")
        .map(std::path::PathBuf::from)
        .unwrap_or_else(|_| out.with_extension("scratch"));
    fw::install_panic_hook();
    if !cfg!(miri) && std::env::var("PVH_NO_WATCHDOG").is_err() {
        let limit = std::env::var("PVH_STALL_S").ok().and_then(|s| s.parse().ok()).unwrap_or(60);
        fw::start_watchdog(limit);
    }
    let mut cx = Cx {
        prop: id.clone(),
        tier,
        seed,
        shard,
        nshards,
        engine,
        rng: rng::Rng::stream(seed, &id, shard, nshards),
        ev: Ev::default(),
        idx: 0,
        replay,
        describe_only,
        trace: std::env::var("PVH_TRACE").is_ok(),
        failures: vec![],
        failures_total: 0,
        known_counts: Default::default(),
        samples: vec![],
        max_allocs: 0,
        max_bytes: 0,
        executed: 0,
        start: Instant::now(),
        scratch,
    };
    // The monitor - and with it every call into the library - runs on a thread
    // with Rust's default stack size for spawned threads (2 MiB), not on the
    // main thread's 8 MiB: a library is routinely called from worker threads,
    // and recursion whose depth grows with the input shows four times earlier.
    // A stack overflow ends the process with SIGABRT; the driver attributes it
    // to the case whose number was published last.
    let stack = std::env::var("PVH_STACK_KIB").ok().and_then(|s| s.parse::<usize>().ok()).unwrap_or(2048) * 1024;
    let cx = if cfg!(miri) {
        monitor(&mut cx);
        cx
    } else {
        std::thread::Builder::new()
            .name("monitor".into())
            .stack_size(stack)
            .spawn(move || {
                monitor(&mut cx);
                cx
            })
            .expect("pvh: cannot start the monitor thread")
            .join()
            .unwrap_or_else(|_| {
                eprintln!("pvh: the monitor thread panicked outside a case");
                std::process::exit(101);
            })
    };
    let js = cx.to_json();
    if let Err(e) = std::fs::write(&out, js) {
        eprintln!("pvh: cannot write {out:?}: {e}");
        std::process::exit(70);
    }
    let mut fp = out.clone().into_os_string();
    fp.push(".fp");
    if let Err(e) = fw::write_fps(std::path::Path::new(&fp), &cx.ev.fps) {
        eprintln!("pvh: cannot write {fp:?}: {e}");
        std::process::exit(70);
    }
}

/// `pvh run-mt <ID> <tier> <seed> <nshards> <out-prefix>`: all shards of the
/// workload at once, one thread each (2 MiB stacks), in this one process.  The
/// monitors are the same and every answer is still judged on its own by the
/// reference; what differs is that the library is now used from several
/// threads concurrently, so hidden process-wide state (a static scratch
/// buffer, a shared cache filled in two steps) is exposed to interleavings.
/// The step budget is off in this mode (it is process-wide).  Results go to
/// `<out-prefix>-<shard>.json` (+ `.fp`).
fn run_mt(args: &[String]) -> ! {
    let id = args[2].clone();
    let tier = Tier::parse(&args[3]).unwrap_or_else(|| usage());
    let seed: u64 = args[4].parse().unwrap_or_else(|_| usage());
    let nshards: u64 = args[5].parse().unwrap_or_else(|_| usage());
    let prefix = args[6].clone();
    let Some(monitor) = mon::lookup(&id) else {
        eprintln!("pvh: no monitor for {id}");
        std::process::exit(64);
    };
    fw::MT_MODE.store(true, std::sync::atomic::Ordering::Relaxed);
    fw::install_panic_hook();
    let scratch_base = std::env::var("PVH_SCRATCH")
        .map(std::path::PathBuf::from)
        .unwrap_or_else(|_| std::path::PathBuf::from(format!("{prefix}.scratch")));
    let mut handles = vec![];
    for shard in 0..nshards {
        let id = id.clone();
        let scratch = scratch_base.join(format!("t{shard}"));
        let h = std::thread::Builder::new()
            .name(format!("monitor-{shard}"))
            .stack_size(2 << 20)
            .spawn(move || {
                let mut cx = Cx {
                    prop: id.clone(),
                    tier,
                    seed,
                    shard,
                    nshards,
                    engine: "mt".into(),
                    rng: rng::Rng::stream(seed, &id, shard, nshards),
                    ev: Ev::default(),
                    idx: 0,
                    replay: None,
                    describe_only: false,
                    trace: false,
                    failures: vec![],
                    failures_total: 0,
                    known_counts: Default::default(),
                    samples: vec![],
                    max_allocs: 0,
                    max_bytes: 0,
                    executed: 0,
                    start: Instant::now(),
                    scratch,
                };
                monitor(&mut cx);
                cx
            })
            .expect("pvh: cannot start a monitor thread");
        handles.push(h);
    }
    let mut rc = 0;
    for (shard, h) in handles.into_iter().enumerate() {
        match h.join() {
            Ok(cx) => {
                let out = std::path::PathBuf::from(format!("{prefix}-{shard}.json"));
                if std::fs::write(&out, cx.to_json()).is_err() {
                    rc = 70;
                }
                let fp = std::path::PathBuf::from(format!("{prefix}-{shard}.json.fp"));
                if fw::write_fps(&fp, &cx.ev.fps).is_err() {
                    rc = 70;
                }
            }
            Err(_) => {
                eprintln!("pvh: monitor thread {shard} panicked outside a case");
                rc = 101;
            }
        }
    }
    std::process::exit(rc);
}
