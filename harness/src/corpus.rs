//! Real-world inputs copied from /repo/tests/data at design time, so the
//! workloads do not depend on later edits of the repository.

use std::path::PathBuf;

pub fn dir() -> PathBuf {
    if let Ok(d) = std::env::var("VERIF_CORPUS") {
        return PathBuf::from(d);
    }
    PathBuf::from(concat!(env!("CARGO_MANIFEST_DIR"), "/../corpus"))
}

pub fn read(name: &str) -> Vec<u8> {
    let p = dir().join(name);
    std::fs::read(&p).unwrap_or_else(|e| panic!("harness: cannot read corpus file {p:?}: {e}"))
}

pub fn lines(name: &str) -> Vec<String> {
    String::from_utf8_lossy(&read(name))
        .lines()
        .map(|l| l.to_string())
        .filter(|l| !l.is_empty())
        .collect()
}

/// 16 532 dependency patterns from pkgsrc.
pub fn patterns() -> Vec<String> {
    lines("pkgdeps.txt")
}

/// 21 721 package names from pkgsrc.
pub fn names() -> Vec<String> {
    lines("pkgnames.txt")
}
