//! Real-world inputs copied from /repo/tests/data at design time, so the
//! workloads do not depend on later edits of the repository.

use std::path::PathBuf;

pub fn dir() -> PathBuf {
    if let Ok(d) = std::env::var("VERIF_CORPUS") {
        return PathBuf::from(d);
    }
    PathBuf::from(concat!(env!("CARGO_MANIFEST_DIR"), "/../corpus"))
}

pub fn read(name: &str) -> Vec<u8> {
    let p = dir().join(name);
    std::fs::read(&p).unwrap_or_else(|e| panic!("harness: cannot read corpus file {p:?}: {e}"))
}

pub fn lines(name: &str) -> Vec<String> {
    String::from_utf8_lossy(&read(name))
        .lines()
        .map(|l| l.to_string())
        .filter(|l| !l.is_empty())
        .collect()
}

/// 16 532 dependency patterns from pkgsrc.
pub fn patterns() -> Vec<String> {
    lines("pkgdeps.txt")
}

/// 21 721 package names from pkgsrc.
pub fn names() -> Vec<String> {
    lines("pkgnames.txt")
}

/// The string literals of the library under test (`lib/literals.py` writes
/// them to `$PVH_AUX/literals.txt` before the shards start): `(file stem,
/// bytes)`.  Empty when the file is absent (a harness run by hand).
pub fn literals() -> &'static [(String, Vec<u8>)] {
    static L: std::sync::OnceLock<Vec<(String, Vec<u8>)>> = std::sync::OnceLock::new();
    L.get_or_init(|| {
        let Ok(dir) = std::env::var("PVH_AUX") else { return vec![] };
        let Ok(text) = std::fs::read_to_string(std::path::Path::new(&dir).join("literals.txt")) else { return vec![] };
        let mut out = vec![];
        for line in text.lines() {
            let mut it = line.split(' ');
            let (Some(stem), Some(hex)) = (it.next(), it.next()) else { continue };
            let bytes: Option<Vec<u8>> = (0..hex.len() / 2).map(|i| u8::from_str_radix(&hex[2 * i..2 * i + 2], 16).ok()).collect();
            if let Some(b) = bytes {
                if !b.is_empty() {
                    out.push((stem.to_string(), b));
                }
            }
        }
        out
    })
}

/// The literals that are valid UTF-8, as strings, optionally only those of
/// the given source files.
pub fn literal_strs(stems: &[&str]) -> Vec<&'static str> {
    literals()
        .iter()
        .filter(|(s, _)| stems.is_empty() || stems.contains(&s.as_str()))
        .filter_map(|(_, b)| std::str::from_utf8(b).ok())
        .collect()
}
