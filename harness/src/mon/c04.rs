//! C04 - brace alternation matches exactly the union of its csh-style
//! expansions; compiles exactly when braces are properly nested.

use crate::fw::{CaseResult, Cx, Ev, Tier};
use crate::oracle::pattern as opat;
use crate::rng::{hash_strs, Rng};
use pkgsrc::Pattern;

const LITS: [&str; 12] = ["a", "b", "c", "d", "ab", "-", "1", "x", "", "", "?", "a?"];
/// Rare literals that make an expansion invalid (unclosed '[', too many or
/// wrongly ordered operators) or change its kind, so that invalid and valid
/// expansions are mixed inside one alternation.
const ODD_LITS: [&str; 12] = ["[", ">1>", "<2>", "<", "*", "?", "[0-9]", ">=1<2<3", ">=1", "<2", ">1.", "<=0."];

/// (tail text in the pattern, concrete suffixes for names: matching first)
const TAILS: [(&str, &[&str]); 13] = [
    // the same token twice in one tail: a name that fits the text up to the
    // first occurrence only is not matched by the expansion
    ("-[0-9]*-doc-[0-9]*", &["-1.0-doc-2", "-1.0", "-doc-1", "-1.0-doc-"]),
    ("-[0-9]*{-doc,-man}-[0-9]*", &["-1-man-2", "-1", "-1-doc", "-1-doc-x"]),
    (">=1>=1", &["-1", "-2"]),
    ("-1.0-1.0", &["-1.0-1.0", "-1.0"]),
    ("", &["", "x"]),
    ("-1.0", &["-1.0", "-1.1"]),
    ("-[0-9]*", &["-2.0", "-x"]),
    (">=1", &["-1.5", "-0.5"]),
    (">1<3", &["-2", "-3"]),
    ("-1.0{,nb[0-9]*}", &["-1.0", "-1.0nb2", "-1.0nb"]),
    ("-[0-9", &["-1", "-[0-9"]),
    (">1>2", &["-3", "-1.5"]),
    ("?", &["z", ""]),
];

/// (text before a group, text after it) that put the group inside a glob
/// character class.
const CLASS_WRAPS: [(&str, &str); 12] = [
    ("[", "]"), ("[!", "]"), ("[]", "]"), ("[!]", "]"), ("[^", "]"), ("[^]", "]"),
    ("[x", "y]"), ("[]x", "]"), ("[!]x", "z]"), ("[0-", "]"), ("[", "-z]"), ("[[", "]]"),
];

/// Names that match an expansion through a character class: the first class
/// of `e` (closed the way glob closes it) replaced by each of its own
/// characters and by a few outsiders.
fn class_probes(e: &str) -> Vec<String> {
    let c: Vec<char> = e.chars().collect();
    let Some(i) = c.iter().position(|x| *x == '[') else { return vec![] };
    let mut j = i + 1;
    if j < c.len() && (c[j] == '!' || c[j] == '^') {
        j += 1;
    }
    if j < c.len() && c[j] == ']' {
        j += 1;
    }
    let Some(k) = (j..c.len()).find(|&k| c[k] == ']') else { return vec![] };
    let mut probes: Vec<char> = c[i + 1..k].to_vec();
    probes.extend(['z', 'q', ']', '!', '^', '-', '1', 'b']);
    probes.sort();
    probes.dedup();
    let (head, tail): (String, String) = (c[..i].iter().collect(), c[k + 1..].iter().collect());
    probes.into_iter().map(|p| format!("{head}{p}{tail}")).collect()
}

/// A name from the language of a parsed glob: wildcards and sets are filled
/// from a small alphabet that contains multi-byte characters (a '?' stands for
/// one character, not one byte).
fn sample_glob(r: &mut Rng, toks: &[opat::GTok]) -> String {
    const ANY: [char; 12] = ['a', 'b', 'q', 'Z', '0', '5', '-', '.', '\u{e9}', '\u{20ac}', 'x', '\u{1f600}'];
    let mut s = String::new();
    for t in toks {
        match t {
            opat::GTok::Lit(c) => s.push(*c),
            opat::GTok::Any => s.push(*r.pick(&ANY)),
            opat::GTok::Star => {
                for _ in 0..r.below(4) {
                    s.push(*r.pick(&ANY));
                }
            }
            opat::GTok::Set { neg, items } => {
                if *neg {
                    let mut c = '#';
                    for _ in 0..8 {
                        let k = *r.pick(&ANY);
                        if !items.iter().any(|(a, b)| *a <= k && k <= *b) {
                            c = k;
                            break;
                        }
                    }
                    s.push(c);
                } else {
                    let (a, b) = *r.pick(items);
                    let span = (b as u32 - a as u32) as usize;
                    s.push(char::from_u32(a as u32 + r.below(span + 1) as u32).unwrap_or(a));
                }
            }
        }
    }
    s
}

fn gen_seq(r: &mut Rng, depth: usize, out: &mut String, groups: &mut usize, maxdepth: &mut usize, cur: usize) {
    let items = r.range(1, 3);
    for _ in 0..items {
        if depth > 0 && r.chance(1, 2) {
            // a group
            *groups += 1;
            *maxdepth = (*maxdepth).max(cur + 1);
            // ... sometimes inside a glob character class: every construct of
            // the pattern language inside every other one.  (The class is
            // closed per expansion, by whatever the glob rules say about the
            // expanded text - a ']' or '!' standing first is a member.)
            let wrap = if r.chance(1, 10) { Some(*r.pick(&CLASS_WRAPS)) } else { None };
            if let Some((head, _)) = wrap {
                out.push_str(head);
            }
            out.push('{');
            let alts = match r.below(10) {
                0 => 1,
                1..=5 => 2,
                6..=8 => 3,
                _ => 4,
            };
            for a in 0..alts {
                if a > 0 {
                    out.push(',');
                }
                if r.chance(1, 6) {
                    // empty alternative
                } else {
                    gen_seq(r, depth - 1, out, groups, maxdepth, cur + 1);
                }
            }
            out.push('}');
            if let Some((_, tail)) = wrap {
                out.push_str(tail);
            }
        } else {
            if r.chance(1, 12) {
                let lits: Vec<&'static str> = crate::corpus::literal_strs(&["pattern", "dewey", "pkgname"])
                    .into_iter()
                    .filter(|s| !s.is_empty() && s.len() <= 12 && !s.contains(|c| matches!(c, '{' | '}' | ',' | '\n')))
                    .collect();
                if !lits.is_empty() && r.chance(1, 3) {
                    out.push_str(lits[r.below(lits.len())]);
                } else {
                    out.push_str(ODD_LITS[r.below(ODD_LITS.len())]);
                }
            } else {
                out.push_str(LITS[r.below(LITS.len())]);
            }
        }
    }
}

struct Gen {
    prefix: String,
    tail: usize,
    groups: usize,
    depth: usize,
}

fn gen_pattern(r: &mut Rng, cap: usize) -> Gen {
    loop {
        let mut s = String::new();
        let (mut g, mut d) = (0, 0);
        gen_seq(r, 3, &mut s, &mut g, &mut d, 0);
        if g == 0 || s.contains("{}") {
            continue;
        }
        let tail = r.below(TAILS.len());
        let full = format!("{s}{}", TAILS[tail].0);
        if opat::count_expansions(&full, cap) > cap {
            continue;
        }
        return Gen { prefix: s, tail, groups: g, depth: d };
    }
}

/// Strings the pre-fix defect (pairing a '{' with the first following '}')
/// would have tried; used as candidate negatives.
fn mispairings(p: &str) -> Vec<String> {
    let b: Vec<char> = p.chars().collect();
    let mut out = vec![];
    for i in 0..b.len() {
        if b[i] != '{' {
            continue;
        }
        let Some(j) = (i + 1..b.len()).find(|&j| b[j] == '}') else { continue };
        let inner: String = b[i + 1..j].iter().collect();
        let first: String = b[..i].iter().collect();
        let last: String = b[j + 1..].iter().collect();
        for piece in inner.split(',') {
            let cand = format!("{first}{piece}{last}");
            if opat::braces_nested(&cand) && !cand.contains("{}") && opat::count_expansions(&cand, 256) <= 256 {
                out.extend(opat::expand(&cand));
            } else {
                out.push(cand.chars().filter(|c| !matches!(c, '{' | '}' | ',')).collect());
            }
        }
    }
    out
}

fn mutate(r: &mut Rng, s: &str) -> String {
    let mut c: Vec<char> = s.chars().collect();
    match r.below(7) {
        4 if c.len() >= 2 => {
            // a piece cut out of the middle (what is left may still begin and
            // end like an expansion)
            let i = r.below(c.len() - 1);
            let n = r.range(1, 4).min(c.len() - i);
            c.drain(i..i + n);
        }
        5 if c.len() >= 2 => {
            // truncated at a '-' or anywhere
            let dashes: Vec<usize> = (1..c.len()).filter(|&i| c[i] == '-').collect();
            let at = if dashes.is_empty() { r.range(1, c.len() - 1) } else { *r.pick(&dashes) };
            c.truncate(at);
        }
        6 if !c.is_empty() => {
            // a leading piece repeated
            let n = r.range(1, c.len().min(4));
            let head: Vec<char> = c[..n].to_vec();
            c.splice(0..0, head);
        }
        0 if !c.is_empty() => {
            let i = r.below(c.len());
            c.remove(i);
        }
        1 if !c.is_empty() => {
            let i = r.below(c.len());
            c[i] = *r.pick(&['a', 'b', 'c', 'd', 'x', '-', '1']);
        }
        2 => {
            let i = r.below(c.len() + 1);
            c.insert(i, *r.pick(&['a', 'b', 'c', 'd', 'x', '-', '1']));
        }
        _ => c.push(*r.pick(&['a', 'x', '1', '-'])),
    }
    c.into_iter().collect()
}

/// The oracle: does any expansion, taken as a pattern in its own right,
/// match the name?
struct Expanded {
    pats: Vec<(String, Option<Pattern>)>,
}

fn expanded(p: &str) -> Expanded {
    let pats = opat::expand(p)
        .into_iter()
        .map(|e| {
            let c = Pattern::new(&e).ok();
            (e, c)
        })
        .collect();
    Expanded { pats }
}

fn check_case(ev: &mut Ev, p: &str, names: &[String], groups: usize, depth: usize) -> CaseResult {
    let nested = opat::braces_nested(p);
    let got = Pattern::new(p);
    ev.eval();
    ev.count(if nested { "compile/nested" } else { "compile/not-nested" });
    match (&got, nested) {
        (Ok(_), false) => return Err(format!("Pattern::new({p:?}) accepted improperly nested braces").into()),
        (Err(e), true) => return Err(format!("Pattern::new({p:?}) rejected properly nested braces: {e}").into()),
        _ => {}
    }
    let Ok(pat) = got else { return Ok(()) };
    if p.contains("{}") {
        // acceptance is unambiguous, the meaning of "{}" is not: compile only
        ev.count("compile/nested-with-empty-group-match-skipped");
        return Ok(());
    }
    let ex = expanded(p);
    ev.max("max/expansions", ex.pats.len() as u64);
    ev.count(&format!("groups/{}", groups.min(6)));
    ev.count(&format!("depth/{}", depth.min(4)));
    let mut pos = 0;
    for name in names {
        let want = ex.pats.iter().find(|(_, c)| c.as_ref().map(|c| c.matches(name)).unwrap_or(false));
        let got = pat.matches(name);
        ev.eval();
        if got != want.is_some() {
            return Err(match want {
                Some((e, _)) => format!("{p:?} does not match {name:?} although its expansion {e:?} does"),
                None => format!(
                    "{p:?} matches {name:?} but none of its {} expansions does (e.g. {:?})",
                    ex.pats.len(),
                    ex.pats.iter().take(6).map(|x| &x.0).collect::<Vec<_>>()
                ),
            }
            .into());
        }
        if got {
            pos += 1;
            ev.count("verdict/match");
        } else {
            ev.count("verdict/no-match");
        }
    }
    let _ = pos;
    if groups >= 2 || depth >= 2 {
        let mut parts: Vec<&[u8]> = vec![p.as_bytes()];
        for n in names {
            parts.push(n.as_bytes());
        }
        ev.nontrivial(hash_strs(&parts));
    }
    Ok(())
}

fn brace_stats(p: &str) -> (usize, usize) {
    let (mut g, mut d, mut cur) = (0usize, 0usize, 0usize);
    for c in p.chars() {
        if c == '{' {
            g += 1;
            cur += 1;
            d = d.max(cur);
        } else if c == '}' {
            cur = cur.saturating_sub(1);
        }
    }
    (g, d)
}

pub fn run(cx: &mut Cx) {
    cx.default_budget();
    for k in ["compile/nested", "compile/not-nested", "verdict/match", "verdict/no-match", "names/mispairing-not-in-expansion", "names/through-a-class-around-a-group", "names/from-the-language-of-an-expansion", "workload/meta-digrams", "depth/2", "depth/3", "groups/3"] {
        cx.ev.require(k);
    }
    if cx.tier != Tier::Mini {
        for k in ["flat-groups", "flat-groups-thousands", "nested-single", "nested-alternatives", "two-way-groups", "three-way-groups"] {
            cx.ev.require(&format!("structural/{k}"));
        }
    }
    let cap = cx.pick_tier(16usize, 64, 64, 4096);
    let n = cx.per_shard(40, 2_000, 40_000, 400_000);
    let mut r = cx.stream("trees");
    for _ in 0..n {
        let g = gen_pattern(&mut r, cap);
        let (tail, sufs) = TAILS[g.tail];
        let mut p = format!("{}{}", g.prefix, tail);
        let unbalance = r.chance(1, 10);
        if unbalance {
            let idx: Vec<usize> = p.char_indices().filter(|(_, c)| matches!(c, '{' | '}')).map(|(i, _)| i).collect();
            match r.below(4) {
                0 | 1 => {
                    // delete one character, preferably a brace
                    let i = if r.chance(3, 4) { *r.pick(&idx) } else { p.char_indices().nth(r.below(p.chars().count())).unwrap().0 };
                    p.remove(i);
                }
                2 => {
                    // exchange an opening with a closing brace: the counts
                    // stay equal, the nesting (usually) breaks
                    let opens: Vec<usize> = idx.iter().cloned().filter(|&i| p.as_bytes()[i] == b'{').collect();
                    let closes: Vec<usize> = idx.iter().cloned().filter(|&i| p.as_bytes()[i] == b'}').collect();
                    let (a, b) = (*r.pick(&opens), *r.pick(&closes));
                    let mut bytes = p.clone().into_bytes();
                    bytes.swap(a, b);
                    p = String::from_utf8(bytes).expect("ascii");
                }
                _ => {
                    // insert a "}{" pair at a brace position (counts equal)
                    let at = *r.pick(&idx);
                    p.insert_str(at, if r.chance(1, 2) { "}{" } else { "}a{" });
                }
            }
            if !p.contains('{') && !p.contains('}') {
                continue;
            }
            // an edit can leave the braces nested but multiply the number of
            // expansions (a group split in two): keep the bound
            if opat::braces_nested(&p) && opat::count_expansions(&p, cap) > cap {
                continue;
            }
        }
        // candidate names
        let mut names: Vec<String> = vec![];
        let mut mis_outside = 0u64;
        let mut class_names = 0u64;
        let mut lang_names = 0u64;
        if opat::braces_nested(&g.prefix) {
            let exps = opat::expand(&g.prefix);
            let truth: std::collections::HashSet<&String> = exps.iter().collect();
            let take = cx_take(&mut r, exps.len(), 10);
            for &i in &take {
                // the expansion's own text (tail as written in the pattern):
                // it matches only if it matches itself *as a pattern*
                names.push(format!("{}{}", exps[i], tail));
                for suf in sufs.iter() {
                    names.push(format!("{}{}", exps[i], suf));
                }
                names.push(mutate(&mut r, &format!("{}{}", exps[i], sufs[0])));
                if exps[i].contains('[') {
                    for pr in class_probes(&exps[i]).into_iter().take(14) {
                        names.push(format!("{pr}{}", sufs[0]));
                        class_names += 1;
                    }
                }
            }
            for m in mispairings(&g.prefix).into_iter().take(12) {
                if !truth.contains(&m) {
                    mis_outside += 1;
                }
                names.push(format!("{m}{}", sufs[0]));
            }
            let stripped: String = g.prefix.chars().filter(|c| !matches!(c, '{' | '}' | ',')).collect();
            names.push(format!("{stripped}{}", sufs[0]));
            // what stands around the groups, joined (shorter than any expansion)
            for j in opat::joint_names(&p).into_iter().take(16) {
                names.push(j.replace("[0-9]*", "1").replace(">=", "-").replace('>', "-").replace('<', "-"));
            }
        }
        // names from the language of the whole expansions: a glob expansion is
        // sampled (wildcards filled with multi-byte characters too), a
        // comparison expansion gets its base with versions around its bounds
        if opat::braces_nested(&p) && !p.contains("{}") {
            let full = opat::expand(&p);
            let take = cx_take(&mut r, full.len(), 6);
            for &i in &take {
                let e = &full[i];
                if !e.contains('<') && !e.contains('>') {
                    if let opat::GlobParse::Ok(toks) = opat::parse_glob(e) {
                        for _ in 0..2 {
                            names.push(sample_glob(&mut r, &toks));
                            lang_names += 1;
                        }
                    }
                } else if let opat::DeweyParse::Ok(d) = opat::parse_dewey(e) {
                    for (_, b) in &d.bounds {
                        for v in [b.clone(), format!("{b}.1"), format!("{b}nb1"), b.chars().take(b.chars().count().saturating_sub(1)).collect(), "0".to_string(), "999".to_string()] {
                            names.push(format!("{}-{v}", d.base));
                            lang_names += 1;
                        }
                    }
                }
            }
        }
        names.push(String::new());
        names.sort();
        names.dedup();
        let (groups, depth) = brace_stats(&p);
        // Step budget proportional to the work the specification itself
        // demands: every name may have to be tried against every expansion,
        // and each expansion is re-assembled once per group on its path.
        let ex = if opat::braces_nested(&p) && !p.contains("{}") { opat::count_expansions(&p, cap) as u64 } else { 1 };
        let work = (names.len() as u64 + 2) * (ex + 1) * (groups as u64 + 2);
        cx.set_budget(100_000 + 64 * work, (100_000 + 64 * work).saturating_mul(p.len() as u64 + 256));
        cx.check(
            || format!("pattern {p:?} names {names:?}"),
            |ev| {
                ev.add("names/mispairing-not-in-expansion", mis_outside);
                ev.add("names/through-a-class-around-a-group", class_names);
                ev.add("names/from-the-language-of-an-expansion", lang_names);
                ev.max("max/work-units(names x expansions x groups)", work);
                ev.count("workload/trees");
                check_case(ev, &p, &names, groups, depth)
            },
        );
    }

    // Metacharacter digrams around a group: every pair of characters of the
    // glob and comparison dialects directly behind, directly in front of and
    // inside a two-way group.  An expansion may be valid where its pieces are
    // not and the reverse ("{foo,bar}**": every expansion is a malformed glob,
    // the tail alone is a fine one), so whatever compiles the pieces
    // separately differs from the union of the expansions on some digram.
    {
        const META: [char; 9] = ['*', '?', '[', ']', '!', '-', '<', '>', '='];
        let mut r = cx.stream("meta-digrams");
        let mut case = 0u64;
        for a in META {
            for b in META {
                for shape in 0..4 {
                    case += 1;
                    if !cx.mine(case) || (cx.tier == Tier::Mini && case % 16 != 0) {
                        continue;
                    }
                    let d = format!("{a}{b}");
                    let p = match shape {
                        0 => format!("{{foo,bar}}{d}"),
                        1 => format!("{{foo,bar}}{d}/x"),
                        2 => format!("{d}{{foo,bar}}-1.0"),
                        _ => format!("p{{{d},x}}-{{1,2}}"),
                    };
                    if !opat::braces_nested(&p) {
                        continue;
                    }
                    let mut names: Vec<String> = vec![];
                    for e in opat::expand(&p).into_iter().take(8) {
                        names.push(e.clone());
                        names.push(mutate(&mut r, &e));
                    }
                    for n in ["foo-1.0", "foo", "bar", "foo/x", "bar-2/x", "foo-1.0/x", "zfoo-1.0", "a-foo-1.0", "px-1", "p-2", "", "foo1", "bar-0", "fooz"] {
                        names.push(n.to_string());
                    }
                    names.sort();
                    names.dedup();
                    let (groups, depth) = brace_stats(&p);
                    cx.check(
                        || format!("metacharacter digram pattern {p:?} names {names:?}"),
                        |ev| {
                            ev.count("workload/meta-digrams");
                            check_case(ev, &p, &names, groups, depth)
                        },
                    );
                }
            }
        }
    }

    // Structural sweep: the number of groups side by side, the nesting depth
    // and the number of expansions each taken through every value up to 70
    // and around the powers of two (a cap, a fixed-size table or a depth
    // guard inside the matcher shows at its threshold and nowhere else).
    if cx.tier != Tier::Mini {
        let mut counts: Vec<usize> = (1..=70).collect();
        counts.extend([100usize, 127, 128, 129, 200, 255, 256, 257, 300]);
        let mut shapes: Vec<(String, Vec<String>, &'static str)> = vec![];
        for &g in &counts {
            // g groups side by side; the first three have two alternatives
            let mut p = String::new();
            for i in 0..g {
                p.push_str(if i < 3 { "{a,b}" } else { "{a}" });
            }
            p.push_str("-1.0");
            let all_a = "a".repeat(g);
            let mut names = vec![format!("{all_a}-1.0"), format!("{}-1.0", "a".repeat(g + 1)), format!("{}-1.0", "a".repeat(g - 1))];
            names.push(format!("b{}-1.0", "a".repeat(g - 1)));
            names.push(format!("{}c-1.0", "a".repeat(g - 1)));
            if g >= 4 {
                names.push(format!("bbb{}-1.0", "a".repeat(g - 3)));
                names.push(format!("{}b-1.0", "a".repeat(g - 1)));
            }
            shapes.push((p, names, "flat-groups"));
            if g > 1 && g % 100 == 0 {
                // ten and thirty times as many groups side by side (only this
                // shape: the reference counts expansions by recursing on depth)
                for big in [g * 10, g * 30, g * 100] {
                    // (the overflow-checking debug build has larger frames and a
                    // slower reference: 3 000 groups are past its threshold)
                    if big > 10_000 || (cx.tier == Tier::Small && big > 3_000) {
                        continue;
                    }
                    let p = format!("{}-1.0", "{a}".repeat(big));
                    let names = vec![format!("{}-1.0", "a".repeat(big)), format!("{}b-1.0", "a".repeat(big - 1)), "a-1.0".to_string()];
                    shapes.push((p, names, "flat-groups-thousands"));
                }
            }
            // g levels of nesting around one literal
            let p = format!("{}a{}-1.0", "{".repeat(g), "}".repeat(g));
            shapes.push((p, vec!["a-1.0".into(), "b-1.0".into(), "-1.0".into(), "aa-1.0".into()], "nested-single"));
            // g levels of nesting with an alternative at every level
            let p = format!("{}y{}-1.0", "{x,".repeat(g), "}".repeat(g));
            shapes.push((p, vec!["x-1.0".into(), "y-1.0".into(), "z-1.0".into(), "xy-1.0".into(), "-1.0".into()], "nested-alternatives"));
        }
        let max2 = cx.pick_tier(4usize, 8, 12, 13);
        // ... and one pattern with 2^17 (quick) / 2^18 (thorough) expansions, past
        // any plausible work limit, matched by late expansions only
        let huge = cx.pick_tier(0usize, 0, 17, 18);
        // ... and one with 2^20 (thorough 2^22): about a second of work that
        // the specification itself demands
        let huger = cx.pick_tier(0usize, 0, 20, 22);
        for n in (1..=max2).chain((huge > 0).then_some(huge)).chain((huger > 0).then_some(huger)) {
            // 2^n expansions; the last one in expansion order is all 'b'
            let p = format!("{}-1.0", "{a,b}".repeat(n));
            let mixed: String = (0..n).map(|i| if i % 2 == 0 { 'b' } else { 'a' }).collect();
            let names = vec![
                format!("{}-1.0", "a".repeat(n)),
                format!("{}-1.0", "b".repeat(n)),
                format!("{mixed}-1.0"),
                format!("{}a-1.0", "b".repeat(n - 1)),
                format!("{}c-1.0", "b".repeat(n - 1)),
                format!("{}-1.0", "b".repeat(n + 1)),
            ];
            shapes.push((p, names, "two-way-groups"));
        }
        let max3 = cx.pick_tier(2usize, 5, 7, 8);
        for n in 1..=max3 {
            let p = format!("{}>=1", "{a,b,c}".repeat(n));
            let names = vec![
                format!("{}-1.0", "a".repeat(n)),
                format!("{}-1.0", "c".repeat(n)),
                format!("{}b-0.9", "c".repeat(n - 1)),
                format!("{}b-1.9", "c".repeat(n - 1)),
                format!("{}d-1.0", "c".repeat(n - 1)),
            ];
            shapes.push((p, names, "three-way-groups"));
        }
        for (i, (p, names, kind)) in shapes.iter().enumerate() {
            if !cx.mine(i as u64) {
                continue;
            }
            let (groups, depth) = brace_stats(p);
            let ex = opat::count_expansions(p, 1 << 20) as u64;
            let work = (names.len() as u64 + 2) * (ex + 1) * (groups as u64 + 2);
            cx.set_budget(200_000 + 64 * work, (200_000 + 64 * work).saturating_mul(p.len() as u64 + 256));
            cx.check(
                || format!("structural sweep ({kind}, {groups} groups, depth {depth}, {ex} expansions) pattern {p:?} names {names:?}"),
                |ev| {
                    ev.count("workload/structural-sweep");
                    ev.count(&format!("structural/{kind}"));
                    ev.max("max/groups", groups as u64);
                    ev.max("max/depth", depth as u64);
                    check_case(ev, p, names, groups, depth)
                },
            );
        }
    }

    cx.default_budget();

    // Exhaustive sweep over short strings of the brace alphabet.
    if cx.tier != Tier::Mini {
        let maxlen = cx.pick_tier(3usize, 5, 6, 8);
        let alpha = ['{', '}', ',', 'a', 'b'];
        let name_alpha = ['a', 'b', ','];
        let mut names: Vec<String> = vec![String::new()];
        let mut layer = vec![String::new()];
        for _ in 0..4 {
            let mut next = vec![];
            for s in &layer {
                for c in name_alpha {
                    next.push(format!("{s}{c}"));
                }
            }
            names.extend(next.iter().cloned());
            layer = next;
        }
        let mut total = 0u64;
        let mut idx = 0u64;
        let mut stack: Vec<String> = vec![String::new()];
        while let Some(s) = stack.pop() {
            if s.chars().count() < maxlen {
                for c in alpha {
                    stack.push(format!("{s}{c}"));
                }
            }
            if !(s.contains('{') || s.contains('}')) {
                continue;
            }
            idx += 1;
            if !cx.mine(idx) {
                continue;
            }
            total += 1;
            let (groups, depth) = brace_stats(&s);
            cx.check(
                || format!("exhaustive pattern {s:?} x {} names over {{a,b,','}} of length <= 4", names.len()),
                |ev| {
                    ev.count("workload/exhaustive");
                    check_case(ev, &s, &names, groups, depth)
                },
            );
        }
        cx.ev.add("exhaustive/patterns", total);
    }

    // Real-world alternation patterns from pkgsrc.
    if cx.tier != Tier::Mini && cx.shard == 0 {
        let pats: Vec<String> = crate::corpus::patterns().into_iter().filter(|p| p.contains('{')).collect();
        let names = crate::corpus::names();
        for p in &pats {
            if p.contains("{}") || !opat::braces_nested(p) || opat::count_expansions(p, 256) > 256 {
                continue;
            }
            // names sharing the first three characters with the pattern
            let key: String = p.chars().take_while(|c| c.is_ascii_alphanumeric() || *c == '-').take(4).collect();
            let mut cand: Vec<String> = names.iter().filter(|n| n.starts_with(&key)).take(40).cloned().collect();
            for e in opat::expand(p).iter().take(8) {
                cand.push(e.replace("[0-9]*", "1").replace('*', "7"));
            }
            let (groups, depth) = brace_stats(p);
            cx.check(
                || format!("corpus pattern {p:?} x {} names", cand.len()),
                |ev| {
                    ev.count("workload/corpus");
                    check_case(ev, p, &cand, groups, depth)
                },
            );
        }
    }
}

/// Up to `k` distinct indices below `n` (all of them when n <= k).
fn cx_take(r: &mut Rng, n: usize, k: usize) -> Vec<usize> {
    if n <= k {
        return (0..n).collect();
    }
    let mut v: Vec<usize> = (0..k).map(|_| r.below(n)).collect();
    v.sort();
    v.dedup();
    v
}
