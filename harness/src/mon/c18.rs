//! C18 - PKGNAME decomposition is lossless and consistent across the library.
//!
//! Refuting events: `pkgbase + "-" + pkgversion != name` when the name has a
//! '-', or `(name, "")` is not returned when it has none; for a version
//! ending in `nb<digits>`, `pkgrevision() != Some(digits as number)`, or that
//! number is not the one the matcher uses (observed black-box through
//! `Pattern`); `pkgrevision()` is `Some` for a version without `nb`;
//! `Summary::pkgbase/pkgversion` differ from `PkgName` for names with
//! non-empty base and version.

use crate::corpus;
use crate::fw::{CaseResult, Cx, Ev, Tier};
use crate::gen::misc as gm;
use crate::gen::summary::Op as SumOp;
use crate::mon::c07;
use crate::oracle::summary::{self as osum, Val};
use crate::oracle::dewey::{self as od, Op};
use crate::oracle::misc::{self as om, Revision};
use crate::rng::hash_bytes;
use pkgsrc::summary::Summary;
use pkgsrc::{Pattern, PkgName};

/// The Summary accessors must give PkgName's split of the current PKGNAME
/// whatever else the entry holds and however it was built: observed after
/// every setter call once a PKGNAME is set, and on an entry parsed from a
/// complete text.
fn check_summary_ctx(ev: &mut Ev, name: &str, ctx: &gm::SumCtx) -> CaseResult {
    ev.count("summary/ctx/setters");
    if ctx.coherent_ops {
        ev.count("summary/ctx/setters_coherent_pkgpath");
    }
    let mut s = Summary::new();
    let mut current: Option<&str> = None;
    for (k, op) in ctx.ops.iter().enumerate() {
        c07::apply(&mut s, op);
        if let SumOp::Set(osum::PKGNAME, Val::S(n)) = op {
            current = Some(n.as_str());
        }
        let Some(cur) = current else { continue };
        let (base, version) = om::split_last_dash(cur);
        ev.evals(2);
        if s.pkgbase() != Some(base) || s.pkgversion() != Some(version) {
            let hist: Vec<String> = ctx.ops[..=k].iter().map(|o| o.show()).collect();
            return Err(format!(
                "Summary gives pkgbase {:?} / pkgversion {:?} for PKGNAME {cur:?} (last '-' gives ({base:?}, {version:?})) after the calls [{}]",
                s.pkgbase(),
                s.pkgversion(),
                hist.join("; ")
            )
            .into());
        }
    }
    let Some(text) = &ctx.text else {
        ev.count("summary/ctx/no_text_for_name");
        return Ok(());
    };
    match text.parse::<Summary>() {
        Err(_) => ev.count("summary/ctx/from_str_rejected_not_compared"),
        Ok(s) if s.pkgname() != Some(name) => ev.count("summary/ctx/from_str_other_pkgname_not_compared"),
        Ok(s) => {
            ev.count("summary/ctx/from_str_compared");
            if ctx.coherent_text {
                ev.count("summary/ctx/from_str_coherent_pkgpath");
            }
            let (base, version) = om::split_last_dash(name);
            ev.evals(2);
            if s.pkgbase() != Some(base) || s.pkgversion() != Some(version) {
                return Err(format!(
                    "Summary parsed from {text:?} gives pkgbase {:?} / pkgversion {:?}, the last '-' of its PKGNAME gives ({base:?}, {version:?})",
                    s.pkgbase(),
                    s.pkgversion()
                )
                .into());
            }
            // ... and the parsed entry is renamed: the accessors follow the
            // current PKGNAME, not the one the text carried (whose last '-'
            // sits at another offset), on the entry itself and on a clone.
            let mut s = s;
            let mut renames: Vec<String> = gm::RENAMES.iter().map(|d| d.to_string()).collect();
            renames.push(format!("{name}-9"));
            renames.push(format!("x-{name}"));
            if !base.is_empty() && !version.is_empty() {
                renames.push(base.to_string());
            }
            renames.push(name.to_string());
            for (k, nn) in renames.iter().enumerate() {
                let (b2, v2) = om::split_last_dash(nn);
                // the statement covers names with non-empty base and version only
                if nn.contains('\n') || nn.contains('\r') || !nn.contains('-') || b2.is_empty() || v2.is_empty() {
                    continue;
                }
                if k % 3 == 2 {
                    s = s.clone();
                }
                c07::apply(&mut s, &SumOp::Set(osum::PKGNAME, Val::S(nn.clone())));
                ev.evals(2);
                ev.count("summary/ctx/renamed_after_parse");
                if s.pkgbase() != Some(b2) || s.pkgversion() != Some(v2) {
                    return Err(format!(
                        "Summary parsed with PKGNAME {name:?} and renamed to {nn:?} (rename #{k}) gives pkgbase {:?} / pkgversion {:?}, the last '-' gives ({b2:?}, {v2:?})",
                        s.pkgbase(),
                        s.pkgversion()
                    )
                    .into());
                }
            }
        }
    }
    Ok(())
}

fn check_name(ev: &mut Ev, name: &str, ctx: &gm::SumCtx) -> CaseResult {
    let (base, version) = om::split_last_dash(name);
    let dashes = om::count_dashes(name);
    let nbs = om::count_nb(name);
    ev.count(&format!("dashes/{}", dashes.min(4)));
    ev.count(&format!("nb/{}", if nbs >= 2 { "2+".to_string() } else { nbs.to_string() }));
    if gm::NAME_SUFFIXES.iter().any(|x| name.ends_with(x)) {
        ev.count("decorated/suffix");
    }
    if gm::NAME_PREFIXES.iter().any(|x| name.starts_with(x)) {
        ev.count("decorated/prefix");
    }

    let p = PkgName::new(name);
    ev.evals(3);
    if p.pkgname() != name {
        return Err(format!("pkgname() is {:?}", p.pkgname()).into());
    }
    if p.pkgbase() != base || p.pkgversion() != version {
        return Err(format!(
            "PkgName splits into ({:?}, {:?}), the last '-' gives ({base:?}, {version:?})",
            p.pkgbase(),
            p.pkgversion()
        )
        .into());
    }
    // losslessness, stated on the library's own outputs
    let rebuilt = if dashes > 0 {
        format!("{}-{}", p.pkgbase(), p.pkgversion())
    } else {
        format!("{}{}", p.pkgbase(), p.pkgversion())
    };
    if rebuilt != name {
        return Err(format!("base, '-' and version rebuild {rebuilt:?}").into());
    }

    match om::revision(version) {
        Revision::Ends(n) => {
            ev.eval();
            ev.count("revision/ends_nb");
            if p.pkgrevision() != Some(n) {
                return Err(format!(
                    "version {version:?} ends in nb{n}: pkgrevision() is {:?}, expected Some({n})",
                    p.pkgrevision()
                )
                .into());
            }
        }
        Revision::NoNb => {
            ev.eval();
            ev.count("revision/no_nb");
            if p.pkgrevision().is_some() {
                return Err(format!(
                    "version {version:?} has no nb: pkgrevision() is {:?}, expected None",
                    p.pkgrevision()
                )
                .into());
            }
        }
        Revision::Unspecified => ev.count("revision/unspecified_not_compared"),
    }

    if !base.is_empty() && !version.is_empty() {
        ev.evals(2);
        ev.count("summary/compared");
        let mut s = Summary::new();
        s.set_pkgname(name);
        if s.pkgbase() != Some(base) || s.pkgversion() != Some(version) {
            return Err(format!(
                "Summary gives pkgbase {:?} / pkgversion {:?}, PkgName's split is ({base:?}, {version:?})",
                s.pkgbase(),
                s.pkgversion()
            )
            .into());
        }
        check_summary_ctx(ev, name, ctx)?;
    } else {
        ev.count("summary/empty_part_not_compared");
    }
    if dashes >= 2 || nbs >= 2 {
        ev.nontrivial(hash_bytes(name.as_bytes()));
    }
    Ok(())
}

fn check_probe(ev: &mut Ev, pr: &gm::Probe, related: bool) -> CaseResult {
    let version = format!("{}nb{}", pr.prefix, pr.digits);
    let name = format!("{}-{}", pr.base, version);
    ev.count("probe/matcher");
    let p = PkgName::new(&name);
    ev.evals(2);
    if p.pkgbase() != pr.base || p.pkgversion() != version {
        return Err(format!(
            "PkgName splits {name:?} into ({:?}, {:?})",
            p.pkgbase(),
            p.pkgversion()
        )
        .into());
    }
    if p.pkgrevision() != Some(pr.n) {
        return Err(format!("pkgrevision() is {:?}, expected Some({})", p.pkgrevision(), pr.n).into());
    }
    // The matcher must use the same base and the same revision.
    let probes = [
        (format!("{}>={}nb{}", pr.base, pr.prefix, pr.n), true, "N with >="),
        (format!("{}>{}nb{}", pr.base, pr.prefix, pr.n), false, "N with >"),
        (format!("{}<={}nb{}", pr.base, pr.prefix, pr.n), true, "N with <="),
        (format!("{}<{}nb{}", pr.base, pr.prefix, pr.n), false, "N with <"),
        (format!("{}>{}nb{}", pr.base, pr.prefix, pr.n - 1), true, "N-1 with >"),
        (format!("{}<={}nb{}", pr.base, pr.prefix, pr.n - 1), false, "N-1 with <="),
        (format!("{}<{}nb{}", pr.base, pr.prefix, pr.n + 1), true, "N+1 with <"),
        (format!("{}>={}nb{}", pr.base, pr.prefix, pr.n + 1), false, "N+1 with >="),
    ];
    for (pat, want, what) in probes.iter() {
        ev.eval();
        let m = Pattern::new(pat)
            .map_err(|e| format!("Pattern::new({pat:?}) failed: {e}"))?
            .matches(&name);
        if m != *want {
            return Err(format!(
                "{pat:?} on {name:?} ({what}): matches = {m}, expected {want}: the matcher does not use revision {} reported by pkgrevision()",
                pr.n
            )
            .into());
        }
    }
    // The same revision against bounds that are *related* to the version by
    // text: the version without its revision, with a shorter / longer
    // equal-valued spelling in front of the revision, with a revision of its
    // own in front of the package's.  Expected verdicts from the reference
    // dewey model (only where it is K1-free and inside its digit bound).
    if !related {
        ev.nontrivial(hash_bytes(name.as_bytes()));
        return Ok(());
    }
    let rel_bounds = [
        pr.prefix.clone(),
        format!("{}.0nb{}", pr.prefix, pr.n),
        format!("{}.0nb{}", pr.prefix, pr.n - 1),
        format!("{}.0.0nb{}", pr.prefix, pr.n + 1),
        format!("{}_nb{}", pr.prefix, pr.n),
        format!("{}nb{}", pr.prefix, pr.n + 2),
        format!("{}nb{}nb{}", pr.prefix, pr.n + 3, pr.n),
        format!("{}nb{}nb{}", pr.prefix, pr.n, pr.n - 1),
    ];
    for b in rel_bounds.iter() {
        if b.is_empty() || !crate::gen::version::usable(b) {
            continue;
        }
        for op in od::OPS {
            let want = od::satisfies(&version, op, b);
            if !want.in_domain || want.rank != want.ascii {
                continue;
            }
            let pat = format!("{}{}{}", pr.base, op.text(), b);
            ev.eval();
            ev.count("probe/related-bounds");
            let m = Pattern::new(&pat).map_err(|e| format!("Pattern::new({pat:?}) failed: {e}"))?.matches(&name);
            if m != want.rank {
                return Err(format!(
                    "{pat:?} on {name:?}: matches = {m}, the dewey rule with revision {} says {}",
                    pr.n, want.rank
                )
                .into());
            }
        }
    }
    ev.nontrivial(hash_bytes(name.as_bytes()));
    Ok(())
}

/// The probe expectations are restated with the reference dewey model; a
/// probe on which the reference disagrees with them is a generator bug and
/// is dropped before it reaches the library.
fn probe_is_sound(pr: &gm::Probe) -> bool {
    let a = format!("{}nb{}", pr.prefix, pr.digits);
    let eq = format!("{}nb{}", pr.prefix, pr.n);
    let lo = format!("{}nb{}", pr.prefix, pr.n - 1);
    let hi = format!("{}nb{}", pr.prefix, pr.n + 1);
    let t = |op: Op, b: &str| {
        let s = od::satisfies(&a, op, b);
        s.in_domain && s.rank == s.ascii && s.rank
    };
    let f = |op: Op, b: &str| {
        let s = od::satisfies(&a, op, b);
        s.in_domain && s.rank == s.ascii && !s.rank
    };
    t(Op::Ge, &eq)
        && f(Op::Gt, &eq)
        && t(Op::Le, &eq)
        && f(Op::Lt, &eq)
        && t(Op::Gt, &lo)
        && f(Op::Le, &lo)
        && t(Op::Lt, &hi)
        && f(Op::Ge, &hi)
}

pub fn run(cx: &mut Cx) {
    cx.ev.require("summary/ctx/renamed_after_parse");
    cx.ev.require("probe/related-bounds");
    cx.ev.require("probe/extreme-prefix");
    cx.default_budget();
    for k in [
        "dashes/0", "dashes/1", "dashes/2", "dashes/3", "dashes/4", "nb/0", "nb/1", "nb/2+",
        "revision/ends_nb", "revision/no_nb", "probe/matcher", "summary/compared",
        "summary/ctx/setters", "summary/ctx/setters_coherent_pkgpath",
        "summary/ctx/from_str_compared", "summary/ctx/from_str_coherent_pkgpath",
        "decorated/suffix", "decorated/prefix",
    ] {
        cx.ev.require(k);
    }

    // (a) generated names
    let n = cx.per_shard(400, 20_000, 300_000, 3_000_000);
    let mut r = cx.stream("names");
    for _ in 0..n {
        let name = gm::name(&mut r);
        let ctx = gm::sum_ctx(&mut r, &name);
        cx.check(|| format!("name {name:?}"), |ev| {
            ev.count("workload/generated");
            check_name(ev, &name, &ctx)
        });
    }

    // (b) black-box revision probes
    let n = cx.per_shard(160, 8_000, 120_000, 1_200_000);
    let mut r = cx.stream("probes");
    for _ in 0..n {
        let pr = loop {
            let pr = gm::probe(&mut r);
            if probe_is_sound(&pr) {
                break pr;
            }
            cx.ev.count("probe/dropped_by_reference");
        };
        cx.check(
            || format!("probe {}-{}nb{} (N={})", pr.base, pr.prefix, pr.digits, pr.n),
            |ev| check_probe(ev, &pr, true),
        );
    }

    // (b') the same probes with a prefix the reference cannot order: a number
    // that does not fit 64 bits (or just does), in front of the revision or
    // further up.  The bounds repeat the prefix character for character, so
    // whatever it is worth it ties with itself and the revision decides.
    let n = cx.per_shard(16, 800, 12_000, 120_000);
    let mut r = cx.stream("probes-extreme-prefix");
    const EXTREME: [&str; 8] = [
        "9223372036854775807", "9223372036854775808", "99999999999999999999", "18446744073709551615", "18446744073709551616",
        "10000000000000000000000000000000000000000", "20240131235959123456789", "4294967296",
    ];
    for _ in 0..n {
        let mut pr = gm::probe(&mut r);
        if pr.prefix.len() > 200 {
            pr.prefix = "1.2".into();
        }
        let x = *r.pick(&EXTREME);
        let sep = *r.pick(&["", ".", "_", "rc", "."]);
        pr.prefix = match r.below(4) {
            0 => format!("{}{sep}{x}", pr.prefix),
            1 => format!("{x}{sep}{}", pr.prefix),
            2 => format!("{}{sep}{x}.{}", pr.prefix, r.below(9)),
            _ => format!("{}{sep}{x}{}", pr.prefix, r.pick(&["alpha", "rc", ".", "_", "pl"])),
        };
        cx.check(
            || format!("probe (prefix outside the reference's domain) {}-{}nb{} (N={})", pr.base, pr.prefix, pr.digits, pr.n),
            |ev| {
                ev.count("probe/extreme-prefix");
                check_probe(ev, &pr, false)
            },
        );
    }

    // (c) corpus names
    // each real name as it is and with a dictionary ending / beginning
    // (binary package suffix, directory prefix, ...) attached
    if cx.tier != Tier::Mini {
        let names = corpus::names();
        let step = cx.pick_tier(64u64, 8, 1, 1);
        let mut r = cx.stream("corpus-contexts");
        for (i, name) in names.iter().enumerate() {
            let i = i as u64;
            if i % step != 0 || !cx.mine(i / step) {
                continue;
            }
            let ctx = gm::sum_ctx(&mut r, name);
            cx.check(|| format!("corpus name {name:?}"), |ev| {
                ev.count("workload/corpus");
                check_name(ev, name, &ctx)
            });
            let k = (i / step) as usize;
            let decorated = if k % 3 == 2 {
                format!("{}{name}", gm::NAME_PREFIXES[(k / 3) % gm::NAME_PREFIXES.len()])
            } else {
                format!("{name}{}", gm::NAME_SUFFIXES[(k / 3) % gm::NAME_SUFFIXES.len()])
            };
            let ctx = gm::sum_ctx(&mut r, &decorated);
            cx.check(|| format!("decorated corpus name {decorated:?}"), |ev| {
                ev.count("workload/corpus_decorated");
                check_name(ev, &decorated, &ctx)
            });
        }
    }
}
