//! C09 - streamed pkg_summary parsing is independent of chunking.
//!
//! Refuting events, for a well-formed stream S and a partition P of its
//! bytes: some `write(chunk)` returns anything but `Ok(chunk.len())`; at the
//! end `entries()` is not S's entries in order or `Display` != S; during the
//! run `entries()` is not a prefix of the reference list, shrinks, or the
//! printed length of the collected entries exceeds the bytes delivered.  For
//! a stream whose j-th entry is malformed: no error by the write that
//! delivers the end of that entry's blank line, an error of another kind than
//! `InvalidData`, or `entries()` at the failure != the j well-formed entries
//! before it.
//!
//! The reference entries come from the generator (canonical texts of model
//! entries), never from a one-shot parse by the library.

use crate::fw::{show, CaseResult, Cx, Ev, Tier};
use crate::gen::summary::{self as gs, CutClass, Fault, Pos, Shape, Stream};
use crate::mon::c07::{same_values, text_diff};
use crate::oracle::summary::{REQUIRED, VARS};
use crate::rng::hash_strs;
use pkgsrc::summary::SummaryStream;
use std::io::{ErrorKind, Write};

/// Drive one partition through a fresh `SummaryStream` and check everything
/// the property says about it.  `cuts` are the sorted chunk boundaries
/// (duplicates and 0/len produce zero-length writes).
fn run_partition(ev: &mut Ev, st: &Stream, cuts: &[usize]) -> CaseResult {
    let total = st.len();
    let chunks = gs::chunks_of(total, cuts);
    // For a malformed stream only the entries before the bad one may ever appear.
    let (limit, deadline) = match &st.bad {
        Some((j, _)) => (*j, Some(st.starts[*j + 1])),
        None => (st.entries.len(), None),
    };
    // three ways to the stream object: new(), default(), and a clone taken
    // half way through the writes (the clone carries on, the original is dropped)
    let route = (total + cuts.len()) % 3;
    ev.count(["stream-route/new", "stream-route/default", "stream-route/clone-midway"][route]);
    let mut ss = if route == 1 { SummaryStream::default() } else { SummaryStream::new() };
    let deliver = (total / 3 + cuts.first().copied().unwrap_or(0)) % 4;
    ev.count(["deliver/write", "deliver/write_all", "deliver/write_vectored", "deliver/write+flush"][deliver]);
    let mut delivered;
    let mut seen = 0usize;
    let mut failed = false;
    ev.max("max/writes_per_partition", chunks.len() as u64);
    for (w, &(lo, hi)) in chunks.iter().enumerate() {
        let chunk = &st.bytes[lo..hi];
        if route == 2 && w == chunks.len() / 2 {
            ss = ss.clone();
        }
        // four ways std::io::Write delivers a chunk: write, write_all,
        // write_vectored (the chunk as two slices, repeated until consumed),
        // and write followed by flush
        let res = match deliver {
            1 => ss.write_all(chunk).map(|_| chunk.len()),
            2 => {
                let mut done = 0usize;
                let mut out = Ok(chunk.len());
                while done < chunk.len() {
                    let rest = &chunk[done..];
                    let mid = rest.len() / 2;
                    let bufs = [std::io::IoSlice::new(&rest[..mid]), std::io::IoSlice::new(&rest[mid..])];
                    match ss.write_vectored(&bufs) {
                        Ok(n) if n > 0 && n <= rest.len() => done += n,
                        Ok(n) => {
                            return Err(format!(
                                "write_vectored of {} bytes in write #{w} (stream offset {}) returned Ok({n})",
                                rest.len(),
                                lo + done
                            )
                            .into())
                        }
                        Err(e) => {
                            out = Err(e);
                            break;
                        }
                    }
                }
                out
            }
            3 => ss.write(chunk).and_then(|n| ss.flush().map(|_| n)),
            _ => ss.write(chunk),
        };
        ev.eval();
        ev.count("writes");
        if chunk.is_empty() {
            ev.count("writes/zero_length");
        }
        delivered = hi;
        match res {
            Ok(n) => {
                if n != chunk.len() {
                    return Err(format!(
                        "write #{w} of {} bytes (stream offset {lo}) returned Ok({n})",
                        chunk.len()
                    )
                    .into());
                }
                if let Some(d) = deadline {
                    if delivered >= d {
                        return Err(format!(
                            "write #{w} delivered the end of the malformed entry's blank line (offset {d}) and returned Ok({n}) instead of an error"
                        )
                        .into());
                    }
                }
            }
            Err(e) => {
                if deadline.is_none() {
                    return Err(format!(
                        "write #{w} of bytes {lo}..{hi} failed on a well-formed stream (kind {:?})",
                        e.kind()
                    )
                    .into());
                }
                if e.kind() != ErrorKind::InvalidData {
                    return Err(format!(
                        "write #{w} failed with kind {:?}, expected InvalidData",
                        e.kind()
                    )
                    .into());
                }
                // a caller of write() only has the io::Error's text: when the
                // malformation is a missing variable, no other variable may be named
                if let Some((_, gs::Fault::Remove(v))) = &st.bad {
                    ev.eval();
                    ev.count("error-text/missing-variable");
                    crate::mon::c07::text_names_only(&e.to_string(), *v, false)?;
                }
                failed = true;
            }
        }
        // invariants after every write (also after the failing one)
        let n = ss.entries().len();
        ev.eval();
        if n < seen {
            return Err(format!("entries() shrank from {seen} to {n} at write #{w}").into());
        }
        if n > limit {
            return Err(format!(
                "after write #{w} entries() holds {n} entries, but only {limit} well-formed entries precede{}",
                if deadline.is_some() { " the malformed one" } else { " the end of the stream" }
            )
            .into());
        }
        // conservation: the collected entries cannot print longer than what was delivered
        if st.starts[n] > delivered {
            return Err(format!(
                "after write #{w} ({delivered} bytes delivered) entries() holds {n} entries whose printed length is {}",
                st.starts[n]
            )
            .into());
        }
        // the new ones are the next reference entries, in order
        for k in seen..n {
            let got = ss.entries()[k].to_string();
            ev.eval();
            if got != st.texts[k] {
                return Err(format!(
                    "entry {k} collected at write #{w} differs from the stream's entry {k}: {}",
                    text_diff(&got, &st.texts[k])
                )
                .into());
            }
        }
        seen = n;
        // Printing the collection between writes (after the first three
        // writes and then after every 2^k-th) must show exactly the entries
        // collected so far - and must not disturb the writes that follow.
        if !failed && w + 1 < chunks.len() && (w < 3 || w.is_power_of_two()) {
            let printed = ss.to_string();
            ev.eval();
            ev.count("prints_between_writes");
            let want = &st.canon[..st.canon_starts[n]];
            if printed.as_bytes() != want {
                return Err(format!(
                    "Display of the collection after write #{w} ({n} entries collected) is not those entries: {}",
                    text_diff(&printed, &String::from_utf8_lossy(want))
                )
                .into());
            }
        }
        if failed {
            // entries at the failure = exactly the well-formed entries before the bad one
            if n != limit {
                return Err(format!(
                    "write #{w} failed with InvalidData but entries() holds {n} entries; {limit} well-formed entries precede the malformed one"
                )
                .into());
            }
            break;
        }
    }
    if deadline.is_some() && !failed {
        return Err("every write succeeded although the stream holds a malformed entry".to_string().into());
    }
    // final state: all collected entries, value by value and as text
    let entries = ss.entries();
    if entries.len() != limit {
        return Err(format!("at the end entries() holds {} entries, expected {limit}", entries.len()).into());
    }
    for k in 0..limit {
        ev.eval();
        same_values(&format!("entry {k} at the end"), &entries[k], &st.entries[k])?;
        let got = entries[k].to_string();
        if got != st.texts[k] {
            return Err(format!("entry {k} at the end prints differently: {}", text_diff(&got, &st.texts[k])).into());
        }
    }
    let printed = ss.to_string();
    ev.eval();
    let want = &st.canon[..st.canon_starts[limit]];
    if printed.as_bytes() != want {
        return Err(format!(
            "Display of the collection does not reproduce the {}: {}",
            if deadline.is_some() { "well-formed prefix of the stream" } else { "stream" },
            text_diff(&printed, &String::from_utf8_lossy(want))
        )
        .into());
    }
    Ok(())
}

fn describe(st: &Stream, family: &str, cuts: &[usize]) -> String {
    let shown: Vec<String> = cuts.iter().take(24).map(|c| c.to_string()).collect();
    format!(
        "{family} partition, cuts at [{}{}] of {}stream ({} bytes, {} entries) {}",
        shown.join(","),
        if cuts.len() > 24 { ",..." } else { "" },
        match &st.bad {
            Some((j, f)) => format!("malformed (entry {j}: {}) ", f.show()),
            None => String::new(),
        },
        st.len(),
        st.entries.len(),
        if st.len() <= 20_000 {
            show(&st.bytes)
        } else {
            // a huge stream is regenerated on replay; show its two ends only
            format!("{} ... {}", show(&st.bytes[..600]), show(&st.bytes[st.len() - 600..]))
        }
    )
}

/// One monitored case.
fn case(cx: &mut Cx, st: &Stream, family: &'static str, cuts: Vec<usize>) {
    cx.check(
        || describe(st, family, &cuts),
        |ev| {
            ev.count(&format!("family/{family}"));
            let mut in_char = false;
            let mut in_sep = false;
            for &c in &cuts {
                match gs::classify_cut(&st.bytes, c) {
                    CutClass::InChar => in_char = true,
                    CutClass::InSeparator => in_sep = true,
                    CutClass::Other => {}
                }
            }
            if in_char {
                ev.count("cut/in_multibyte_char");
            }
            if in_sep {
                ev.count("cut/in_separator");
            }
            if !in_char && !in_sep && !cuts.is_empty() {
                ev.count("cut/elsewhere_only");
            }
            if let Some((j, f)) = &st.bad {
                ev.count(&format!("malformed/{}/entry{}of{}", f.class(), j, st.entries.len()));
                ev.count(&format!("malformed_family/{}/{family}", f.class()));
                if let Fault::Remove(v) = f {
                    ev.count(&format!("malformed_removed/{}", VARS[*v].name));
                }
                if in_char {
                    ev.count("malformed_cut/in_multibyte_char");
                }
                if in_sep {
                    ev.count("malformed_cut/in_separator");
                }
            }
            run_partition(ev, st, &cuts)?;
            if cuts.iter().any(|&c| c > 0 && c < st.len()) {
                let cb: Vec<u8> = cuts.iter().flat_map(|c| (*c as u32).to_le_bytes()).collect();
                ev.nontrivial(hash_strs(&[st.bytes.as_slice(), cb.as_slice()]));
            }
            Ok(())
        },
    );
}

/// One monitored case on a huge stream, with the evidence about what the
/// large writes looked like.
fn huge_case(cx: &mut Cx, st: &Stream, family: &'static str, cuts: Vec<usize>) {
    // classify outside the body (pure generator data)
    let chunks = gs::chunks_of(st.len(), &cuts);
    let mid_entry = |end: usize| st.starts.binary_search(&end).is_err();
    let big64 = chunks.iter().any(|&(lo, hi)| hi - lo >= 65_536 && hi < st.len() && mid_entry(hi));
    let big128 = chunks.iter().any(|&(lo, hi)| hi - lo >= 131_072 && hi < st.len() && mid_entry(hi));
    let bad_beyond = matches!(&st.bad, Some((j, _)) if st.starts[*j] >= 65_536);
    let malformed = st.bad.is_some();
    cx.ev.count(if malformed { "huge/malformed" } else { "huge/well_formed" });
    if big64 {
        cx.ev.count("huge/write_of_64k_or_more_ending_inside_an_entry");
    }
    if big128 {
        cx.ev.count("huge/write_of_128k_or_more_ending_inside_an_entry");
    }
    if bad_beyond {
        cx.ev.count("huge/malformed_entry_beyond_64k");
    }
    cx.ev.max("max/huge_writes_per_partition", chunks.len() as u64);
    case(cx, st, family, cuts);
}

const FIXED: [usize; 8] = [1, 2, 3, 5, 7, 16, 64, 4096];

struct Budget {
    /// enumerate every single cut (false: a seeded sample of this many)
    all_single: bool,
    single_sample: usize,
    /// all pairs when the stream is at most this long
    all_pairs_max_len: usize,
    /// seeded pairs otherwise
    pair_sample: usize,
    random: usize,
    empties: usize,
    fixed: &'static [usize],
}

/// All partition families over one stream.  Enumerations are spread over the
/// shards with `mine`; `counter` numbers the enumerated partitions.
fn families(cx: &mut Cx, st: &Stream, b: &Budget, counter: &mut u64, label: &str) {
    let len = st.len();
    let mut r = cx.shared_stream(label);
    let mut mine = |cx: &Cx| {
        *counter += 1;
        cx.mine(*counter)
    };
    // one call
    if mine(cx) {
        case(cx, st, "one_call", vec![]);
    }
    // every single cut
    if b.all_single {
        for c in 1..len {
            if mine(cx) {
                case(cx, st, "single_cut", vec![c]);
            }
        }
    } else {
        // Mini: the interesting cuts first (inside characters, inside
        // separators), then seeded others.
        let mut special: Vec<usize> =
            (1..len).filter(|&c| gs::classify_cut(&st.bytes, c) != CutClass::Other).collect();
        r.shuffle(&mut special);
        special.truncate(b.single_sample);
        for _ in 0..b.single_sample / 2 {
            special.push(r.range(1, len - 1));
        }
        for c in special {
            if mine(cx) {
                case(cx, st, "single_cut", vec![c]);
            }
        }
    }
    // pairs of cuts
    if len <= b.all_pairs_max_len {
        for c1 in 1..len {
            for c2 in c1 + 1..len {
                if mine(cx) {
                    case(cx, st, "cut_pair_exhaustive", vec![c1, c2]);
                }
            }
        }
    } else {
        for _ in 0..b.pair_sample {
            let c1 = r.range(1, len - 1);
            // half of the pairs are close together (both inside one character
            // or one separator region)
            let c2 = if r.chance(1, 2) { (c1 + r.range(1, 4)).min(len - 1) } else { r.range(1, len - 1) };
            let mut v = vec![c1.min(c2), c1.max(c2)];
            v.dedup();
            if mine(cx) {
                case(cx, st, "cut_pair_seeded", v);
            }
        }
    }
    // fixed chunk sizes (size 1 = byte at a time)
    for &size in b.fixed {
        let fam: &'static str = match size {
            1 => "byte_at_a_time",
            2 => "fixed_2",
            3 => "fixed_3",
            5 => "fixed_5",
            7 => "fixed_7",
            16 => "fixed_16",
            64 => "fixed_64",
            _ => "fixed_4096",
        };
        if mine(cx) {
            case(cx, st, fam, gs::fixed_cuts(len, size));
        }
    }
    // seeded random partitions
    for _ in 0..b.random {
        let cuts = gs::random_cuts(&mut r, len);
        if mine(cx) {
            case(cx, st, "random", cuts);
        }
    }
    // zero-length chunks interleaved
    for k in 0..b.empties {
        let base = match k % 4 {
            0 => gs::random_cuts(&mut r, len),
            1 => {
                // empty writes exactly at the separators: before, between and after the two newlines
                let mut v = vec![];
                for &s in &st.starts[1..] {
                    v.extend([s - 2, s - 1, s]);
                }
                v.retain(|&c| c <= len);
                v
            }
            2 => gs::fixed_cuts(len, *r.pick(&[1usize, 2, 3, 7, 64])),
            _ => vec![r.range(1, len - 1)],
        };
        let cuts = gs::with_empty_chunks(&mut r, len, &base);
        if mine(cx) {
            case(cx, st, "zero_length_interleaved", cuts);
        }
    }
}

pub fn run(cx: &mut Cx) {
    cx.default_budget();
    for fam in [
        "one_call",
        "single_cut",
        "cut_pair_exhaustive",
        "cut_pair_seeded",
        "byte_at_a_time",
        "fixed_2",
        "fixed_3",
        "fixed_5",
        "fixed_7",
        "fixed_16",
        "fixed_64",
        "fixed_4096",
        "random",
        "zero_length_interleaved",
    ] {
        cx.ev.require(&format!("family/{fam}"));
    }
    for k in ["stream-route/new", "stream-route/default", "stream-route/clone-midway", "deliver/write", "deliver/write_all", "deliver/write_vectored", "deliver/write+flush", "error-text/missing-variable"] {
        cx.ev.require(k);
    }
    for k in ["prints_between_writes", "cut/in_multibyte_char", "cut/in_separator", "malformed_cut/in_multibyte_char", "malformed_cut/in_separator", "writes/zero_length"] {
        cx.ev.require(k);
    }
    for class in ["line", "variable", "int", "missing"] {
        cx.ev.require(&format!("malformed_family/{class}/single_cut"));
        cx.ev.require(&format!("malformed_family/{class}/one_call"));
        cx.ev.require(&format!("malformed_family/{class}/byte_at_a_time"));
    }

    for v in REQUIRED {
        cx.ev.require(&format!("malformed_removed/{}", VARS[v].name));
    }
    if cx.tier != Tier::Mini {
        for fam in [
            "big_head_at_limit",
            "big_head_at_boundary",
            "big_head_short_tail",
            "fixed_big",
            "big_then_small",
            "small_then_big",
            "alternating_big_small",
            "random_big",
            "zero_length_big",
            "big_head_at_bad_entry",
        ] {
            cx.ev.require(&format!("family/{fam}"));
        }
        for k in [
            "huge/well_formed",
            "huge/malformed",
            "huge/write_of_64k_or_more_ending_inside_an_entry",
            "huge/write_of_128k_or_more_ending_inside_an_entry",
            "huge/malformed_entry_beyond_64k",
        ] {
            cx.ev.require(k);
        }
    }

    let mini = cx.tier == Tier::Mini;
    let mut counter = 0u64;

    // ---- well-formed streams ------------------------------------------
    // (1) small streams (1-2 compact entries): every cut and every pair of cuts
    let small_streams = cx.pick_tier(1, 1, 2, 12);
    let mut r = cx.shared_stream("small-streams");
    for k in 0..small_streams {
        let n = 1 + (k % 2) as usize;
        // tiny values and no optional variables beyond the multi-byte tail:
        // at most ~230 bytes per entry, so every pair of cuts is affordable
        let st = gs::stream(&mut r, n, 0, 1, true);
        let b = if mini {
            Budget { all_single: false, single_sample: 40, all_pairs_max_len: 0, pair_sample: 24, random: 6, empties: 6, fixed: &[16, 64, 4096] }
        } else {
            Budget { all_single: true, single_sample: 0, all_pairs_max_len: 600, pair_sample: 2_000, random: 64, empties: 32, fixed: &FIXED }
        };
        cx.ev.max("max/stream_bytes", st.len() as u64);
        families(cx, &st, &b, &mut counter, &format!("small-{k}"));
    }
    // Mini: one byte-at-a-time run and the other fixed sizes on a one-entry stream, shared out
    if mini {
        let st = gs::stream(&mut r, 1, 0, 1, true);
        for (k, &size) in FIXED.iter().enumerate() {
            counter += 1;
            if cx.mine(counter) {
                let fam: &'static str = ["byte_at_a_time", "fixed_2", "fixed_3", "fixed_5", "fixed_7", "fixed_16", "fixed_64", "fixed_4096"][k];
                case(cx, &st, fam, gs::fixed_cuts(st.len(), size));
            }
        }
    }

    // (2) medium streams: 1-6 compact entries with optional variables
    let medium = cx.pick_tier(0, 2, 10, 160);
    let mut r = cx.shared_stream("medium-streams");
    for k in 0..medium {
        let n = 1 + (k % 6) as usize;
        let st = gs::stream(&mut r, n, 1, 3, false);
        let b = Budget {
            all_single: true,
            single_sample: 0,
            all_pairs_max_len: 400,
            pair_sample: cx.pick_tier(0, 200, 2_000, 2_000),
            random: cx.pick_tier(0, 16, 200, 400),
            empties: cx.pick_tier(0, 8, 64, 128),
            fixed: &FIXED,
        };
        cx.ev.max("max/stream_bytes", st.len() as u64);
        families(cx, &st, &b, &mut counter, &format!("medium-{k}"));
    }

    // (3) large streams from the full value generator (up to 8 KiB)
    let large = cx.pick_tier(0, 1, 3, 40);
    let mut r = cx.shared_stream("large-streams");
    for k in 0..large {
        let st = gs::big_stream(&mut r, 6 + 4 * (k as usize % 3));
        let b = Budget {
            all_single: true,
            single_sample: 0,
            all_pairs_max_len: 0,
            pair_sample: cx.pick_tier(0, 100, 2_000, 2_000),
            random: cx.pick_tier(0, 8, 100, 300),
            empties: cx.pick_tier(0, 4, 32, 64),
            fixed: &FIXED,
        };
        cx.ev.max("max/stream_bytes", st.len() as u64);
        families(cx, &st, &b, &mut counter, &format!("large-{k}"));
    }

    // (3') a separator across a power-of-two offset: streams in which the two
    // newlines of one separator lie on either side of 4 KiB, 8 KiB, ... 128 KiB
    // (and of their small multiples), delivered so that the pending buffer is
    // never empty when it gets there: a first write of 1-3 bytes and then pieces
    // that end inside entries; also right behind the separator and in one call
    if !mini {
        let mut r = cx.shared_stream("aligned-separators");
        let mut targets: Vec<usize> = vec![4096, 8192, 16_384, 24_576, 32_768, 65_536];
        if cx.tier != Tier::Small {
            targets.extend([12_288, 40_960, 49_152, 131_072]);
        }
        let mut k = 0u64;
        for &t in &targets {
            for shift in [-1isize, 0, 1] {
                let st = gs::aligned_stream(&mut r, t, shift);
                let at = (t as isize + shift) as usize;
                cx.ev.max("max/stream_bytes", st.len() as u64);
                let len = st.len();
                let piece = |first: usize, size: usize| -> Vec<usize> {
                    let mut v = vec![first];
                    let mut c = first + size;
                    while c < len {
                        v.push(c);
                        c += size;
                    }
                    v
                };
                let parts: Vec<Vec<usize>> = vec![
                    vec![],
                    vec![1],
                    vec![1, at + 1],
                    vec![2, at],
                    vec![3, at - 1, at + 1],
                    piece(1, 1000),
                    piece(2, 777),
                    piece(1, 4096),
                    piece(3, 8192),
                    vec![1, at + 1 + (len - at - 1) / 2],
                ];
                for cuts in parts {
                    k += 1;
                    if !cx.mine(k) {
                        continue;
                    }
                    if cuts.iter().any(|c| *c == 0 || *c >= len) || cuts.windows(2).any(|w| w[0] >= w[1]) {
                        continue;
                    }
                    case(cx, &st, "separator_across_power_of_two", cuts);
                }
            }
        }
    }

    // (4) huge streams (70 KiB - 1 MiB, hundreds to thousands of entries)
    // written in few, large chunks: one call; a head of about 4 KiB ... 1 MiB
    // (each power of two +-2, and on / next to the entry boundary after it)
    // then the rest; a big block then a short tail; fixed sizes 8 KiB ...
    // 512 KiB; a big block then many small ones; small then big; alternating;
    // seeded mixtures; zero-length writes in between.
    if !mini {
        // (target bytes, shape)
        let plan: Vec<(usize, Shape)> = match cx.tier {
            Tier::Small => vec![(70_000, Shape::Small), (140_000, Shape::Full)],
            Tier::Quick => vec![
                (66_000, Shape::Small),
                (72_000, Shape::Full),
                (100_000, Shape::Small),
                (130_000, Shape::Full),
                (133_000, Shape::Small),
                (150_000, Shape::Giant(70_000)),
                (200_000, Shape::Full),
                (270_000, Shape::Small),
                (330_000, Shape::Giant(140_000)),
                (400_000, Shape::Full),
                (540_000, Shape::Full),
                (900_000, Shape::Tiny),
                (1_100_000, Shape::Full),
            ],
            _ => {
                let mut v = vec![];
                for k in 0..48usize {
                    let target = [66_000usize, 72_000, 100_000, 130_000, 133_000, 150_000, 200_000, 270_000, 330_000, 400_000, 540_000, 1_100_000][k % 12]
                        + k * 1_237;
                    let shape = match k % 7 {
                        0 | 3 => Shape::Small,
                        1 | 4 => Shape::Full,
                        5 => Shape::Tiny,
                        _ => Shape::Giant(target / 2),
                    };
                    v.push((target, shape));
                }
                v
            }
        };
        let nrandom = cx.pick_tier(0, 6, 24, 60);
        let mut r = cx.shared_stream("huge-streams");
        for (k, (target, shape)) in plan.iter().enumerate() {
            let st = gs::huge_stream(&mut r, *target, *shape);
            cx.ev.max("max/stream_bytes", st.len() as u64);
            cx.ev.max("max/stream_entries", st.entries.len() as u64);
            let mut pr = cx.shared_stream(&format!("huge-partitions-{k}"));
            for (family, cuts) in gs::large_partitions(&mut pr, &st, nrandom) {
                counter += 1;
                if cx.mine(counter) {
                    huge_case(cx, &st, family, cuts);
                }
            }
        }

        // (4b) the size ladder: streams of 2^22 and 2^24 bytes (thorough: 2^26)
        // plus a little, delivered in one write, in two, and in 4 MiB pieces
        // (a per-call or per-buffer limit - "at most 4 MiB per write" - shows
        // one rung above it and nowhere below).  One shard only: a 16 MiB
        // stream is about 130 000 entries.
        if cx.mine(1) && matches!(cx.tier, Tier::Quick | Tier::Thorough) {
            let rungs: Vec<usize> = if cx.tier == Tier::Thorough { vec![1 << 22, 1 << 24, 1 << 26] } else { vec![1 << 22, 1 << 24] };
            let mut r = cx.shared_stream("size-ladder");
            cx.set_budget(1 << 32, 1 << 40);
            for rung in rungs {
                let st = gs::huge_stream(&mut r, rung + 1500, Shape::Tiny);
                cx.ev.max("max/stream_bytes", st.len() as u64);
                cx.ev.max("max/stream_entries", st.entries.len() as u64);
                cx.ev.count("ladder/streams");
                let len = st.len();
                for (family, cuts) in [
                    ("one_call", vec![]),
                    ("fixed_4096", vec![len / 2 + 1]),
                    ("fixed_4096", gs::fixed_cuts(len, 1 << 22)),
                ] {
                    huge_case(cx, &st, family, cuts);
                }
            }
            cx.default_budget();
        }

        // (5) a malformed entry late in a huge stream
        let plan: Vec<(usize, Shape)> = match cx.tier {
            Tier::Small => vec![(80_000, Shape::Small)],
            Tier::Quick => vec![
                (75_000, Shape::Small),
                (140_000, Shape::Full),
                (210_000, Shape::Small),
                (300_000, Shape::Full),
            ],
            _ => (0..16).map(|k| (75_000 + 40_000 * k, if k % 2 == 0 { Shape::Small } else { Shape::Full })).collect(),
        };
        let nrandom = cx.pick_tier(0, 3, 8, 20);
        let mut r = cx.shared_stream("huge-malformed");
        let mut rr = 0usize;
        for (k, (target, shape)) in plan.iter().enumerate() {
            // where the malformed entry sits: the last entry, the one before,
            // the first one beyond 64 KiB / 128 KiB, somewhere in the second half
            for place in 0..5usize {
                let class = ["line", "variable", "int", "missing"][(k + place) % 4];
                let fault = if class == "missing" {
                    rr += 1;
                    Fault::Remove(REQUIRED[rr % REQUIRED.len()])
                } else {
                    match gs::fault_of_class(&mut r, class) {
                        Fault::NoEq(s) if s.trim().is_empty() => Fault::NoEq("garbage".into()),
                        f => f,
                    }
                };
                let place_ = [
                    gs::Place::Last,
                    gs::Place::BeforeLast,
                    gs::Place::Beyond(65_536),
                    gs::Place::Beyond(131_072),
                    gs::Place::SecondHalf,
                ][place];
                let pos = Pos::ALL[(k + place) % 3];
                let st = gs::huge_bad_stream(&mut r, *target, *shape, place_, fault, pos);
                let j = st.bad.as_ref().map(|b| b.0).unwrap_or(0);
                let (b0, b1) = (st.starts[j], st.starts[j + 1]);
                let mut pr = cx.shared_stream(&format!("huge-bad-partitions-{k}-{place}"));
                let mut parts = gs::large_partitions(&mut pr, &st, nrandom);
                for c in [b0.saturating_sub(1), b0, b0 + 1, (b0 + b1) / 2, b1 - 2, b1 - 1, b1, b1 + 1] {
                    if c > 0 && c < st.len() {
                        parts.push(("big_head_at_bad_entry", vec![c]));
                    }
                }
                for (family, cuts) in parts {
                    counter += 1;
                    if cx.mine(counter) {
                        huge_case(cx, &st, family, cuts);
                    }
                }
            }
        }
    }

    // ---- the very first line of the stream is not `VAR=value` with a known
    // VAR because something invisible or innocuous stands in front of the
    // name (a byte order mark, a blank, a zero-width space, '#'): the first
    // entry is malformed like any other entry with an unknown variable ------
    if !mini {
        let mut r = cx.shared_stream("decorated-first-line");
        for (k, deco) in ["\u{feff}", " ", "\t", "\u{a0}", "\u{200b}", "#", "\u{feff}\u{feff}", "\u{fffe}"].iter().enumerate() {
            for n in [1usize, 3] {
                let name = VARS[(k * 5 + n) % VARS.len()].name;
                let fault = Fault::BadName(format!("{deco}{name}=x"), "decorated-first-line");
                let st = gs::bad_stream(&mut r, n, 0, fault, Pos::First);
                let b = Budget {
                    all_single: true,
                    single_sample: 0,
                    all_pairs_max_len: 0,
                    pair_sample: cx.pick_tier(0, 10, 60, 200),
                    random: cx.pick_tier(0, 2, 10, 40),
                    empties: cx.pick_tier(0, 1, 4, 16),
                    fixed: &FIXED,
                };
                families(cx, &st, &b, &mut counter, &format!("decorated-first-line-{k}-{n}"));
            }
        }
    }

    // ---- malformed streams: each fault kind at each entry position -------
    let rounds = cx.pick_tier(1, 1, 2, 24);
    let mut r = cx.shared_stream("malformed-streams");
    let mut missing_rr = 0usize;
    for round in 0..rounds {
        let sizes: &[usize] = if mini { &[2] } else { &[1, 2, 3, 4] };
        for &n in sizes {
            for j in 0..n {
                for class in ["line", "variable", "int", "missing"] {
                    let fault = if class == "missing" {
                        // rotate through the eleven
                        missing_rr += 1;
                        Fault::Remove(REQUIRED[missing_rr % REQUIRED.len()])
                    } else {
                        match gs::fault_of_class(&mut r, class) {
                            // A white-space-only line could be read as a blank
                            // line (separator) by a lenient stream reader: not
                            // used as the malformation of a stream.
                            Fault::NoEq(s) if s.trim().is_empty() => Fault::NoEq("garbage".into()),
                            f => f,
                        }
                    };
                    let pos = Pos::ALL[(round as usize + j + n) % 3];
                    let st = gs::bad_stream(&mut r, n, j, fault, pos);
                    let b = if mini {
                        Budget { all_single: false, single_sample: 10, all_pairs_max_len: 0, pair_sample: 3, random: 2, empties: 2, fixed: &[64] }
                    } else {
                        Budget {
                            all_single: true,
                            single_sample: 0,
                            all_pairs_max_len: 0,
                            pair_sample: cx.pick_tier(0, 30, 300, 600),
                            random: cx.pick_tier(0, 4, 40, 80),
                            empties: cx.pick_tier(0, 2, 16, 32),
                            fixed: &FIXED,
                        }
                    };
                    families(cx, &st, &b, &mut counter, &format!("bad-{round}-{n}-{j}-{class}"));
                }
            }
        }
    }
}
