//! C12 - checksum and size verification passes only for files that really
//! match.
//!
//! Refuting events: `verify_size` / `verify_checksum` / `verify_checksums` (on
//! `Distinfo` and on `Entry`) return `Ok` for a file that differs from the
//! record, an error for one that matches, or the wrong error kind / payload;
//! `find_entry` resolves to anything but the shortest recorded trailing
//! sub-path; `calculate_checksum` / `calculate_size` differ from the oracle.
//!
//! Oracle (`oracle::distinfo`): digests from the RustCrypto crates called
//! directly, the harness's own `$NetBSD` line filter, tail resolution on
//! bytes; everything else by construction.  Every case is judged by the same
//! generic oracle from (records, lookup path, bytes on disk); the corruption
//! label only feeds the evidence histogram.
//!
//! Each case makes sure, inside the case body, that its one file exists with
//! the right content below `cx.scratch/sN/` (one directory per scenario, so
//! that `--replay` of a single case works); the directory is removed when the
//! scenario is finished.

use crate::fw::{show, CaseResult, Cx, Ev};
use crate::gen::distinfo as gd;
use crate::oracle::distinfo::{
    classify, contains, file_digest, last_component, netbsd_filter, patch_sound, resolve_tail,
    size_line, sum_line, Alg, Kind, ALGS,
};
use crate::rng::{hash_strs, Rng};
use pkgsrc::digest::Digest as LibDigest;
use pkgsrc::distinfo::{Checksum, Distinfo, DistinfoError, Entry};
use std::ffi::OsStr;
use std::os::unix::ffi::OsStrExt;
use std::path::Path;

#[derive(Clone)]
struct Rec {
    name: Vec<u8>,
    kind: Kind,
    size: Option<u64>,
    sums: Vec<(Alg, String)>,
}

#[derive(Clone)]
struct Case12 {
    label: &'static str,
    recs: Vec<Rec>,
    /// where the file is written and looked up, relative to the case directory
    rel: Vec<u8>,
    disk: Vec<u8>,
    via_api: bool,
    /// algorithms counted in the evidence cell of this case
    focus: Vec<Alg>,
    content_class: &'static str,
}

fn harness_fatal(what: &str, e: std::io::Error) -> ! {
    eprintln!("pvh: C12 harness I/O error ({what}): {e}");
    std::process::exit(70);
}

/// Make sure `path` holds exactly `disk`.  All cases of a scenario share one
/// directory (metadata operations are the expensive part on a journalled file
/// system); a case never relies on an earlier case having run, so `--replay`
/// of a single case works.
fn ensure_file(sdir: &Path, path: &Path, disk: &[u8], link: bool) {
    let is_link = std::fs::symlink_metadata(path).map(|m| m.file_type().is_symlink()).unwrap_or(false);
    if is_link == link {
        if let Ok(cur) = std::fs::read(path) {
            if cur == disk {
                return;
            }
        }
    }
    let attempt = || -> std::io::Result<()> {
        if let Some(parent) = path.parent() {
            std::fs::create_dir_all(parent)?;
        }
        if std::fs::symlink_metadata(path).is_ok() {
            std::fs::remove_file(path)?;
        }
        if link {
            // the content lives in a store directory next to the case files;
            // the looked-up path is a symbolic link to it (a DISTDIR linked
            // into a shared download cache)
            let base = if sdir.is_absolute() { sdir.to_path_buf() } else { std::env::current_dir()?.join(sdir) };
            let store = base.join(".pvh-store");
            std::fs::create_dir_all(&store)?;
            let target = store.join(format!("{:016x}", crate::rng::hash_bytes(path.as_os_str().as_bytes())));
            std::fs::write(&target, disk)?;
            std::os::unix::fs::symlink(&target, path)
        } else {
            std::fs::write(path, disk)
        }
    };
    if attempt().is_ok() {
        return;
    }
    // A stale file of an earlier case may sit where a directory is needed
    // (or the reverse): start the scenario directory afresh.
    let _ = std::fs::remove_dir_all(sdir);
    if let Err(e) = attempt() {
        harness_fatal("write", e);
    }
}

fn render(recs: &[Rec]) -> Vec<u8> {
    let mut t = b"$NetBSD$\n\n".to_vec();
    for r in recs {
        // where the Size line of a file stands among its checksum lines varies
        // (behind them as pkgsrc writes it, in front of them, in between): a
        // recorded line counts wherever it stands
        let at = match (r.name.len() + r.sums.len()) % 3 {
            0 => r.sums.len(),
            1 => 0,
            _ => r.sums.len() / 2,
        };
        for (i, (a, h)) in r.sums.iter().enumerate() {
            if i == at {
                if let Some(n) = r.size {
                    t.extend_from_slice(&size_line(&r.name, n));
                }
            }
            t.extend_from_slice(&sum_line(*a, &r.name, h));
        }
        if at >= r.sums.len() {
            if let Some(n) = r.size {
                t.extend_from_slice(&size_line(&r.name, n));
            }
        }
    }
    t
}

fn api_entry(r: &Rec, dir: &Path) -> Entry {
    let sums: Vec<Checksum> = r.sums.iter().map(|(a, h)| Checksum::new(a.lib(), h.clone())).collect();
    let name = OsStr::from_bytes(&r.name);
    Entry::new(name, dir.join(name), sums, r.size)
}

/// Build the Distinfo under test.  Besides the two plain routes (all records
/// through `insert()`, or the whole text through `from_bytes()`), two
/// histories in which the object is *used while it grows*: the first half of
/// the records is there, `probe` is looked up and verified (answers not
/// compared - the final ones are), and the remaining records are inserted one
/// at a time with further lookups in between; in the last route every step
/// continues on a clone.  What the finished object answers may not depend on
/// what it was asked on the way.
fn build(ev: &mut Ev, c: &Case12, dir: &Path, probe: &Path) -> Distinfo {
    let route = (c.rel.len() + c.recs.len() + c.disk.len()) % 4;
    if route < 2 {
        ev.count("history/plain");
        return if c.via_api {
            let mut di = if route == 0 { Distinfo::new() } else { Distinfo::default() };
            for r in &c.recs {
                di.insert(api_entry(r, dir));
            }
            di
        } else {
            Distinfo::from_bytes(&render(&c.recs))
        };
    }
    ev.count(if route == 2 { "history/queried-while-growing" } else { "history/queried-while-growing-on-clones" });
    let k = c.recs.len() / 2;
    let mut di = if c.via_api {
        let mut di = Distinfo::new();
        for r in &c.recs[..k] {
            di.insert(api_entry(r, dir));
        }
        di
    } else {
        Distinfo::from_bytes(&render(&c.recs[..k]))
    };
    let ask = |di: &Distinfo| {
        let _ = di.find_entry(probe);
        let _ = di.verify_size(probe);
        let _ = di.verify_checksum(probe, ALGS[0].lib());
    };
    ask(&di);
    for r in &c.recs[k..] {
        if route == 3 {
            di = di.clone();
        }
        di.insert(api_entry(r, dir));
        ask(&di);
    }
    di
}

enum ExpSize {
    NotFound,
    Missing,
    Ok(u64),
    Mismatch(u64, u64),
}

enum ExpSum {
    NotFound,
    Missing,
    Ok,
    Mismatch(String, String),
}

fn name_ok(p: &Path, rec_name: &[u8], full: &[u8]) -> bool {
    let b = p.as_os_str().as_bytes();
    b == rec_name || b == full
}

fn cmp_size(
    what: &str,
    got: Result<u64, DistinfoError>,
    exp: &ExpSize,
    rec_name: &[u8],
    full: &[u8],
) -> Result<(), String> {
    let ok = match (&got, exp) {
        (Ok(n), ExpSize::Ok(e)) => n == e,
        (Err(DistinfoError::Size(p, e, a)), ExpSize::Mismatch(we, wa)) => {
            e == we && a == wa && name_ok(p, rec_name, full)
        }
        (Err(DistinfoError::MissingSize(_)), ExpSize::Missing) => true,
        (Err(DistinfoError::NotFound), ExpSize::NotFound) => true,
        _ => false,
    };
    if ok {
        return Ok(());
    }
    let want = match exp {
        ExpSize::NotFound => "Err(NotFound)".to_string(),
        ExpSize::Missing => "Err(MissingSize)".to_string(),
        ExpSize::Ok(n) => format!("Ok({n})"),
        ExpSize::Mismatch(e, a) => {
            format!("Err(Size({:?}, expected {e}, actual {a}))", show(rec_name))
        }
    };
    Err(format!("{what} returned {got:?}, expected {want}"))
}

fn cmp_sum(
    what: &str,
    alg: Alg,
    got: Result<LibDigest, DistinfoError>,
    exp: &ExpSum,
    rec_name: &[u8],
    full: &[u8],
) -> Result<(), String> {
    let ok = match (&got, exp) {
        (Ok(d), ExpSum::Ok) => *d == alg.lib(),
        (Err(DistinfoError::Checksum(p, d, e, a)), ExpSum::Mismatch(we, wa)) => {
            *d == alg.lib() && e == we && a == wa && name_ok(p, rec_name, full)
        }
        (Err(DistinfoError::MissingChecksum(_, _)), ExpSum::Missing) => true,
        (Err(DistinfoError::NotFound), ExpSum::NotFound) => true,
        _ => false,
    };
    if ok {
        return Ok(());
    }
    let want = match exp {
        ExpSum::NotFound => "Err(NotFound)".to_string(),
        ExpSum::Missing => "Err(MissingChecksum)".to_string(),
        ExpSum::Ok => format!("Ok({})", alg.keyword()),
        ExpSum::Mismatch(e, a) => format!(
            "Err(Checksum({:?}, {}, expected {e}, actual {a}))",
            show(rec_name),
            alg.keyword()
        ),
    };
    Err(format!("{what} for {} returned {got:?}, expected {want}", alg.keyword()))
}

fn observe(ev: &mut Ev, dir: &Path, c: &Case12) -> CaseResult {
    let path = dir.join(OsStr::from_bytes(&c.rel));
    // How the file exists on disk: a regular file, or (one case in four,
    // decided by the case itself so that a replay does the same) a symbolic
    // link to a regular file with that content.
    let link = !cfg!(miri) && crate::rng::hash_strs(&[&c.rel, c.label.as_bytes(), &c.disk[..c.disk.len().min(64)]]) % 4 == 0;
    ensure_file(dir, &path, &c.disk, link);
    ev.count(if link { "file-on-disk/symlink-to-regular-file" } else { "file-on-disk/regular-file" });
    let full = path.as_os_str().as_bytes().to_vec();

    // How the file is looked up: by its full path, or - one case in eight, in
    // the single-threaded engines only (the working directory belongs to the
    // whole process) - by the path relative to the working directory, which
    // is the scenario directory for the duration of the case.  The distinfo
    // then also records "<name of the working directory>/<that path>": not a
    // trailing sub-path of the lookup path, so it plays no part.
    struct CwdGuard(Option<std::path::PathBuf>);
    impl Drop for CwdGuard {
        fn drop(&mut self) {
            if let Some(d) = self.0.take() {
                let _ = std::env::set_current_dir(d);
            }
        }
    }
    let mut guard = CwdGuard(None);
    let mut decoy: Option<Vec<u8>> = None;
    let relative_route = !cfg!(miri)
        && !crate::fw::MT_MODE.load(std::sync::atomic::Ordering::Relaxed)
        && crate::rng::hash_strs(&[b"relroute", &c.rel, c.label.as_bytes()]) % 8 == 1;
    let (path, full) = if relative_route {
        match (std::env::current_dir(), dir.file_name()) {
            (Ok(old), Some(dn)) if std::env::set_current_dir(dir).is_ok() => {
                guard.0 = Some(old);
                let mut d = dn.as_bytes().to_vec();
                d.push(b'/');
                d.extend_from_slice(&c.rel);
                decoy = Some(d);
                (std::path::PathBuf::from(OsStr::from_bytes(&c.rel)), c.rel.clone())
            }
            _ => (path, full),
        }
    } else {
        (path, full)
    };
    ev.count(if guard.0.is_some() { "lookup-path/relative-to-the-working-directory" } else { "lookup-path/full" });
    let with_decoy: Case12;
    let c: &Case12 = match &decoy {
        Some(d) if !c.recs.iter().any(|r| &r.name == d) => {
            let mut m = c.clone();
            let kind = classify(last_component(&c.rel)).unwrap_or(Kind::Dist);
            m.recs.push(Rec { name: d.clone(), kind, size: Some(c.disk.len() as u64 + 7), sums: vec![] });
            with_decoy = m;
            &with_decoy
        }
        _ => c,
    };

    // Under which name the file is recorded: as generated (relative, possibly
    // below DIST_SUBDIR directories) or - one case in eight - under the very
    // path it is looked up by (the whole path is its own last trailing
    // sub-path).
    let absolute = crate::rng::hash_strs(&[b"abs", &c.rel, c.label.as_bytes()]) % 8 == 0
        && full.first() == Some(&b'/')
        && !full.iter().any(|b| b.is_ascii_whitespace())
        && c.recs.iter().filter(|r| r.name == c.rel).count() == 1;
    let owned: Case12;
    let c: &Case12 = if absolute {
        let mut m = c.clone();
        for r in m.recs.iter_mut() {
            if r.name == c.rel {
                r.name = full.clone();
            }
        }
        owned = m;
        &owned
    } else {
        c
    };
    ev.count(if absolute { "recorded-name/the-absolute-lookup-path" } else { "recorded-name/relative" });

    // ---- oracle ----
    let lookup_kind = classify(last_component(&c.rel)).unwrap_or(Kind::Dist);
    let cands: Vec<&Rec> = c.recs.iter().filter(|r| r.kind == lookup_kind).collect();
    let names: Vec<&[u8]> = cands.iter().map(|r| &r.name[..]).collect();
    let rec: Option<&Rec> = resolve_tail(&names, &full).map(|i| cands[i]);
    let sound = lookup_kind == Kind::Dist || patch_sound(&c.disk);
    let actual_size = c.disk.len() as u64;
    let actual: Vec<String> = ALGS.iter().map(|a| file_digest(*a, lookup_kind, &c.disk)).collect();
    let rec_name: &[u8] = rec.map(|r| &r.name[..]).unwrap_or(b"");
    let exp_size = match rec {
        None => ExpSize::NotFound,
        Some(r) => match r.size {
            None => ExpSize::Missing,
            Some(n) if n == actual_size => ExpSize::Ok(n),
            Some(n) => ExpSize::Mismatch(n, actual_size),
        },
    };
    let exp_sum = |alg: Alg| -> ExpSum {
        let Some(r) = rec else { return ExpSum::NotFound };
        let Some((_, h)) = r.sums.iter().find(|(a, _)| *a == alg) else { return ExpSum::Missing };
        let act = &actual[ALGS.iter().position(|a| *a == alg).unwrap()];
        if h == act {
            ExpSum::Ok
        } else {
            ExpSum::Mismatch(h.clone(), act.clone())
        }
    };

    // ---- evidence ----
    for a in &c.focus {
        ev.count(&format!("cell/{}/{}/{}", a.keyword(), lookup_kind.name(), c.label));
    }
    ev.count(&format!("content/{}", c.content_class));
    ev.count(&format!("kind/{}", lookup_kind.name()));
    ev.count(if c.via_api { "built/api" } else { "built/parsed" });
    ev.count(&format!("nesting/{}", c.rel.iter().filter(|&&b| b == b'/').count()));
    match &exp_size {
        ExpSize::NotFound => ev.count("expect/size/not-found"),
        ExpSize::Missing => ev.count("expect/size/missing"),
        ExpSize::Ok(_) => ev.count("expect/size/ok"),
        ExpSize::Mismatch(..) => ev.count("expect/size/mismatch"),
    }
    if !sound {
        ev.count("skipped/unsound-patch-content");
    }

    // ---- observations ----
    let di = build(ev, c, dir, &path);
    let entry: Option<&Entry> = match di.find_entry(&path) {
        Ok(e) => Some(e),
        Err(DistinfoError::NotFound) => None,
        Err(e) => return Err(format!("find_entry returned {e:?}").into()),
    };
    ev.eval();
    match (entry, rec) {
        (None, None) => {}
        (Some(e), Some(r)) if e.filename.as_os_str().as_bytes() == &r.name[..] => {}
        _ => {
            return Err(format!(
                "find_entry resolved to {:?}, the shortest recorded trailing sub-path is {:?}",
                entry.map(|e| show(e.filename.as_os_str().as_bytes())),
                rec.map(|r| show(&r.name))
            )
            .into())
        }
    }

    ev.eval();
    cmp_size("Distinfo::verify_size", di.verify_size(&path), &exp_size, rec_name, &full)?;
    if let Some(e) = entry {
        ev.eval();
        cmp_size("Entry::verify_size", e.verify_size(&path), &exp_size, rec_name, &full)?;
    }
    ev.eval();
    match Distinfo::calculate_size(&path) {
        Ok(n) if n == actual_size => {}
        other => {
            return Err(format!("calculate_size returned {other:?}, the file has {actual_size} bytes").into())
        }
    }

    if sound {
        for (k, alg) in ALGS.iter().enumerate() {
            let exp = exp_sum(*alg);
            match &exp {
                ExpSum::NotFound => ev.count("expect/checksum/not-found"),
                ExpSum::Missing => ev.count("expect/checksum/missing"),
                ExpSum::Ok => ev.count("expect/checksum/ok"),
                ExpSum::Mismatch(..) => ev.count("expect/checksum/mismatch"),
            }
            ev.eval();
            cmp_sum(
                "Distinfo::verify_checksum",
                *alg,
                di.verify_checksum(&path, alg.lib()),
                &exp,
                rec_name,
                &full,
            )?;
            if let Some(e) = entry {
                ev.eval();
                cmp_sum(
                    "Entry::verify_checksum",
                    *alg,
                    e.verify_checksum(&path, alg.lib()),
                    &exp,
                    rec_name,
                    &full,
                )?;
            }
            ev.eval();
            match Distinfo::calculate_checksum(&path, alg.lib()) {
                Ok(h) if h == actual[k] => {}
                other => {
                    return Err(format!(
                        "calculate_checksum({}) returned {other:?}, the {} digest is {}",
                        alg.keyword(),
                        lookup_kind.name(),
                        actual[k]
                    )
                    .into())
                }
            }
        }

        // verify_checksums: one result per recorded checksum, in order
        let mut lists: Vec<(&str, Vec<Result<LibDigest, DistinfoError>>)> =
            vec![("Distinfo::verify_checksums", di.verify_checksums(&path))];
        if let Some(e) = entry {
            lists.push(("Entry::verify_checksums", e.verify_checksums(&path)));
        }
        for (what, got) in lists {
            match rec {
                None => {
                    ev.eval();
                    let all_nf = !got.is_empty()
                        && got.iter().all(|x| matches!(x, Err(DistinfoError::NotFound)));
                    if !all_nf {
                        return Err(format!("{what} returned {got:?}, expected NotFound").into());
                    }
                }
                Some(r) if r.sums.is_empty() => {} // statement is silent: not compared
                Some(r) => {
                    ev.eval();
                    if got.len() != r.sums.len() {
                        return Err(format!(
                            "{what} returned {} results for {} recorded checksums: {got:?}",
                            got.len(),
                            r.sums.len()
                        )
                        .into());
                    }
                    for (g, (alg, _)) in got.into_iter().zip(&r.sums) {
                        cmp_sum(what, *alg, g, &exp_sum(*alg), rec_name, &full)?;
                    }
                }
            }
        }
    }

    let has_token = contains(&c.disk, b"$NetBSD");
    if c.label != "none" || (lookup_kind == Kind::Patch && has_token) || c.rel.contains(&b'/') {
        ev.nontrivial(hash_strs(&[c.label.as_bytes(), &c.rel, &c.disk, &render(&c.recs)]));
    }
    Ok(())
}

// ---------------------------------------------------------------------------
// Scenario generation (never looks at anything the library returned)
// ---------------------------------------------------------------------------

const HEXD: &[u8; 16] = b"0123456789abcdef";

fn other_hex_digit(r: &mut Rng, old: u8) -> u8 {
    loop {
        let d = HEXD[r.below(16)];
        if d != old {
            return d;
        }
    }
}

fn record(name: &[u8], kind: Kind, content: &[u8], algs: &[Alg]) -> Rec {
    Rec {
        name: name.to_vec(),
        kind,
        size: Some(content.len() as u64),
        sums: algs.iter().map(|a| (*a, file_digest(*a, kind, content))).collect(),
    }
}

fn alg_subset(r: &mut Rng) -> Vec<Alg> {
    let mut a = ALGS.to_vec();
    r.shuffle(&mut a);
    if !r.chance(1, 3) {
        let n = r.range(1, 5);
        a.truncate(n);
    }
    a
}

fn would_resolve(recs: &[Rec], rel: &[u8]) -> bool {
    let Some(k) = classify(last_component(rel)) else { return true };
    let names: Vec<&[u8]> = recs.iter().filter(|r| r.kind == k).map(|r| &r.name[..]).collect();
    let mut full = b"/x/".to_vec();
    full.extend_from_slice(rel);
    resolve_tail(&names, &full).is_some()
}

/// All cases of one scenario: a main file, a few other recorded files, and
/// every single-step corruption.
fn scenario(r: &mut Rng, sc: u64) -> Vec<Case12> {
    let kind = if r.chance(2, 5) { Kind::Patch } else { Kind::Dist };
    let mut class = (sc % gd::CONTENT_CLASSES.len() as u64) as usize;
    if class == 11 && (sc / 12) % 3 != 0 {
        class = 9;
    }
    let mut content = gd::content(r, class);
    let mut content_class = gd::CONTENT_CLASSES[class];
    if kind == Kind::Patch && !patch_sound(&content) {
        // an unterminated kept last line is an excluded zone for patches
        content.push(b'\n');
        content_class = match class {
            4 => "text",
            _ => content_class,
        };
    }
    let mut used: Vec<Vec<u8>> = vec![];
    let name = if kind == Kind::Dist && r.chance(1, 3) {
        // DIST_SUBDIR nesting 1..3 by construction
        let mut used2 = vec![];
        let base = gd::fresh_name(r, Kind::Dist, false, true, &mut used2);
        let mut p = vec![];
        for _ in 0..r.range(1, 3) {
            p.extend_from_slice(&gd::raw_name(r, 1, 5, true));
            p.push(b'/');
        }
        p.extend_from_slice(&base);
        if classify(&p) == Some(Kind::Dist) {
            used.push(p.clone());
            p
        } else {
            used.push(base.clone());
            base
        }
    } else if kind == Kind::Patch && r.chance(1, 4) {
        // a patch below directories (every component named like a patch, so
        // that whole-name and last-component readings of the rule agree): found
        // from full paths by its trailing sub-paths like any other entry
        let mut used2 = vec![];
        let base = gd::fresh_name(r, Kind::Patch, false, true, &mut used2);
        let mut p = vec![];
        for _ in 0..r.range(1, 2) {
            p.extend_from_slice(b"patch-");
            p.extend_from_slice(&gd::raw_name(r, 1, 4, true));
            p.push(b'/');
        }
        p.extend_from_slice(&base);
        if classify(&p) == Some(Kind::Patch) && crate::oracle::distinfo::path_plain(&p) {
            used.push(p.clone());
            p
        } else {
            used.push(base.clone());
            base
        }
    } else {
        gd::fresh_name_fs(r, kind, &mut used)
    };
    let algs = alg_subset(r);
    let main = record(&name, kind, &content, &algs);
    let via_api = r.chance(1, 2);
    let mut serial = 0u32;

    // other recorded files (never verified; hashes are arbitrary)
    let mut recs: Vec<Rec> = vec![];
    for _ in 0..r.below(3) {
        let k = if r.chance(1, 2) { Kind::Patch } else { Kind::Dist };
        let n = gd::fresh_name(r, k, k == Kind::Dist, true, &mut used);
        let sums = alg_subset(r).into_iter().map(|a| (a, gd::unique_hash(r, a, &mut serial))).collect();
        recs.push(Rec { name: n, kind: k, size: Some(r.below(100_000) as u64), sums });
    }
    let main_at = r.below(recs.len() + 1);
    recs.insert(main_at, main.clone());

    let base = Case12 {
        label: "none",
        recs: recs.clone(),
        rel: name.clone(),
        disk: content.clone(),
        via_api,
        focus: algs.clone(),
        content_class,
    };
    let with_main = |f: &dyn Fn(&mut Rec)| -> Vec<Rec> {
        let mut v = recs.clone();
        f(&mut v[main_at]);
        v
    };
    let mut out = vec![base.clone()];

    // --- the file changes ---
    if !content.is_empty() {
        for _ in 0..24 {
            let p = r.below(content.len());
            let mut d = content.clone();
            d[p] ^= 1 << r.below(8);
            let fine = match kind {
                Kind::Dist => true,
                Kind::Patch => patch_sound(&d) && netbsd_filter(&d) != netbsd_filter(&content),
            };
            if fine {
                out.push(Case12 { label: "flip-byte", disk: d, ..base.clone() });
                break;
            }
        }
    }
    if kind == Kind::Patch {
        // one byte inside a line containing $NetBSD: must still verify
        let mut spans = vec![];
        let mut start = 0;
        for (i, &b) in content.iter().enumerate() {
            if b == b'\n' {
                if contains(&content[start..i], b"$NetBSD") {
                    spans.push((start, i));
                }
                start = i + 1;
            }
        }
        if start < content.len() && contains(&content[start..], b"$NetBSD") {
            spans.push((start, content.len()));
        }
        if !spans.is_empty() {
            let (s, e) = *r.pick(&spans);
            for _ in 0..24 {
                let p = r.range(s, e - 1);
                let mut d = content.clone();
                let nb = r.byte();
                if nb == b'\n' || nb == d[p] {
                    continue;
                }
                d[p] = nb;
                if patch_sound(&d) && netbsd_filter(&d) == netbsd_filter(&content) {
                    out.push(Case12 { label: "flip-inside-netbsd", disk: d, ..base.clone() });
                    break;
                }
            }
        }
    }
    if !content.is_empty() {
        let d = match kind {
            Kind::Dist => content[..content.len() - 1].to_vec(),
            Kind::Patch => content[1..].to_vec(),
        };
        if kind == Kind::Dist || patch_sound(&d) {
            out.push(Case12 { label: "truncate", disk: d, ..base.clone() });
        }
    }
    {
        let b = r.byte();
        let d = match kind {
            Kind::Dist => {
                let mut d = content.clone();
                d.push(b);
                d
            }
            Kind::Patch => {
                let mut d = vec![if content.is_empty() { b'\n' } else { b }];
                d.extend_from_slice(&content);
                d
            }
        };
        if kind == Kind::Dist || patch_sound(&d) {
            out.push(Case12 { label: "extend", disk: d, ..base.clone() });
        }
    }

    // --- the record changes ---
    let focus = *r.pick(&algs);
    let fpos = algs.iter().position(|a| *a == focus).unwrap();
    let hlen = main.sums[fpos].1.len();
    for (label, at) in [
        ("hash-digit-first", 0usize),
        ("hash-digit-middle", r.range(1, hlen - 2)),
        ("hash-digit-last", hlen - 1),
    ] {
        let old = main.sums[fpos].1.as_bytes()[at];
        let nd = other_hex_digit(r, old);
        let v = with_main(&|m: &mut Rec| {
            let mut b = m.sums[fpos].1.clone().into_bytes();
            b[at] = nd;
            m.sums[fpos].1 = String::from_utf8(b).unwrap_or_default();
        });
        out.push(Case12 { label, recs: v, focus: vec![focus], ..base.clone() });
    }
    let cut = *r.pick(&[hlen - 1, hlen / 2, 1, 8]);
    let v = with_main(&|m: &mut Rec| m.sums[fpos].1.truncate(cut));
    out.push(Case12 { label: "hash-prefix", recs: v, focus: vec![focus], ..base.clone() });
    let extra = HEXD[r.below(16)] as char;
    let v = with_main(&|m: &mut Rec| m.sums[fpos].1.push(extra));
    out.push(Case12 { label: "hash-extended", recs: v, focus: vec![focus], ..base.clone() });
    // a recorded value that means something to other tools (pkgsrc's checksum
    // script skips "IGNORE") is, here, a hash that does not match
    let lit_tokens: Vec<&'static str> = crate::corpus::literal_strs(&["distinfo", "digest"])
        .into_iter()
        .filter(|s| !s.is_empty() && s.len() <= 24 && s.chars().all(|c| c.is_ascii_graphic()) && !s.contains(|c| matches!(c, '(' | ')' | '=')))
        .collect();
    let token: &str = if !lit_tokens.is_empty() && r.chance(1, 2) {
        lit_tokens[r.below(lit_tokens.len())]
    } else {
        *r.pick(&["IGNORE", "ignore", "NONE", "none", "SKIP", "0", "*", "-", "da39a3ee5e6b4b0d3255bfef95601890afd80709"])
    };
    let v = with_main(&|m: &mut Rec| m.sums[fpos].1 = token.to_string());
    if main.sums[fpos].1 != token {
        out.push(Case12 { label: "hash-special-token", recs: v, focus: vec![focus], ..base.clone() });
    }
    let len = content.len() as u64;
    let v = with_main(&|m: &mut Rec| m.size = Some(len + 1));
    out.push(Case12 { label: "size+1", recs: v, ..base.clone() });
    if len > 0 {
        let v = with_main(&|m: &mut Rec| m.size = Some(len - 1));
        out.push(Case12 { label: "size-1", recs: v, ..base.clone() });
    }
    let v = with_main(&|m: &mut Rec| {
        m.sums.remove(fpos);
    });
    out.push(Case12 { label: "alg-removed", recs: v, focus: vec![focus], ..base.clone() });
    let v = with_main(&|m: &mut Rec| m.size = None);
    out.push(Case12 { label: "size-removed", recs: v, ..base.clone() });

    // --- the lookup changes ---
    let mut rels: Vec<Vec<u8>> = vec![];
    match kind {
        Kind::Dist => {
            let mut x = b"x".to_vec();
            x.extend_from_slice(&name); // byte suffix, not a component suffix
            rels.push(x);
            if name.contains(&b'/') {
                rels.push(last_component(&name).to_vec()); // parents dropped
                let mut y = b"other/".to_vec();
                y.extend_from_slice(last_component(&name));
                rels.push(y);
            } else {
                rels.push(b"unrecorded.bin".to_vec());
            }
        }
        Kind::Patch => {
            let mut x = name.clone();
            x.extend_from_slice(b"x");
            rels.push(x);
            rels.push(b"patch-unrecorded".to_vec());
        }
    }
    for rel in rels {
        if classify(last_component(&rel)) == Some(kind) && !would_resolve(&recs, &rel) {
            out.push(Case12 { label: "no-tail", rel, focus: ALGS.to_vec(), ..base.clone() });
        }
    }
    // a name of this kind looked up where only the other kind is recorded
    let mut only_other: Vec<Rec> = recs.iter().filter(|x| x.kind != kind).cloned().collect();
    if only_other.is_empty() {
        let (k, n): (Kind, &[u8]) = match kind {
            Kind::Dist => (Kind::Patch, b"patch-aa"),
            Kind::Patch => (Kind::Dist, b"foo-1.0.tar.gz"),
        };
        only_other.push(record(n, k, &content, &algs));
    }
    out.push(Case12 { label: "kind-mismatch", recs: only_other, focus: ALGS.to_vec(), ..base.clone() });

    // --- two recorded names sharing a tail (distfiles only) ---
    if kind == Kind::Dist && !name.contains(&b'/') {
        let d1 = gd::raw_name(r, 1, 4, true);
        let d2 = gd::raw_name(r, 1, 4, true);
        let mut n2 = d1.clone();
        n2.push(b'/');
        n2.extend_from_slice(&name);
        let mut n3 = d2.clone();
        n3.push(b'/');
        n3.extend_from_slice(&n2);
        if classify(&n2) == Some(Kind::Dist) && classify(&n3) == Some(Kind::Dist) {
            let mut c2 = content.clone();
            c2.extend_from_slice(b"-2");
            let mut c3 = content.clone();
            c3.extend_from_slice(b"-three");
            let r1 = main.clone();
            let r2 = record(&n2, Kind::Dist, &c2, &algs);
            let r3 = record(&n3, Kind::Dist, &c3, &algs);
            let mut all = vec![r1.clone(), r2.clone(), r3.clone()];
            r.shuffle(&mut all);
            let mut two = vec![r3.clone(), r2.clone()];
            if r.chance(1, 2) {
                two.swap(0, 1);
            }
            let mk = |recs: &Vec<Rec>, rel: &Vec<u8>, disk: &Vec<u8>| Case12 {
                label: "shared-tail",
                recs: recs.clone(),
                rel: rel.clone(),
                disk: disk.clone(),
                ..base.clone()
            };
            // the file that matches the longer name's record is judged by the
            // shortest recorded tail
            out.push(mk(&all, &n2, &c2));
            out.push(mk(&all, &n2, &content));
            out.push(mk(&all, &n3, &c3));
            out.push(mk(&all, &name, &content));
            out.push(mk(&two, &n3, &c3));
            out.push(mk(&two, &n3, &c2));
            out.push(mk(&two, &n2, &c2));
            // the shortest recorded tail lacks an algorithm and the size that the
            // longer ones record: it is still the entry that answers (missing)
            let mut r1m = r1.clone();
            r1m.sums.remove(fpos);
            r1m.size = None;
            // (a record without any line would not be recorded at all)
            if !r1m.sums.is_empty() {
                let mut allm = vec![r1m, r2.clone(), r3.clone()];
                r.shuffle(&mut allm);
                out.push(mk(&allm, &n2, &c2));
                out.push(mk(&allm, &n3, &c3));
                out.push(mk(&allm, &name, &content));
            }
        }
    }
    out
}

const BOTH: [&str; 16] = [
    "none",
    "flip-byte",
    "truncate",
    "extend",
    "hash-digit-first",
    "hash-digit-middle",
    "hash-digit-last",
    "hash-prefix",
    "hash-extended",
    "hash-special-token",
    "size+1",
    "size-1",
    "alg-removed",
    "size-removed",
    "no-tail",
    "kind-mismatch",
];

pub fn run(cx: &mut Cx) {
    cx.default_budget();
    for a in ALGS {
        for k in [Kind::Dist, Kind::Patch] {
            for l in BOTH {
                cx.ev.require(&format!("cell/{}/{}/{}", a.keyword(), k.name(), l));
            }
        }
        cx.ev.require(&format!("cell/{}/patch/flip-inside-netbsd", a.keyword()));
        cx.ev.require(&format!("cell/{}/distfile/shared-tail", a.keyword()));
    }
    for c in gd::CONTENT_CLASSES {
        cx.ev.require(&format!("content/{c}"));
    }
    if !cfg!(miri) {
        cx.ev.require("file-on-disk/symlink-to-regular-file");
    }
    for k in [
        "recorded-name/the-absolute-lookup-path",
        "file-on-disk/regular-file",
        "built/api",
        "built/parsed",
        "history/plain",
        "history/queried-while-growing",
        "history/queried-while-growing-on-clones",
        "nesting/0",
        "nesting/1",
        "nesting/2",
        "nesting/3",
        "expect/size/ok",
        "expect/size/mismatch",
        "expect/size/missing",
        "expect/size/not-found",
        "expect/checksum/ok",
        "expect/checksum/mismatch",
        "expect/checksum/missing",
        "expect/checksum/not-found",
    ] {
        cx.ev.require(k);
    }

    // A fresh tree per shard.
    let _ = std::fs::remove_dir_all(&cx.scratch);
    if let Err(e) = std::fs::create_dir_all(&cx.scratch) {
        harness_fatal("create scratch", e);
    }
    let root = match std::fs::canonicalize(&cx.scratch) {
        Ok(p) => p,
        Err(e) => harness_fatal("canonicalize scratch", e),
    };

    let n = cx.per_shard(8, 128, 1_920, 19_200);
    let mut r = cx.stream("scenarios");
    for i in 0..n {
        // rotate the content classes over shards as well
        let sc = i * cx.nshards + cx.shard;
        let dirname = format!("s{i}");
        let sdir = root.join(&dirname);
        for c in scenario(&mut r, sc) {
            cx.check(
                || {
                    let recs: Vec<String> = c
                        .recs
                        .iter()
                        .map(|x| {
                            format!(
                                "{:?} size={:?} {}",
                                show(&x.name),
                                x.size,
                                x.sums
                                    .iter()
                                    .map(|(a, h)| format!("{}={h}", a.keyword()))
                                    .collect::<Vec<_>>()
                                    .join(" ")
                            )
                        })
                        .collect();
                    let shown = if c.disk.len() > 600 {
                        format!("{}...[{} bytes]", show(&c.disk[..600]), c.disk.len())
                    } else {
                        show(&c.disk)
                    };
                    format!(
                        "[{}] lookup of <scratch>/{dirname}/{} holding {:?}; Distinfo built {} recording [{}]",
                        c.label,
                        show(&c.rel),
                        shown,
                        if c.via_api { "through insert()" } else { "by from_bytes()" },
                        recs.join("; ")
                    )
                },
                |ev| observe(ev, &sdir, &c),
            );
        }
        let _ = std::fs::remove_dir_all(&sdir);
    }
    let _ = std::fs::remove_dir_all(&cx.scratch);
}
