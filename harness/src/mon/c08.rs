//! C08 - pkg_summary parsing accepts exactly complete well-formed entries,
//! else says why.
//!
//! Refuting events: a fault-free text is rejected or yields wrong values
//! (first `=` split, accumulation order, last-wins); a text with exactly one
//! injected fault is accepted or reports a different cause; `is_completed()`
//! differs from "all eleven set", or from whether the printed form of the
//! same assignment parses.
//!
//! The expectation is known by construction (the generator knows the fault it
//! injected); `oracle::summary::read` is only used to cross-check the
//! generator itself, outside the case bodies.  Error *kinds* are compared
//! (and *which* variable for `Incomplete`), never payload wording.

use crate::fw::{CaseResult, Cx, Ev, Tier};
use crate::gen::summary::{self as gs, Fault, Pos};
use crate::mon::c07::{apply, cause_of, same_values};
use crate::oracle::summary::{self as os, Cause, Entry, Kind, Line, Val, NVARS, REQUIRED, VARS};
use crate::rng::{hash_strs, Rng};
use pkgsrc::summary::Summary;
use std::str::FromStr;

fn causes_text(cs: &[Cause]) -> String {
    cs.iter().map(|c| c.name()).collect::<Vec<_>>().join(" | ")
}

/// The text must be accepted with exactly the values of `want`.
fn expect_accept(ev: &mut Ev, text: &str, want: &Entry) -> CaseResult {
    ev.eval();
    match Summary::from_str(text) {
        Err(e) => {
            let kind = cause_of(&e).map(|c| c.name()).unwrap_or_else(|| "Io".into());
            Err(format!("fault-free text rejected with {kind}").into())
        }
        Ok(sum) => {
            ev.eval();
            same_values("parsed entry", &sum, want)?;
            ev.eval();
            if !sum.is_completed() {
                return Err("accepted entry reports is_completed() == false".to_string().into());
            }
            Ok(())
        }
    }
}

/// The text must be rejected with one of the causes present in it.
fn expect_reject(ev: &mut Ev, text: &str, accepted: &[Cause]) -> CaseResult {
    ev.eval();
    match Summary::from_str(text) {
        Ok(_) => Err(format!(
            "accepted although the text must be rejected ({})",
            causes_text(accepted)
        )
        .into()),
        Err(e) => match cause_of(&e) {
            Some(c) if accepted.contains(&c) => {
                if let Cause::Missing(v) = c {
                    ev.eval();
                    ev.count("error-text/missing-variable-named");
                    crate::mon::c07::text_names_only(&e.to_string(), v, true)?;
                }
                Ok(())
            }
            Some(c) => Err(format!(
                "rejected with {} but the cause present is {}",
                c.name(),
                causes_text(accepted)
            )
            .into()),
            None => Err(format!("rejected with an Io error; cause present is {}", causes_text(accepted)).into()),
        },
    }
}

struct Features {
    repeat_single: bool,
    repeat_multi: bool,
    eq_in_value: bool,
    empty_value: bool,
    nlines: usize,
}

fn features(lines: &[Line]) -> Features {
    let mut seen = [0usize; NVARS];
    for l in lines {
        seen[l.var] += 1;
    }
    Features {
        repeat_single: (0..NVARS).any(|v| VARS[v].kind != Kind::A && seen[v] > 1),
        repeat_multi: (0..NVARS).any(|v| VARS[v].kind == Kind::A && seen[v] > 1),
        eq_in_value: lines.iter().any(|l| l.text.contains('=')),
        empty_value: lines.iter().any(|l| l.text.is_empty()),
        nlines: lines.len(),
    }
}

fn count_features(ev: &mut Ev, f: &Features) {
    if f.repeat_single {
        ev.count("feature/repeated_single_valued");
    }
    if f.repeat_multi {
        ev.count("feature/repeated_multi_line");
    }
    if f.eq_in_value {
        ev.count("feature/eq_in_value");
    }
    if f.empty_value {
        ev.count("feature/empty_value");
    }
    ev.max("max/lines", f.nlines as u64);
}

fn rendered(lines: &[Line]) -> Vec<String> {
    lines.iter().map(|l| l.render()).collect()
}

/// Cross-check of the generator against the reference reader (harness
/// self-test, outside the case bodies: a disagreement stops the harness).
fn selfcheck_faulty(text: &str, causes: &[Cause]) {
    let (_, found) = os::read(text);
    assert!(!causes.is_empty(), "harness bug: faulty text without a cause");
    for c in &found {
        assert!(
            causes.contains(c),
            "harness bug: reference reader finds {} in {text:?}, generator declared {}",
            c.name(),
            causes_text(causes)
        );
    }
    assert!(!found.is_empty(), "harness bug: reference reader finds no fault in {text:?}");
}

fn selfcheck_clean(text: &str, want: &Entry) {
    let (e, found) = os::read(text);
    assert!(found.is_empty() && e == *want, "harness bug: reference reader disagrees with fold on {text:?}");
}

/// The variable whose table name is nearest to a near-miss name (by
/// longest common subsequence; only used to decide which real line a
/// near-miss line stands in for, and whether its value should be an integer).
fn closest_var(bad: &str) -> usize {
    let b: Vec<char> = bad.to_uppercase().chars().collect();
    let mut best = (0usize, 0usize);
    for (i, v) in VARS.iter().enumerate() {
        let a: Vec<char> = v.name.chars().collect();
        let mut t = vec![vec![0usize; b.len() + 1]; a.len() + 1];
        for x in 0..a.len() {
            for y in 0..b.len() {
                t[x + 1][y + 1] = if a[x] == b[y] { t[x][y] + 1 } else { t[x][y + 1].max(t[x + 1][y]) };
            }
        }
        // prefer the longest match, then the shortest name
        let score = t[a.len()][b.len()] * 64 + (63 - a.len().min(63));
        if score > best.0 {
            best = (score, i);
        }
    }
    best.1
}

/// A short run of the bytes that delimit something in the format or in
/// `str::lines` ('=', CR, blank, tab) put into a value: at its start, in
/// its middle or at its end.  Every such byte after the first '=' of the line
/// belongs to the value.  (A CR directly in front of the line feed is left
/// out: whether it belongs to the value or to the line end is not stated.)
fn delimiter_cluster(r: &mut Rng, text: &str) -> String {
    let n = r.range(1, 3);
    let mut c: String = (0..n).map(|_| *r.pick(&['\r', '=', ' ', '\t', '=', '\r'])).collect();
    let cut = match r.below(3) {
        0 => 0,
        1 => text.char_indices().nth(text.chars().count() / 2).map(|(i, _)| i).unwrap_or(0),
        _ => text.len(),
    };
    if cut == text.len() {
        while c.ends_with('\r') {
            c.pop();
            c.push('=');
        }
    }
    format!("{}{c}{}", &text[..cut], &text[cut..])
}

fn base_complete(r: &mut Rng) -> (Vec<Line>, Entry) {
    let (mut lines, _) = gs::wellformed(r, true);
    if r.chance(1, 5) {
        let idx: Vec<usize> = (0..lines.len()).filter(|&i| VARS[lines[i].var].kind != crate::oracle::summary::Kind::I && !lines[i].text.ends_with('\r')).collect();
        if !idx.is_empty() {
            let i = *r.pick(&idx);
            lines[i].text = delimiter_cluster(r, &lines[i].text);
        }
    }
    if r.chance(1, 8) {
        // a single-valued variable set, other single-valued variables set to
        // the empty string, the first one set again to something shorter - at
        // the end of the text (values kept as ranges into one buffer, or an
        // arena that is cut back when a value is replaced, go wrong only in
        // such a sequence)
        let svars: Vec<usize> = (0..crate::oracle::summary::NVARS).filter(|&v| VARS[v].kind == crate::oracle::summary::Kind::S).collect();
        let x = *r.pick(&svars);
        lines.push(Line { var: x, text: format!("a rather long value number {}", r.below(1000)) });
        for _ in 0..r.range(1, 3) {
            let y = *r.pick(&svars);
            if y != x {
                lines.push(Line { var: y, text: String::new() });
            }
        }
        lines.push(Line { var: x, text: ["s", "", "short"][r.below(3)].to_string() });
        if r.chance(1, 2) {
            let z = *r.pick(&svars);
            lines.push(Line { var: z, text: "z".to_string() });
        }
    }
    let want = os::fold(&lines).expect("harness bug: generated integer line is not an integer");
    assert!(want.is_complete(), "harness bug: complete text is not complete");
    (lines, want)
}

pub fn run(cx: &mut Cx) {
    cx.default_budget();
    for v in REQUIRED {
        cx.ev.require(&format!("removed/parse/{}", VARS[v].name));
        cx.ev.require(&format!("removed/setter/{}", VARS[v].name));
    }
    for class in ["line", "variable", "int"] {
        for p in Pos::ALL {
            cx.ev.require(&format!("fault/{}/{}", class, p.name()));
        }
    }
    for f in ["unknown", "misspelt", "case", "padded"] {
        cx.ev.require(&format!("fault_flavour/variable/{f}"));
    }
    for f in [
        "feature/repeated_single_valued",
        "feature/repeated_multi_line",
        "feature/eq_in_value",
        "feature/empty_value",
        "accept/with_final_newline",
        "accept/without_final_newline",
        "subsets/full",
        "subsets/partial",
        "near_miss/invisible_prefix/bom/first/insert",
        "near_miss/invisible_prefix/bom/first/replace",
        "near_miss/invisible_prefix/nbsp/first/insert",
        "near_miss/invisible_prefix/zwsp/middle/insert",
        "near_miss/invisible_suffix/nbsp/last/replace",
        "near_miss/invisible_infix/zwsp/middle/insert",
        "near_miss/lookalike_char/first/insert",
        "near_miss/lookalike_whole/last/replace",
        "invisible_line/first",
        "invisible_line/middle",
        "invisible_line/last",
        "long/line",
        "long/name",
        "long/name_with_known_prefix",
        "long/name_with_known_suffix",
        "long/value_of_unknown_name",
        "long/int",
        "long/accepted_value",
        "long/straddles_limit",
        "subsets/is_completed_became_true",
    ] {
        cx.ev.require(f);
    }

    // (a) fault-free complete texts: any order, repetitions
    let n = cx.per_shard(24, 6_000, 96_000, 960_000);
    let mut r = cx.stream("accept");
    for _ in 0..n {
        let (lines, want) = base_complete(&mut r);
        let nl = r.chance(3, 4);
        let text = gs::render(&rendered(&lines), nl);
        selfcheck_clean(&text, &want);
        let f = features(&lines);
        cx.check(
            || format!("fault-free text {text:?}"),
            |ev| {
                ev.count("workload/accept");
                ev.count(if nl { "accept/with_final_newline" } else { "accept/without_final_newline" });
                count_features(ev, &f);
                expect_accept(ev, &text, &want)?;
                if f.repeat_single || f.repeat_multi || f.eq_in_value {
                    ev.nontrivial(hash_strs(&[text.as_bytes()]));
                }
                Ok(())
            },
        );
    }

    // (b) fault-free but incomplete texts (1-3 required variables never occur)
    let n = cx.per_shard(8, 1_000, 16_000, 160_000);
    let mut r = cx.stream("incomplete");
    for _ in 0..n {
        let (lines, left_out) = gs::wellformed(&mut r, false);
        let text = gs::render(&rendered(&lines), true);
        let causes: Vec<Cause> = left_out.iter().map(|&v| Cause::Missing(v)).collect();
        selfcheck_faulty(&text, &causes);
        cx.check(
            || format!("text without {:?}: {text:?}", left_out.iter().map(|&v| VARS[v].name).collect::<Vec<_>>()),
            |ev| {
                ev.count("workload/incomplete");
                ev.count(&format!("incomplete/missing{}", left_out.len()));
                expect_reject(ev, &text, &causes)?;
                ev.nontrivial(hash_strs(&[text.as_bytes()]));
                Ok(())
            },
        );
    }

    // (c) each of the eleven required variables removed in turn (systematic)
    let n = cx.per_shard(1, 250, 4_000, 40_000);
    let mut r = cx.stream("removal");
    for _ in 0..n {
        let (lines, _) = base_complete(&mut r);
        for var in REQUIRED {
            let f = gs::inject(&mut r, &lines, &Fault::Remove(var), Pos::First);
            let text = gs::render(&f.lines, true);
            selfcheck_faulty(&text, &f.causes);
            cx.check(
                || format!("{} removed: {text:?}", VARS[var].name),
                |ev| {
                    ev.count("workload/removal");
                    ev.count(&format!("removed/parse/{}", VARS[var].name));
                    expect_reject(ev, &text, &f.causes)?;
                    ev.nontrivial(hash_strs(&[text.as_bytes()]));
                    Ok(())
                },
            );
        }
    }

    // (d) exactly one inserted/replaced fault: class x position, round-robin
    let n = cx.per_shard(1, 250, 4_000, 40_000);
    let mut r = cx.stream("single-fault");
    for _ in 0..n {
        let (lines, _) = base_complete(&mut r);
        for class in ["line", "variable", "int", "emptyname"] {
            for pos in Pos::ALL {
                let fault = gs::fault_of_class(&mut r, class);
                let f = gs::inject(&mut r, &lines, &fault, pos);
                let nl = r.chance(3, 4);
                let text = gs::render(&f.lines, nl);
                selfcheck_faulty(&text, &f.causes);
                cx.check(
                    || format!("{} at {} position: {text:?}", fault.show(), pos.name()),
                    |ev| {
                        ev.count("workload/single_fault");
                        ev.count(&format!("fault/{}/{}", class, pos.name()));
                        if let Fault::BadName(_, flavour) = &fault {
                            ev.count(&format!("fault_flavour/variable/{flavour}"));
                        }
                        if let Fault::BadIntInsert(v, _) | Fault::BadIntReplace(v, _) = &fault {
                            ev.count(&format!("fault_flavour/int/{}", VARS[*v].name));
                        }
                        expect_reject(ev, &text, &f.causes)?;
                        ev.nontrivial(hash_strs(&[text.as_bytes()]));
                        Ok(())
                    },
                );
            }
        }
    }

    // (e) several faults: rejected with one of the causes present
    let n = cx.per_shard(4, 800, 12_000, 120_000);
    let mut r = cx.stream("multi-fault");
    for _ in 0..n {
        let (lines, _) = base_complete(&mut r);
        let nf = r.range(2, 3);
        let mut out = rendered(&lines);
        let mut causes: Vec<Cause> = vec![];
        let mut shown = vec![];
        for _ in 0..nf {
            let class = *r.pick(&["line", "variable", "int", "missing"]);
            match class {
                "missing" => {
                    let var = *r.pick(&REQUIRED);
                    let prefix = format!("{}=", VARS[var].name);
                    out.retain(|l| !l.starts_with(&prefix));
                    causes.push(Cause::Missing(var));
                    shown.push(format!("{} removed", VARS[var].name));
                }
                _ => {
                    let fault = match gs::fault_of_class(&mut r, class) {
                        // replacement is expressed as insertion here
                        Fault::BadIntReplace(v, s) => Fault::BadIntInsert(v, s),
                        f => f,
                    };
                    let line = match &fault {
                        Fault::NoEq(s) | Fault::BadName(s, _) | Fault::EmptyName(s) => s.clone(),
                        Fault::BadIntInsert(v, s) => format!("{}={}", VARS[*v].name, s),
                        _ => unreachable!(),
                    };
                    let at = r.range(0, out.len());
                    out.insert(at, line);
                    causes.push(match class {
                        "line" => Cause::Line,
                        "variable" => Cause::Variable,
                        _ => Cause::Int,
                    });
                    shown.push(fault.show());
                }
            }
        }
        let text = gs::render(&out, true);
        selfcheck_faulty(&text, &causes);
        cx.check(
            || format!("faults [{}]: {text:?}", shown.join(", ")),
            |ev| {
                ev.count("workload/multi_fault");
                expect_reject(ev, &text, &causes)?;
                ev.nontrivial(hash_strs(&[text.as_bytes()]));
                Ok(())
            },
        );
    }

    // (g) near misses of the 23 names: an invisible character (BOM, zero-width
    // space/joiner, NBSP and other Unicode blanks, soft hyphen, NUL ...) before,
    // after or inside the name, or one character replaced by a look-alike -
    // enumerated for every name, on the first, a middle and the last line,
    // as an extra line and in place of the variable's real lines.
    {
        let names = gs::near_miss_names();
        let rounds = cx.pick_tier(0u64, 1, 2, 12);
        let mini_stride = 211usize;
        let mut r = cx.stream("near-miss");
        let mut case = 0u64;
        for round in 0..rounds.max(1) {
            for (k, (bad, flavour)) in names.iter().enumerate() {
                if cx.tier == Tier::Mini && k % mini_stride != 0 {
                    continue;
                }
                // the variable the name is a near miss of: the one whose
                // table name is closest (only needed for "replace" mode and
                // to give integer variables an integer value)
                for (pi, pos) in Pos::ALL.iter().enumerate() {
                    for replace in [false, true] {
                        case += 1;
                        if !cx.mine(case) {
                            continue;
                        }
                        // spread (position, mode) combinations over the rounds for the
                        // numerous flavours; the first-line cases are always kept
                        if cx.tier == Tier::Small && (k + pi + round as usize) % 3 != 0 {
                            continue;
                        }
                        let var = closest_var(bad);
                        let (lines, _) = base_complete(&mut r);
                        let value = match VARS[var].kind {
                            Kind::I => gs::size(&mut r).to_string(),
                            _ => gs::value_for(&mut r, var),
                        };
                        let bad_line = format!("{bad}={value}");
                        let mut out: Vec<String> = vec![];
                        let mut causes = vec![Cause::Variable];
                        for l in &lines {
                            if replace && l.var == var {
                                continue;
                            }
                            out.push(l.render());
                        }
                        if replace && VARS[var].required {
                            causes.push(Cause::Missing(var));
                        }
                        let at = match pos {
                            Pos::First => 0,
                            Pos::Last => out.len(),
                            Pos::Middle => {
                                if out.len() >= 2 {
                                    r.range(1, out.len() - 1)
                                } else {
                                    out.len() / 2
                                }
                            }
                        };
                        out.insert(at, bad_line);
                        let nl = r.chance(3, 4);
                        let text = gs::render(&out, nl);
                        selfcheck_faulty(&text, &causes);
                        let mode = if replace { "replace" } else { "insert" };
                        cx.check(
                            || format!("near-miss name {bad:?} ({flavour}) on the {} line, {mode}: {text:?}", pos.name()),
                            |ev| {
                                ev.count("workload/near_miss");
                                ev.count(&format!("near_miss/{flavour}/{}/{mode}", pos.name()));
                                expect_reject(ev, &text, &causes)?;
                                ev.nontrivial(hash_strs(&[text.as_bytes()]));
                                Ok(())
                            },
                        );
                    }
                }
            }
            // a line that shows as nothing
            for inv in gs::INVISIBLE_LINES {
                for pos in Pos::ALL {
                    case += 1;
                    if !cx.mine(case) {
                        continue;
                    }
                    let (lines, _) = base_complete(&mut r);
                    let f = gs::inject(&mut r, &lines, &Fault::NoEq(inv.to_string()), pos);
                    let text = gs::render(&f.lines, r.chance(3, 4));
                    selfcheck_faulty(&text, &f.causes);
                    cx.check(
                        || format!("invisible line {inv:?} at {} position: {text:?}", pos.name()),
                        |ev| {
                            ev.count("workload/invisible_line");
                            ev.count(&format!("invisible_line/{}", pos.name()));
                            expect_reject(ev, &text, &f.causes)?;
                            ev.nontrivial(hash_strs(&[text.as_bytes()]));
                            Ok(())
                        },
                    );
                }
            }
        }
    }

    // (h) long faulty lines: a malformed line, an unknown name, a bad integer
    // (and, as the control, a fault-free value) whose length is around a
    // power of two or another plausible fixed limit, made of characters of one
    // width at every byte alignment, so that any byte offset chosen without
    // regard to character boundaries falls inside a character for most of them.
    {
        let rounds = cx.pick_tier(0u64, 1, 4, 24);
        let mut r = cx.stream("long-lines");
        let mut case = 0u64;
        const KINDS: [&str; 7] = [
            "line",
            "name",
            "name_with_known_prefix",
            "name_with_known_suffix",
            "value_of_unknown_name",
            "int",
            "accepted_value",
        ];
        for round in 0..rounds.max(1) {
            let mut limits: Vec<usize> = gs::LIMITS.to_vec();
            if round == 0 && cx.tier != Tier::Mini && cx.tier != Tier::Small {
                limits.extend([16_384, 65_536]);
            }
            if cx.tier == Tier::Mini {
                limits = vec![64, 256];
            }
            for &limit in &limits {
                for (width, lead) in [(2usize, 0usize), (2, 1), (3, 0), (3, 1), (3, 2), (4, 0), (4, 1), (4, 2), (4, 3), (0, 0)] {
                    for kind in KINDS {
                        for pos in Pos::ALL {
                            case += 1;
                            if !cx.mine(case) {
                                continue;
                            }
                            if cx.tier == Tier::Mini && case % 16 != 0 {
                                continue;
                            }
                            let (lines, want) = base_complete(&mut r);
                            // the long text starts the line / the name, so `lead`
                            // is its alignment inside the offending text
                            let len = limit + r.below(12) - 3;
                            let long = gs::aligned_text(&mut r, width, lead, len);
                            let straddles = !long.is_char_boundary(limit.min(long.len()));
                            let (text, causes, want) = match kind {
                                "accepted_value" => {
                                    let svars: Vec<usize> = (0..NVARS).filter(|&v| VARS[v].kind != Kind::I).collect();
                                    let var = *r.pick(&svars);
                                    let mut ls = lines.clone();
                                    let at = match pos {
                                        Pos::First => 0,
                                        Pos::Last => ls.len(),
                                        Pos::Middle => ls.len() / 2,
                                    };
                                    ls.insert(at, Line { var, text: long.clone() });
                                    let want = os::fold(&ls).expect("harness bug: generated integer line is not an integer");
                                    let text = gs::render(&rendered(&ls), r.chance(3, 4));
                                    selfcheck_clean(&text, &want);
                                    (text, vec![], want)
                                }
                                _ => {
                                    let known = VARS[r.below(NVARS)].name;
                                    let fault = match kind {
                                        "line" => Fault::NoEq(long.clone()),
                                        "name" => Fault::BadName(format!("{long}={}", gs::value(&mut r)), "long"),
                                        "name_with_known_prefix" => {
                                            Fault::BadName(format!("{known}{long}={}", gs::value(&mut r)), "long")
                                        }
                                        "name_with_known_suffix" => {
                                            Fault::BadName(format!("{long}{known}={}", gs::value(&mut r)), "long")
                                        }
                                        "value_of_unknown_name" => {
                                            let (n, _) = *r.pick(&gs::BAD_NAMES);
                                            Fault::BadName(format!("{n}={long}"), "long")
                                        }
                                        _ => {
                                            let var = if r.chance(1, 2) { os::FILE_SIZE } else { os::SIZE_PKG };
                                            // not an integer: far too many digits, or digits then other text
                                            let bad = match r.below(3) {
                                                0 => "7".repeat(len.max(20)),
                                                1 => format!("12{long}"),
                                                _ => long.clone(),
                                            };
                                            if r.chance(1, 2) {
                                                Fault::BadIntReplace(var, bad)
                                            } else {
                                                Fault::BadIntInsert(var, bad)
                                            }
                                        }
                                    };
                                    let f = gs::inject(&mut r, &lines, &fault, pos);
                                    let text = gs::render(&f.lines, r.chance(3, 4));
                                    selfcheck_faulty(&text, &f.causes);
                                    (text, f.causes, want)
                                }
                            };
                            cx.check(
                                || {
                                    format!(
                                        "long {kind} (~{limit} bytes of {width}-byte characters after {lead}) at {} position: {text:?}",
                                        pos.name()
                                    )
                                },
                                |ev| {
                                    ev.count("workload/long_lines");
                                    ev.count(&format!("long/{kind}"));
                                    ev.max("max/line_bytes", long.len() as u64);
                                    if straddles {
                                        ev.count("long/straddles_limit");
                                    }
                                    if causes.is_empty() {
                                        expect_accept(ev, &text, &want)?;
                                    } else {
                                        expect_reject(ev, &text, &causes)?;
                                    }
                                    ev.nontrivial(hash_strs(&[text.as_bytes()]));
                                    Ok(())
                                },
                            );
                        }
                    }
                }
            }
        }
    }

    // (e2) the count ladder: 2^8 and 2^16 lines of one multi-line variable, one
    // less and one more, and 2^17 (a per-variable counter kept in a u8 / u16
    // wraps exactly there); every line must be accumulated in input order.
    if matches!(cx.tier, Tier::Quick | Tier::Thorough) {
        let mut r = cx.shared_stream("count-ladder");
        let multi: Vec<usize> = (0..NVARS).filter(|&v| VARS[v].kind == Kind::A).collect();
        let mut li = 0u64;
        for k in [255usize, 256, 257, 65_535, 65_536, 65_537, 131_072] {
            for &var in &multi {
                li += 1;
                // every size for DESCRIPTION (required) and one other variable in turn
                if var != os::DESCRIPTION && (li as usize + k) % multi.len() != 0 {
                    continue;
                }
                if !cx.mine(li) {
                    continue;
                }
                let (lines, _) = base_complete(&mut r);
                let mut text = String::new();
                let mut kept: Vec<Line> = vec![];
                for l in lines.iter().filter(|l| l.var != var) {
                    kept.push(l.clone());
                }
                let at = r.below(kept.len() + 1);
                for (i, l) in kept.iter().enumerate() {
                    if i == at {
                        for j in 0..k {
                            text.push_str(&format!("{}=line {j} of {k}\n", VARS[var].name));
                        }
                    }
                    text.push_str(&l.render());
                    text.push('\n');
                }
                if at == kept.len() {
                    for j in 0..k {
                        text.push_str(&format!("{}=line {j} of {k}\n", VARS[var].name));
                    }
                }
                let mut want = os::fold(&kept).expect("harness bug: kept lines fold");
                want.set(var, Val::A((0..k).map(|j| format!("line {j} of {k}")).collect()));
                cx.set_budget(1 << 26, 1 << 34);
                cx.check(
                    || format!("count ladder: {k} lines of {} in one entry", VARS[var].name),
                    |ev| {
                        ev.count("workload/count-ladder");
                        expect_accept(ev, &text, &want)
                    },
                );
                cx.default_budget();
            }
        }
    }

    // (f) is_completed on every subset of the required variables set through
    // the setters (exhaustive: 2^11), against the count rule and the parser.
    let full: u32 = (1 << REQUIRED.len()) - 1;
    let masks: Vec<u32> = match cx.tier {
        Tier::Mini => {
            let mut v = vec![0, full];
            v.extend((0..REQUIRED.len()).map(|k| full & !(1 << k)));
            v
        }
        _ => (0..=full).collect(),
    };
    let rounds = cx.pick_tier(1, 1, 2, 16);
    let mut r = cx.shared_stream("subsets");
    let mut case = 0u64;
    for round in 0..rounds {
        for &mask in &masks {
            // the assignment: required ones by mask, optional ones at random
            let mut m = Entry::new();
            let mut ops = vec![];
            for var in 0..NVARS {
                let val = gs::val_for(&mut r, var);
                let take = match REQUIRED.iter().position(|&q| q == var) {
                    Some(k) => mask & (1 << k) != 0,
                    None => r.chance(1, 4),
                };
                let by_push = r.chance(1, 2);
                if !take {
                    continue;
                }
                match (&val, by_push) {
                    (Val::A(a), true) => {
                        for s in a {
                            ops.push(gs::Op::Push(var, s.clone()));
                        }
                    }
                    _ => ops.push(gs::Op::Set(var, val.clone())),
                }
                m.set(var, val);
            }
            if round % 2 == 1 {
                ops.reverse_blocks();
            }
            case += 1;
            if !cx.mine(case) {
                continue;
            }
            let missing = m.missing();
            let causes: Vec<Cause> = missing.iter().map(|&v| Cause::Missing(v)).collect();
            cx.check(
                || {
                    format!(
                        "required subset {mask:011b} (unset: {:?}) through setters; assignment {:?}",
                        missing.iter().map(|&v| VARS[v].name).collect::<Vec<_>>(),
                        m.print()
                    )
                },
                |ev| {
                    ev.count("workload/subsets");
                    ev.count(if mask == full { "subsets/full" } else { "subsets/partial" });
                    if missing.len() == 1 {
                        ev.count(&format!("removed/setter/{}", VARS[missing[0]].name));
                    }
                    // is_completed() is asked after every call on the way: it
                    // must follow the calls made so far, whatever it answered before
                    // three ways to the empty entry / through the calls: new(),
                    // default(), and a clone taken half way
                    let route = case % 3;
                    ev.count(&format!("subsets/route/{}", ["new", "default", "clone-midway"][route as usize]));
                    let mut sum = if route == 1 { Summary::default() } else { Summary::new() };
                    let mut cur = Entry::new();
                    let mut was = false;
                    if sum.is_completed() {
                        return Err("is_completed() = true on an empty entry".to_string().into());
                    }
                    for (k, op) in ops.iter().enumerate() {
                        if route == 2 && k == ops.len() / 2 {
                            sum = sum.clone();
                        }
                        apply(&mut sum, op);
                        match op {
                            gs::Op::Set(v, val) => cur.set(*v, val.clone()),
                            gs::Op::Push(v, l) => cur.push(*v, l),
                        }
                        ev.eval();
                        let now = sum.is_completed();
                        if now != cur.is_complete() {
                            return Err(format!(
                                "after call {} of {} is_completed() = {now} but {} of the eleven are set",
                                k + 1,
                                ops.len(),
                                REQUIRED.len() - cur.missing().len()
                            )
                            .into());
                        }
                        if now && !was {
                            ev.count("subsets/is_completed_became_true");
                        }
                        was = now;
                    }
                    ev.eval();
                    let done = sum.is_completed();
                    if done != (mask == full) {
                        return Err(format!(
                            "is_completed() = {done} but {} of the eleven are set",
                            REQUIRED.len() - missing.len()
                        )
                        .into());
                    }
                    // ... and against the parser on the printed form
                    let text = sum.to_string();
                    if mask == full {
                        expect_accept(ev, &text, &m)?;
                    } else {
                        expect_reject(ev, &text, &causes).map_err(|f| {
                            crate::fw::Fail::from(format!(
                                "is_completed() = {done}, printed form {text:?}: {}",
                                f.msg
                            ))
                        })?;
                    }
                    if mask != 0 && mask != full {
                        ev.nontrivial(hash_strs(&[text.as_bytes(), &mask.to_le_bytes()]));
                    }
                    Ok(())
                },
            );
        }
    }
}

/// Reverse the order of the per-variable call blocks (pushes of one variable
/// stay in order) - a second call order for the same assignment.
trait ReverseBlocks {
    fn reverse_blocks(&mut self);
}

impl ReverseBlocks for Vec<gs::Op> {
    fn reverse_blocks(&mut self) {
        let mut blocks: Vec<Vec<gs::Op>> = vec![];
        for op in self.drain(..) {
            match blocks.last_mut() {
                Some(b) if b[0].var() == op.var() => b.push(op),
                _ => blocks.push(vec![op]),
            }
        }
        blocks.reverse();
        for b in blocks {
            self.extend(b);
        }
    }
}
