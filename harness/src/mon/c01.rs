//! C01 - version comparison follows pkg_install's dewey ordering.
//!
//! Refuting event: `Pattern::new("p"+op+B).matches("p-"+A)` (also via
//! `Dewey::new`, and the winner of `best_match` on `p-*`) differs from the
//! dewey rule's verdict on (A, op, B).

use crate::corpus;
use crate::fw::{known, CaseResult, Cx, Ev, Fail};
use crate::gen::version as gv;
use crate::oracle::dewey::{self as od, Op, Weight, OPS};
use crate::oracle::pattern as op_;
use crate::rng::hash_strs;
use pkgsrc::{Dewey, Pattern};
use std::cmp::Ordering;
use std::collections::HashMap;

pub const K1: &str = "letter-weight-ascii";

struct Range {
    lo: Op,
    hi: Op,
    /// Indices of the two bound texts in `Compiled::texts`.
    lo_i: usize,
    hi_i: usize,
    text: String,
    pat: Pattern,
}

/// A bound text parsed once under both letter-weight models.
struct Parsed {
    rank: od::RefVersion,
    ascii: od::RefVersion,
}

fn parsed(v: &str) -> Parsed {
    Parsed { rank: od::parse(v, Weight::Rank), ascii: od::parse(v, Weight::Ascii) }
}

struct Compiled {
    b: String,
    pats: Vec<Pattern>,
    dews: Vec<Dewey>,
    /// Ranges whose two ends are B and a near neighbour of B (an equal-valued
    /// respelling, B with a modifier / revision / component appended, B without
    /// its last token), in both orders and with all four operator pairs.
    ranges: Vec<Range>,
    /// B followed by its range partners, parsed.
    texts: Vec<Parsed>,
}

/// The near neighbours of B used as the other end of a range.
fn range_partners(b: &str) -> Vec<String> {
    let mut out = vec![format!("{b}.0"), format!("{b}rc1"), format!("{b}nb1"), format!("{b}.1")];
    // B without its last character class run ("2.0rc1" -> "2.0rc" -> ...)
    let cut = b.char_indices().rev().find(|(_, c)| !c.is_ascii_digit()).map(|(i, _)| i);
    if let Some(i) = cut {
        if i > 0 {
            out.push(b[..i].to_string());
        }
    }
    out.retain(|d| gv::usable(d) && d != b);
    // ... and B itself (p>=B<=B pins one value, however it is spelt)
    out.push(b.to_string());
    out
}

/// What the rule says about version `v` against one range (rank model, ASCII model).
fn range_expected(v: &Parsed, texts: &[Parsed], rg: &Range) -> (bool, bool) {
    let (l, h) = (&texts[rg.lo_i], &texts[rg.hi_i]);
    (
        rg.lo.test(od::compare(&v.rank, &l.rank).ord) && rg.hi.test(od::compare(&v.rank, &h.rank).ord),
        rg.lo.test(od::compare(&v.ascii, &l.ascii).ord) && rg.hi.test(od::compare(&v.ascii, &h.ascii).ord),
    )
}

fn compile(ev: &mut Ev, b: &str) -> Result<Compiled, Fail> {
    let mut pats = vec![];
    let mut dews = vec![];
    for op in OPS {
        let text = format!("p{}{}", op.text(), b);
        pats.push(
            Pattern::new(&text)
                .map_err(|e| Fail::from(format!("Pattern::new({text:?}) failed: {e}")))?,
        );
        dews.push(
            Dewey::new(&text)
                .map_err(|e| Fail::from(format!("Dewey::new({text:?}) failed: {e}")))?,
        );
    }
    let mut ranges = vec![];
    let partners = range_partners(b);
    let all: Vec<&str> = std::iter::once(b).chain(partners.iter().map(|s| s.as_str())).collect();
    let texts: Vec<Parsed> = all.iter().map(|t| parsed(t)).collect();
    for di in 1..all.len() {
        for (lo_i, hi_i) in [(0, di), (di, 0)] {
            for (lo, hi) in [(Op::Ge, Op::Le), (Op::Gt, Op::Le), (Op::Ge, Op::Lt), (Op::Gt, Op::Lt)] {
                let text = format!("p{}{}{}{}", lo.text(), all[lo_i], hi.text(), all[hi_i]);
                let pat = Pattern::new(&text).map_err(|e| Fail::from(format!("Pattern::new({text:?}) failed: {e}")))?;
                ranges.push(Range { lo, hi, lo_i, hi_i, text, pat });
            }
        }
    }
    // Every range is observed at its own ends once, when B is compiled.
    // (A deterministic quarter of the (range, end) combinations per B keeps
    // the cost of a pair bounded; over the run every shape of range is seen
    // at its ends tens of thousands of times.)
    let hb = crate::rng::hash_bytes(b.as_bytes()) as usize;
    for (vi, v) in all.iter().enumerate() {
        let name = format!("p-{v}");
        for (ri, rg) in ranges.iter().enumerate() {
            if (vi != rg.lo_i && vi != rg.hi_i) || (hb + ri + vi) % 4 != 0 {
                continue;
            }
            let (want, want_ascii) = range_expected(&texts[vi], &texts, rg);
            let got = rg.pat.matches(&name);
            ev.eval();
            ev.count(if want { "range/at-its-ends/true" } else { "range/at-its-ends/false" });
            if got != want && !(want_ascii != want && got == want_ascii) {
                return Err(format!("{} on {name}: observed {got}, dewey rule says {want}", rg.text).into());
            }
        }
    }
    Ok(Compiled { b: b.to_string(), pats, dews, ranges, texts })
}

/// Observe all four operators (through Pattern and Dewey) and best_match for
/// the pair (A, B) and compare with the reference.
fn check_pair(
    ev: &mut Ev,
    cache: &mut Option<Compiled>,
    star: &Pattern,
    a: &str,
    b: &str,
) -> CaseResult {
    if cache.as_ref().map(|c| c.b != b).unwrap_or(true) {
        *cache = None;
        *cache = Some(compile(ev, b)?);
    }
    let c = cache.as_ref().unwrap();
    let name = format!("p-{a}");
    let mut soft: Option<Fail> = None;
    let mut first_cmp = None;
    for (k, op) in OPS.iter().enumerate() {
        let want = od::satisfies(a, *op, b);
        let got_p = c.pats[k].matches(&name);
        let got_d = c.dews[k].matches(&name);
        ev.evals(2);
        ev.count(&format!("cell/{}/{}", op.text(), want.cmp.decided.name()));
        if got_p != got_d {
            return Err(format!(
                "Pattern and Dewey disagree for p{}{b} on {name}: Pattern={got_p} Dewey={got_d}",
                op.text()
            )
            .into());
        }
        if got_p != want.rank {
            let msg = format!(
                "p{}{b} on {name}: observed {got_p}, dewey rule says {} (decided: {} at component {})",
                op.text(),
                want.rank,
                want.cmp.decided.name(),
                want.cmp.pos
            );
            if want.ascii != want.rank && got_p == want.ascii {
                if soft.is_none() {
                    soft = Some(known(K1, msg));
                }
            } else {
                return Err(msg.into());
            }
        }
        if k == 0 {
            first_cmp = Some(want.cmp);
        }
    }
    // ranges between B and its near neighbours
    let pa = parsed(a);
    let ha = crate::rng::hash_bytes(a.as_bytes()) as usize;
    for (ri, rg) in c.ranges.iter().enumerate() {
        if (ha + ri) % 5 != 0 {
            continue;
        }
        let (want, want_ascii) = range_expected(&pa, &c.texts, rg);
        let got = rg.pat.matches(&name);
        ev.eval();
        ev.count("range/near-ended");
        if got != want {
            let msg = format!("{} on {name}: observed {got}, dewey rule says {want}", rg.text);
            if want_ascii != want && got == want_ascii {
                if soft.is_none() {
                    soft = Some(known(K1, msg));
                }
            } else {
                return Err(msg.into());
            }
        }
    }
    let cmp = first_cmp.unwrap();
    if let Some(kind) = cmp.kind {
        ev.count(&format!("deciding_kind/{}", kind.name()));
    }
    // best_match on the same pair, both argument orders.
    let nb = format!("p-{b}");
    let want_rank = best_expected(a, b, &name, &nb, Weight::Rank);
    let want_ascii = best_expected(a, b, &name, &nb, Weight::Ascii);
    for (x, y) in [(&name, &nb), (&nb, &name)] {
        let got = star.best_match(x, y);
        ev.eval();
        ev.count("best_match/pairs");
        if got != Some(want_rank) {
            let msg = format!(
                "best_match(p-*, {x:?}, {y:?}) = {got:?}, expected Some({want_rank:?})"
            );
            if want_ascii != want_rank && got == Some(want_ascii) {
                if soft.is_none() {
                    soft = Some(known(K1, msg));
                }
            } else {
                return Err(msg.into());
            }
        }
    }
    if a != b && cmp.pos > 0 {
        ev.nontrivial(hash_strs(&[a.as_bytes(), b.as_bytes()]));
    }
    match soft {
        Some(f) => Err(f),
        None => Ok(()),
    }
}

fn best_expected<'a>(a: &str, b: &str, na: &'a str, nb: &'a str, w: Weight) -> &'a str {
    match od::order(a, b, w) {
        Ordering::Greater => na,
        Ordering::Less => nb,
        Ordering::Equal => {
            if na <= nb {
                na
            } else {
                nb
            }
        }
    }
}

pub fn run(cx: &mut Cx) {
    cx.default_budget();
    for op in OPS {
        for d in ["prefix", "lhs_shorter", "lhs_longer", "revision", "equal"] {
            cx.ev.require(&format!("cell/{}/{}", op.text(), d));
        }
    }
    cx.ev.require("workload/length-sweep");
    cx.ev.require("workload/revision-cluster");
    cx.ev.require("range/at-its-ends/true");
    cx.ev.require("range/at-its-ends/false");
    cx.ev.require("range/near-ended");
    if matches!(cx.tier, crate::fw::Tier::Quick | crate::fw::Tier::Thorough) {
        cx.ev.require("workload/hash-collisions");
    }
    let star = Pattern::new("p-*").expect("harness: p-* must compile");
    let mut cache: Option<Compiled> = None;

    // (a) random V x V pairs
    let n = cx.per_shard(40, 6_000, 320_000, 1_600_000);
    let mut r = cx.stream("random-pairs");
    for _ in 0..n {
        let a = gv::v(&mut r);
        let b = gv::v(&mut r);
        cx.check(
            || format!("random pair A={a:?} B={b:?}"),
            |ev| {
                ev.count("workload/random");
                check_pair(ev, &mut cache, &star, &a, &b)
            },
        );
    }

    // (b) v x NN(v), both orders; chains of neighbours reach deep positions.
    let n = cx.per_shard(40, 6_000, 320_000, 1_600_000);
    let mut r = cx.stream("neighbours");
    for _ in 0..n / 2 {
        let a = gv::v(&mut r);
        let mut b = gv::neighbour(&mut r, &a, true);
        if r.chance(1, 3) {
            b = gv::neighbour(&mut r, &b, true);
        }
        for (x, y) in [(&a, &b), (&b, &a)] {
            cx.check(
                || format!("neighbour pair A={x:?} B={y:?}"),
                |ev| {
                    ev.count("workload/neighbour");
                    check_pair(ev, &mut cache, &star, x, y)
                },
            );
        }
    }

    // (b2) letter/number boundary: every letter against the numbers around
    // its alphabet rank and around its ASCII code, in both orders and at
    // two depths.  (Inside known finding K1 the observation must equal the
    // ASCII-weight model exactly, so any other letter weight is reported.)
    if cx.shard == 0 {
        for l in (b'a'..=b'z').chain(b'A'..=b'Z') {
            let lc = l.to_ascii_lowercase();
            let (rank, code) = ((lc - b'a' + 1) as i64, lc as i64);
            let mut nums: Vec<i64> = vec![0, 1, 26, 27, 64, 65, 90, 91, 96, 97, 122, 123, 124];
            for d in -1..=1 {
                nums.push(rank + d);
                nums.push(code + d);
                nums.push(l as i64 + d);
            }
            nums.retain(|n| *n >= 0);
            nums.sort();
            nums.dedup();
            for n in nums {
                for (a, b) in [
                    (format!("1{}", l as char), format!("1.{n}")),
                    (format!("2.5{}3", l as char), format!("2.5.{n}.3")),
                    (format!("{}", l as char), format!(".{n}")),
                ] {
                    for (x, y) in [(&a, &b), (&b, &a)] {
                        cx.check(
                            || format!("letter boundary A={x:?} B={y:?}"),
                            |ev| {
                                ev.count("workload/letter-boundary");
                                check_pair(ev, &mut cache, &star, x, y)
                            },
                        );
                    }
                }
            }
        }
    }

    // (b3) length sweep: versions of exactly k components for every k up to
    // 70 and around the powers of two up to 2048, each kind of token last.
    {
        let sweep = gv::length_sweep();
        let sweep: Vec<usize> = match cx.tier {
            crate::fw::Tier::Mini => vec![31, 32, 33],
            crate::fw::Tier::Small => sweep.into_iter().filter(|k| *k <= 70 || *k == 1024).collect(),
            // ... and 2^16 components, one less and one more (a component count or
            // index kept in a u16)
            _ => sweep.into_iter().chain([65_535usize, 65_536, 65_537]).collect(),
        };
        for (i, k) in sweep.iter().enumerate() {
            if !cx.mine(i as u64) {
                continue;
            }
            let mut c = gv::length_cluster(*k);
            if *k > 5_000 {
                // strings of 130 KB: the version itself, its two neighbours in
                // length, a letter and a revision behind it
                c = vec![c[0].clone(), c[1].clone(), c[2].clone(), c[3].clone(), c[9].clone()];
            }
            for b in &c {
                for a in &c {
                    cx.check(
                        || format!("length sweep k={k} A={a:?} B={b:?}"),
                        |ev| {
                            ev.count("workload/length-sweep");
                            check_pair(ev, &mut cache, &star, a, b)
                        },
                    );
                }
            }
        }
    }

    // (b4) versions that collide under common fast hash functions (a version
    // cache that trusts a hash instead of comparing the text): each pair in
    // both orders and against itself, back to back.
    if matches!(cx.tier, crate::fw::Tier::Quick | crate::fw::Tier::Thorough) && cx.mine(3) {
        // four components from a scrambled index (enough variation for the
        // hashes to behave randomly on the candidates)
        let make = |i: usize| {
            let v = crate::rng::Rng::new(i as u64).next();
            format!("{}.{}.{}nb{}", v % 1000, (v >> 10) % 1000, (v >> 20) % 1000, (v >> 30) % 100)
        };
        let found = crate::gen::collide::pairs(6_000_000, 6, &make);
        cx.ev.add("hash-collisions/pairs", found.len() as u64);
        for (proj, _, _) in &found {
            cx.ev.count(&format!("hash-collisions/{proj}"));
        }
        for (proj, a, b) in &found {
            for (x, y) in [(a, b), (b, a), (a, a), (b, b), (a, b)] {
                cx.check(
                    || format!("versions colliding under {proj}: A={x:?} B={y:?}"),
                    |ev| {
                        ev.count("workload/hash-collisions");
                        check_pair(ev, &mut cache, &star, x, y)
                    },
                );
            }
        }
    }

    // (b5) revision clusters: one stem, every short tail behind "nb" (signs,
    // blanks, separators, a second revision), all ordered pairs.
    {
        let mut r = cx.stream("revision-cluster");
        let stems = cx.pick_tier(1usize, 1, 2, 6);
        let keep = cx.pick_tier(4000u64, 16, 2, 1);
        for si in 0..stems {
            let stem = if si == 0 { "1.0".to_string() } else { gv::v_safe(&mut r) };
            let c = gv::revision_cluster(&stem);
            for (bi, b) in c.iter().enumerate() {
                if !cx.mine(bi as u64) {
                    continue;
                }
                for a in &c {
                    if keep > 1 && crate::rng::hash_strs(&[a.as_bytes(), b.as_bytes()]) % keep != 0 {
                        continue;
                    }
                    cx.check(
                        || format!("revision cluster A={a:?} B={b:?}"),
                        |ev| {
                            ev.count("workload/revision-cluster");
                            check_pair(ev, &mut cache, &star, a, b)
                        },
                    );
                }
            }
        }
    }

    // (b6) digits and separators only: every string of at most four tokens
    // over 0 1 2 7 . _ (doubled, leading, trailing separators; empty and zero
    // components), ordered pairs sampled by hash
    if cx.tier != crate::fw::Tier::Mini {
        let all = gv::digits_and_separators(4);
        let keep = cx.pick_tier(1u64, 64, 12, 2);
        for (bi, b) in all.iter().enumerate() {
            if !cx.mine(bi as u64) {
                continue;
            }
            for a in &all {
                if crate::rng::hash_strs(&[a.as_bytes(), b"|", b.as_bytes()]) % keep != 0 {
                    continue;
                }
                cx.check(
                    || format!("digits and separators A={a:?} B={b:?}"),
                    |ev| {
                        ev.count("workload/digits-and-separators");
                        check_pair(ev, &mut cache, &star, a, b)
                    },
                );
            }
        }
    }

    // (c) corpus: real comparison patterns x real versions.
    if cx.tier != crate::fw::Tier::Mini {
        let pats = corpus::patterns();
        let names = corpus::names();
        let mut by_base: HashMap<&str, Vec<&str>> = HashMap::new();
        let mut versions: Vec<&str> = vec![];
        for nm in &names {
            if let Some((b, v)) = op_::split_name(nm) {
                by_base.entry(b).or_default().push(v);
                versions.push(v);
            }
        }
        let mut r = cx.stream("corpus");
        let step = cx.pick_tier(64u64, 16, 2, 1);
        let mut i = 0u64;
        for p in &pats {
            let op_::DeweyParse::Ok(d) = op_::parse_dewey(p) else { continue };
            if p.contains('{') || p.contains('}') {
                continue;
            }
            i += 1;
            if !cx.mine(i / step) || i % step != 0 {
                // still consume randomness deterministically per pattern
                continue;
            }
            for (_, bound) in &d.bounds {
                if !gv::usable(bound) {
                    continue;
                }
                let mut vs: Vec<&str> =
                    by_base.get(d.base.as_str()).cloned().unwrap_or_default();
                for _ in 0..3 {
                    vs.push(*r.pick(&versions));
                }
                for v in vs {
                    if !gv::usable(v) {
                        continue;
                    }
                    cx.check(
                        || format!("corpus pattern {p:?}: A={v:?} B={bound:?}"),
                        |ev| {
                            ev.count("workload/corpus");
                            check_pair(ev, &mut cache, &star, v, bound)
                        },
                    );
                }
            }
        }
    }

    // (d) thorough: exhaustive SMALL(3), all ordered pairs.
    if cx.tier == crate::fw::Tier::Thorough || cx.tier == crate::fw::Tier::Quick {
        let k = if cx.tier == crate::fw::Tier::Thorough { 3 } else { 2 };
        let all = gv::small(k);
        cx.ev.add("exhaustive/strings", if cx.shard == 0 { all.len() as u64 } else { 0 });
        for (bi, b) in all.iter().enumerate() {
            if !cx.mine(bi as u64) {
                continue;
            }
            for a in &all {
                cx.check(
                    || format!("exhaustive SMALL({k}) A={a:?} B={b:?}"),
                    |ev| {
                        ev.count("workload/exhaustive");
                        check_pair(ev, &mut cache, &star, a, b)
                    },
                );
            }
        }
    }
}
