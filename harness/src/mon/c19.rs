//! C19 - PKGPATH accepts only category/package forms; Depend delegates.
//!
//! Refuting events: `PkgPath::new(s).is_ok()` differs from the rule; for
//! accepted inputs the short/full paths are not `cat/pkg` and
//! `../../cat/pkg` (compared component-wise); the two spellings are unequal;
//! re-parsing `as_path()`/`as_full_path()` gives a different value.
//! `Depend::new(s).is_ok()` differs from "exactly one ':' and both halves
//! valid", or its parts differ from parsing the halves directly.

use crate::fw::{show, CaseResult, Cx, Ev, Tier};
use crate::gen::misc as gm;
use crate::oracle::misc as om;
use crate::rng::hash_bytes;
use pkgsrc::{Depend, Pattern, PkgPath};
use std::str::FromStr;

/// One input judged against the rule (acceptance only).
fn acceptance(s: &str) -> Result<(), String> {
    let want = om::pkgpath_rule(s).is_some();
    let got = PkgPath::new(s).is_ok();
    if got != want {
        return Err(format!("PkgPath::new({s:?}) accepts = {got}, the rule says {want}"));
    }
    Ok(())
}

fn check_path(ev: &mut Ev, s: &str) -> CaseResult {
    check_path_inner(ev, s)?;
    // The verdict on one input may not depend on which inputs were parsed
    // just before it: right after `s`, its relatives - `s` without / with a
    // leading "../../" or "./", with a trailing "/" - are judged on their own,
    // and then `s` once more.
    let mut rel: Vec<String> = vec![format!("../../{s}"), format!("./{s}"), format!("{s}/")];
    for pre in ["../../", "../", "./", "/"] {
        if let Some(t) = s.strip_prefix(pre) {
            rel.push(t.to_string());
        }
    }
    for t in &rel {
        ev.eval();
        ev.count("path/relatives");
        acceptance(t).map_err(|m| format!("{m} (asked right after {s:?})"))?;
    }
    acceptance(s).map_err(|m| format!("{m} (asked again after its relatives)"))?;
    Ok(())
}

fn check_path_inner(ev: &mut Ev, s: &str) -> CaseResult {
    let rule = om::pkgpath_rule(s);
    let got = PkgPath::new(s);
    let got_fs = PkgPath::from_str(s);
    ev.evals(2);
    let shape = om::shape(s);
    match (rule, got) {
        (None, Err(_)) => {
            ev.count(&format!("path/rejected/{shape}"));
            if got_fs.is_ok() {
                return Err("new() rejects but from_str() accepts".into());
            }
            Ok(())
        }
        (None, Ok(v)) => Err(format!(
            "accepted (short {:?}, full {:?}) although the components are {:?}{}",
            v.as_path(),
            v.as_full_path(),
            om::normalise(s).segs,
            if om::normalise(s).absolute { " (absolute)" } else { "" }
        )
        .into()),
        (Some((c, p)), Err(_)) => {
            Err(format!("rejected although it is {c}/{p} component-wise").into())
        }
        (Some((c, p)), Ok(v)) => {
            ev.count(&format!("path/accepted/{shape}"));
            match got_fs {
                Ok(w) if w == v => {}
                _ => return Err("from_str() differs from new()".into()),
            }
            // accessors, compared component-wise with the harness normaliser
            let short = v
                .as_path()
                .to_str()
                .ok_or_else(|| "as_path() is not UTF-8".to_string())?;
            let full = v
                .as_full_path()
                .to_str()
                .ok_or_else(|| "as_full_path() is not UTF-8".to_string())?;
            let ns = om::normalise(short);
            let nf = om::normalise(full);
            ev.evals(2);
            if ns.absolute || ns.segs != [c, p] {
                return Err(format!("as_path() is {short:?}, expected {c}/{p}").into());
            }
            if nf.absolute || nf.segs != ["..", "..", c, p] {
                return Err(format!("as_full_path() is {full:?}, expected ../../{c}/{p}").into());
            }
            // both spellings give one value
            let sp_short = format!("{c}/{p}");
            let sp_full = format!("../../{c}/{p}");
            for (what, text) in [
                ("short spelling", sp_short.as_str()),
                ("full spelling", sp_full.as_str()),
                ("as_path() output", short),
                ("as_full_path() output", full),
            ] {
                ev.eval();
                match PkgPath::new(text) {
                    Ok(w) => {
                        if w != v {
                            return Err(format!(
                                "value differs from PkgPath::new({text:?}) ({what}): {v:?} vs {w:?}"
                            )
                            .into());
                        }
                        check_equal_values(ev, what, &v, &w)?;
                    }
                    Err(_) => {
                        return Err(format!("{what} {text:?} is rejected").into());
                    }
                }
            }
            // Noisy spellings of the same category/package - redundant slashes
            // and '.' segments at different places, some of them as long as each
            // other - are all equal to the canonical value, hence (Eq is
            // transitive and symmetric) to this input's value and to each other.
            if hash_bytes(s.as_bytes()) % 4 == 0 {
                let noisy: Vec<String> = [
                    format!("{c}//{p}"), format!("{c}/{p}/"), format!("{c}/./{p}"), format!("{c}/{p}/."), format!("{c}///{p}"),
                    format!("..//../{c}/{p}"), format!("../..//{c}/{p}"), format!("../../{c}//{p}"), format!("../../{c}/{p}/"),
                    format!(".././../{c}/{p}"), format!("../.././{c}/{p}"), format!("../../{c}/./{p}"), format!("..//..//{c}//{p}//"),
                ]
                .into_iter()
                .filter(|t| om::pkgpath_rule(t) == Some((c, p)))
                .collect();
                let mut vals: Vec<(String, PkgPath)> = vec![];
                for t in noisy {
                    ev.eval();
                    match PkgPath::new(&t) {
                        Ok(w) => vals.push((t, w)),
                        Err(_) => return Err(format!("noisy spelling {t:?} of {c}/{p} is rejected").into()),
                    }
                }
                for (t, w) in &vals {
                    if *w != v || v != *w {
                        return Err(format!("value differs from PkgPath::new({t:?}), another spelling of {c}/{p}: {v:?} vs {w:?}").into());
                    }
                    for (u, x) in &vals {
                        ev.eval();
                        ev.count("path/noisy-spelling-pairs");
                        if w != x {
                            return Err(format!("PkgPath::new({t:?}) != PkgPath::new({u:?}) although both are {c}/{p}: {w:?} vs {x:?}").into());
                        }
                        if std_hash(w) != std_hash(x) {
                            return Err(format!("PkgPath::new({t:?}) and PkgPath::new({u:?}) are equal but hash differently").into());
                        }
                    }
                }
            }
            if s != sp_short && s != sp_full {
                ev.nontrivial(hash_bytes(s.as_bytes()));
            }
            Ok(())
        }
    }
}

fn std_hash<T: std::hash::Hash>(v: &T) -> u64 {
    use std::hash::Hasher;
    let mut h = std::collections::hash_map::DefaultHasher::new();
    v.hash(&mut h);
    h.finish()
}

/// "Equal values" also for a caller that keys a map or sorts by them: values
/// that compare equal must hash alike and order as equal (the Eq/Hash/Ord
/// contracts of the standard library).
fn check_equal_values(ev: &mut Ev, what: &str, a: &PkgPath, b: &PkgPath) -> CaseResult {
    ev.evals(2);
    ev.count("path/equal-values/hash-and-order");
    if std_hash(a) != std_hash(b) {
        return Err(format!("{what}: values compare equal but hash differently: {a:?} vs {b:?}").into());
    }
    if a.cmp(b) != std::cmp::Ordering::Equal || a.partial_cmp(b) != Some(std::cmp::Ordering::Equal) {
        return Err(format!("{what}: values compare equal but cmp() is {:?}: {a:?} vs {b:?}", a.cmp(b)).into());
    }
    let c = a.clone();
    if &c != a || std_hash(&c) != std_hash(a) {
        return Err(format!("{what}: a clone differs from its original: {a:?} vs {c:?}").into());
    }
    Ok(())
}

/// For strings whose acceptance the statement leaves open (a name with a
/// line break, a blank or a NUL in it): whatever `new` decides, `from_str`
/// decides the same and gives an equal value.
fn check_path_routes(ev: &mut Ev, s: &str) -> CaseResult {
    ev.evals(2);
    match (PkgPath::new(s), PkgPath::from_str(s), s.parse::<PkgPath>()) {
        (Err(_), Err(_), Err(_)) => {
            ev.count("path/routes/rejected");
            Ok(())
        }
        (Ok(a), Ok(b), Ok(c)) => {
            ev.count("path/routes/accepted");
            if a != b || a != c {
                return Err(format!("new() gives {a:?}, from_str() {b:?}, parse() {c:?}").into());
            }
            check_equal_values(ev, "new() and from_str()", &a, &b)
        }
        (a, b, c) => Err(format!(
            "new() accepts = {}, from_str() accepts = {}, parse() accepts = {}",
            a.is_ok(),
            b.is_ok(),
            c.is_ok()
        )
        .into()),
    }
}

fn check_depend(ev: &mut Ev, s: &str) -> CaseResult {
    let colons = s.bytes().filter(|&b| b == b':').count();
    let got = Depend::new(s);
    let got_fs = Depend::from_str(s);
    ev.eval();
    if got.is_ok() != got_fs.is_ok() {
        return Err("new() and from_str() disagree on acceptance".into());
    }
    if colons != 1 {
        ev.count(&format!("depend/colons-{}/rejected", colons.min(3)));
        return match got {
            Err(_) => {
                ev.nontrivial(hash_bytes(s.as_bytes()));
                Ok(())
            }
            Ok(d) => Err(format!(
                "accepted with {colons} colons (pattern {:?}, pkgpath {:?})",
                d.pattern(),
                d.pkgpath()
            )
            .into()),
        };
    }
    let i = s.find(':').unwrap_or(0);
    let (left, right) = (&s[..i], &s[i + 1..]);
    let pat = Pattern::new(left);
    let path = PkgPath::new(right);
    let class = match (pat.is_ok(), path.is_ok()) {
        (true, true) => "both-valid",
        (false, true) => "bad-pattern",
        (true, false) => "bad-path",
        (false, false) => "both-bad",
    };
    ev.count(&format!("depend/colons-1/{class}"));
    match (pat, path, got) {
        (Ok(pat), Ok(path), Ok(d)) => {
            ev.evals(2);
            if d.pattern() != &pat {
                return Err(format!(
                    "pattern() is {:?}, Pattern::new({left:?}) is {pat:?}",
                    d.pattern()
                )
                .into());
            }
            if d.pkgpath() != &path {
                return Err(format!(
                    "pkgpath() is {:?}, PkgPath::new({right:?}) is {path:?}",
                    d.pkgpath()
                )
                .into());
            }
            if let Ok(d2) = got_fs {
                if d2 != d {
                    return Err("from_str() value differs from new()".into());
                }
                if std_hash(&d2) != std_hash(&d) || std_hash(&d.clone()) != std_hash(&d) {
                    return Err("equal Depend values hash differently".into());
                }
            }
            check_equal_values(ev, "Depend::pkgpath() and the path half parsed directly", d.pkgpath(), &path)?;
            ev.nontrivial(hash_bytes(s.as_bytes()));
            Ok(())
        }
        (Ok(_), Ok(_), Err(e)) => {
            Err(format!("rejected ({e}) although both halves parse on their own").into())
        }
        (pat, path, Ok(_)) => Err(format!(
            "accepted although pattern half valid = {}, path half valid = {}",
            pat.is_ok(),
            path.is_ok()
        )
        .into()),
        (_, _, Err(_)) => {
            ev.nontrivial(hash_bytes(s.as_bytes()));
            Ok(())
        }
    }
}

pub fn run(cx: &mut Cx) {
    cx.default_budget();
    for k in [
        "path/accepted/NN",
        "path/accepted/PPNN",
        "path/rejected/NNN",
        "path/rejected/PNN",
        "path/rejected/abs:NN",
        "path/rejected/DNN",
        "path/rejected/NNNN",
        "path/rejected/PPNNN",
        "path/rejected/PPN",
        "depend/colons-0/rejected",
        "depend/colons-1/both-valid",
        "depend/colons-1/bad-pattern",
        "depend/colons-1/bad-path",
        "depend/colons-2/rejected",
        "depend/colons-3/rejected",
        "workload/real_names",
        "workload/decorated",
        "path/relatives",
        "path/equal-values/hash-and-order",
        "path/noisy-spelling-pairs",
        "depend_words/fields-2",
        "depend_words/fields-3",
        "depend_words/fields-4",
    ] {
        cx.ev.require(k);
    }

    // (a) exhaustive: <= 6 segments from SEGS, optional leading '/', '/' vs '//'.
    let stride = cx.pick_tier(96u64, 8, 1, 1);
    let mut i = 0u64;
    for n in 0..=6usize {
        let count = 5usize.pow(n as u32);
        for code in 0..count {
            for leading in [false, true] {
                for double in [false, true] {
                    i += 1;
                    if i % stride != 0 || !cx.mine(i / stride) {
                        continue;
                    }
                    let s = gm::exhaustive_path(n, code, leading, double);
                    cx.check(
                        || format!("exhaustive path \"{}\"", show(s.as_bytes())),
                        |ev| {
                            ev.count("workload/exhaustive");
                            check_path(ev, &s)
                        },
                    );
                }
            }
        }
    }
    cx.ev.max("max/exhaustive_path_strings", i);

    // (b) seeded longer / odd paths
    let n = cx.per_shard(200, 10_000, 160_000, 1_600_000);
    let mut r = cx.stream("odd-paths");
    for _ in 0..n {
        let s = gm::odd_path(&mut r);
        cx.check(
            || format!("odd path \"{}\"", show(s.as_bytes())),
            |ev| {
                ev.count("workload/odd");
                check_path(ev, &s)
            },
        );
    }

    // (b2) real-looking names (digit-initial, '+', '.', '_', upper case, one
    // character, vocabulary words) as category and as package, in accepted
    // and rejected shapes
    let stride = cx.pick_tier(64u64, 8, 1, 1);
    let mut i = 0u64;
    for c in gm::REAL_NAMES.iter() {
        for p in gm::REAL_NAMES.iter() {
            for s in gm::real_name_forms(c, p) {
                i += 1;
                if i % stride != 0 || !cx.mine(i / stride) {
                    continue;
                }
                cx.check(
                    || format!("real-name path \"{}\"", show(s.as_bytes())),
                    |ev| {
                        ev.count("workload/real_names");
                        check_path(ev, &s)
                    },
                );
            }
        }
    }
    cx.ev.max("max/real_name_strings", i);

    // (b3) paths that collide under common fast hash functions (a memo of
    // parsed paths that trusts a hash instead of comparing the text): the
    // first, the second, the first again
    if matches!(cx.tier, Tier::Quick | Tier::Thorough) && cx.mine(7) {
        let make = |i: usize| {
            let mut v = crate::rng::Rng::new(i as u64).next();
            let mut s = String::from(if v & 1 == 0 { "../../" } else { "" });
            v >>= 1;
            for k in 0..11 {
                if k == 4 {
                    s.push('/');
                }
                s.push(b"abcdefghijklmnopqrstuvwxyz012345"[(v % 32) as usize] as char);
                v /= 32;
            }
            s
        };
        let found = crate::gen::collide::pairs(6_000_000, 4, &make);
        cx.ev.add("hash-collisions/pairs", found.len() as u64);
        for (proj, a, b) in &found {
            for s in [a, b, a] {
                cx.check(
                    || format!("paths colliding under {proj}: {s:?} (pair {a:?} / {b:?})"),
                    |ev| {
                        ev.count("workload/hash-collisions");
                        check_path_inner(ev, s)?;
                        check_depend(ev, &format!("foo-[0-9]*:{s}"))
                    },
                );
            }
        }
    }

    // (b4) the count ladder: 2^8 and 2^16 components (names, "..", "." and empty
    // ones), a few less and a few more - a component count kept in a u8 / u16
    // wraps there and "65538 names" looks like "2 names"
    if matches!(cx.tier, Tier::Quick | Tier::Thorough) {
        let mut li = 0u64;
        for base in [256usize, 65_536, 131_072] {
            for d in 0..=4usize {
                let k = base - 2 + d;
                li += 1;
                if !cx.mine(li) {
                    continue;
                }
                let forms = [
                    format!("{}a", "a/".repeat(k - 1)),
                    format!("{}cat/pkg", "../".repeat(k)),
                    format!("{}cat/pkg", "./".repeat(k)),
                    format!("../../{}cat/pkg", "./".repeat(k)),
                    format!("cat/{}pkg", "./".repeat(k)),
                    format!("cat{}pkg", "/".repeat(k)),
                    format!("../../cat/pkg{}", "/.".repeat(k)),
                    format!("{}../../cat/pkg", "a/".repeat(k)),
                ];
                for s in forms {
                    cx.check(
                        || format!("count ladder: {k} repeated components, path of {} bytes starting {:?}", s.len(), &s[..s.len().min(24)]),
                        |ev| {
                            ev.count("workload/count-ladder");
                            check_path_inner(ev, &s)?;
                            check_depend(ev, &format!("foo-[0-9]*:{s}"))
                        },
                    );
                }
            }
        }
    }

    // (c) Depend: every pattern x path x colon form
    let stride = if cx.tier == Tier::Mini { 24u64 } else { 1 };
    let mut i = 0u64;
    for p in gm::DEP_PATTERNS.iter() {
        for q in gm::DEP_PATHS.iter() {
            for s in gm::depend_forms(p, q) {
                i += 1;
                if i % stride != 0 || !cx.mine(i / stride) {
                    continue;
                }
                cx.check(
                    || format!("depend \"{}\"", show(s.as_bytes())),
                    |ev| {
                        ev.count("workload/depend");
                        check_depend(ev, &s)
                    },
                );
            }
        }
    }
    cx.ev.max("max/depend_strings", i);

    // (c2) decorated halves: line ends, blanks, a NUL or a BOM in front of or
    // behind an otherwise valid path or pattern (what a caller gets from
    // read_line or a sloppy split).  Whether such a path is acceptable is not
    // stated; that every route decides alike, and that Depend's parts are what
    // parsing each half directly gives, is.
    const DECOR: [&str; 9] = ["\n", "\r\n", "\r", " ", "\t", "\0", "\u{feff}", "/\n", "\n\n"];
    let mut i = 0u64;
    for q in gm::DEP_PATHS.iter() {
        for d in DECOR.iter() {
            for (path, where_) in [(format!("{q}{d}"), "behind"), (format!("{d}{q}"), "in front")] {
                i += 1;
                if !cx.mine(i) {
                    continue;
                }
                cx.check(
                    || format!("decorated path \"{}\" ({where_})", show(path.as_bytes())),
                    |ev| {
                        ev.count("workload/decorated");
                        check_path_routes(ev, &path)?;
                        for p in ["foo-[0-9]*", "foo>=1.0", "{a,b}-1"] {
                            check_depend(ev, &format!("{p}:{path}"))?;
                            check_depend(ev, &format!("{p}{d}:{q}"))?;
                            check_depend(ev, &format!("{d}{p}:{q}"))?;
                        }
                        Ok(())
                    },
                );
            }
        }
    }

    // (d) Depend: every arrangement of 1-4 ':'-separated fields over plain
    // vocabulary words (each a valid pattern on its own), valid patterns and
    // valid paths - a word in front of, between or behind a valid
    // 'pattern:pkgpath' must not make a three- or four-field string acceptable
    let k = gm::DEP_FIELDS.len();
    let mut total = 0u64;
    for n in 1..=4usize {
        let stride = if n <= 2 { cx.pick_tier(4u64, 1, 1, 1) } else { cx.pick_tier(512u64, 16, 1, 1) };
        let mut i = 0u64;
        for code in 0..k.pow(n as u32) {
            i += 1;
            total += 1;
            if i % stride != 0 || !cx.mine(i / stride) {
                continue;
            }
            let s = gm::word_fields(n, code);
            cx.check(
                || format!("depend word fields \"{}\"", show(s.as_bytes())),
                |ev| {
                    ev.count("workload/depend_words");
                    ev.count(&format!("depend_words/fields-{n}"));
                    check_depend(ev, &s)
                },
            );
        }
    }
    cx.ev.max("max/depend_word_strings", total);
}
