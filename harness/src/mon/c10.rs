//! C10 - distinfo files round-trip byte-exactly, including non-UTF-8 names.
//!
//! Refuting events: `Distinfo::from_bytes(T).as_bytes() != T` for canonical T
//! (also piecewise through `Entry::as_bytes`); for a `Distinfo` assembled with
//! `set_rcsid`/`insert`, parsing `as_bytes()` does not return the same RCS Id,
//! names in the same order per kind, checksums in order, sizes.
//!
//! Oracle: by construction - the generator renders T from a model
//! (`oracle::distinfo::render_canonical`) and assembles the same model
//! through the API.

use crate::fw::{show, CaseResult, Cx, Ev};
use crate::gen::distinfo as gd;
use crate::oracle::distinfo::{
    compare_rcsid, compare_structure, render_canonical, DocModel, FileModel, Kind,
};
use crate::rng::hash_strs;
use pkgsrc::distinfo::{Checksum, Distinfo, Entry};
use std::ffi::{OsStr, OsString};
use std::os::unix::ffi::{OsStrExt, OsStringExt};

fn clip(b: &[u8]) -> String {
    if b.len() > 1000 {
        format!("{}...[{} bytes]", show(&b[..1000]), b.len())
    } else {
        show(b)
    }
}

fn first_diff(a: &[u8], b: &[u8]) -> usize {
    a.iter().zip(b.iter()).position(|(x, y)| x != y).unwrap_or(a.len().min(b.len()))
}

fn count_doc(ev: &mut Ev, m: &DocModel, what: &str) -> bool {
    ev.count(&format!("docs/{what}"));
    ev.add("files/distfiles", m.dist.len() as u64);
    ev.add("files/patches", m.patch.len() as u64);
    if m.dist.is_empty() && m.patch.is_empty() {
        ev.count("docs/no-files");
    }
    match &m.rcsid {
        None => ev.count("rcsid/unexpanded"),
        Some(r) => {
            if std::str::from_utf8(r).is_err() {
                ev.count("rcsid/non-utf8");
            } else {
                ev.count("rcsid/utf8");
            }
            if r.ends_with(b" ") || r.ends_with(b"\t") {
                ev.count("rcsid/trailing-blank");
            }
        }
    }
    let mut high = false;
    for f in m.files() {
        for c in gd::danger_classes(&f.name) {
            ev.count(&format!("name-byte/{c}"));
        }
        if f.name.contains(&b'/') {
            ev.count("name/dist-subdir");
        }
        if f.name.iter().any(|&b| b >= 0x80) {
            high = true;
            if std::str::from_utf8(&f.name).is_err() {
                ev.count("name/non-utf8");
            } else {
                ev.count("name/utf8-multibyte");
            }
        }
        if f.size == Some(u64::MAX) {
            ev.count("size/u64-max");
        }
        if f.kind == Kind::Dist && f.size.is_none() {
            ev.count("api/distfile-without-size");
        }
        if f.sums.is_empty() {
            ev.count("api/size-only-entry");
        }
        ev.max("max/checksums-per-file", f.sums.len() as u64);
    }
    high
}

/// Canonical text -> parse -> write: byte-exact.
fn parse_write(ev: &mut Ev, m: &DocModel, text: &[u8]) -> CaseResult {
    let high = count_doc(ev, m, "parse-write");
    let di = Distinfo::from_bytes(text);
    let out = di.as_bytes();
    ev.eval();
    if out != text {
        let at = first_diff(&out, text);
        return Err(format!(
            "as_bytes() differs from the canonical input at byte {at}: wrote {:?}",
            clip(&out)
        )
        .into());
    }
    // The same through Entry::as_bytes: header, then every distfile entry,
    // then every patch entry.
    let mut pieces = vec![];
    match di.rcsid() {
        Some(r) => pieces.extend_from_slice(r.as_bytes()),
        None => pieces.extend_from_slice(b"$NetBSD$"),
    }
    pieces.extend_from_slice(b"\n\n");
    for e in di.distfiles() {
        pieces.extend_from_slice(&e.as_bytes());
    }
    for e in di.patchfiles() {
        pieces.extend_from_slice(&e.as_bytes());
    }
    ev.eval();
    if pieces != text {
        let at = first_diff(&pieces, text);
        return Err(format!(
            "rcsid() + Entry::as_bytes() of all entries differs from the canonical input at byte {at}: {:?}",
            clip(&pieces)
        )
        .into());
    }
    if high {
        ev.nontrivial(hash_strs(&[text]));
    }
    Ok(())
}

fn to_entry(f: &FileModel) -> Entry {
    let sums: Vec<Checksum> =
        f.sums.iter().map(|(a, h)| Checksum::new(a.lib(), h.clone())).collect();
    let mut full = b"/distfiles/".to_vec();
    full.extend_from_slice(&f.name);
    Entry::new(OsStr::from_bytes(&f.name), OsStr::from_bytes(&full), sums, f.size)
}

/// API -> write -> parse: same RCS Id, files, order, checksums, sizes.
fn api_write_parse(ev: &mut Ev, m: &DocModel, order: &[FileModel]) -> CaseResult {
    let high = count_doc(ev, m, "api-write-parse");
    let mut di = Distinfo::new();
    if let Some(r) = &m.rcsid {
        di.set_rcsid(&OsString::from_vec(r.clone()));
    }
    for f in order {
        di.insert(to_entry(f));
    }
    // the assembled object itself
    ev.evals(compare_structure(&di, m, true).map_err(|s| format!("assembled Distinfo: {s}"))?);
    let text = di.as_bytes();
    let back = Distinfo::from_bytes(&text);
    ev.eval();
    compare_rcsid(&back, &m.rcsid).map_err(|s| format!("{s}; written text {:?}", clip(&text)))?;
    ev.evals(
        compare_structure(&back, m, true)
            .map_err(|s| format!("after write+parse: {s}; written text {:?}", clip(&text)))?,
    );
    if high {
        ev.nontrivial(hash_strs(&[&text]));
    }
    Ok(())
}

pub fn run(cx: &mut Cx) {
    cx.default_budget();
    for (k, _) in gd::DANGER {
        cx.ev.require(&format!("name-byte/{k}"));
    }
    for k in [
        "docs/parse-write",
        "docs/api-write-parse",
        "rcsid/unexpanded",
        "rcsid/non-utf8",
        "rcsid/trailing-blank",
        "name/dist-subdir",
        "name/non-utf8",
        "name/utf8-multibyte",
        "size/u64-max",
        "files/distfiles",
        "files/patches",
    ] {
        cx.ev.require(k);
    }

    // (a) canonical text -> from_bytes -> as_bytes
    let n = cx.per_shard(160, 20_000, 300_000, 3_000_000);
    let mut r = cx.stream("parse-write");
    for _ in 0..n {
        let m = gd::canonical_doc(&mut r);
        let text = render_canonical(&m);
        cx.check(
            || format!("canonical distinfo text {:?}", clip(&text)),
            |ev| parse_write(ev, &m, &text),
        );
    }

    // (b) assembled through the API -> as_bytes -> from_bytes
    let n = cx.per_shard(120, 12_000, 180_000, 1_800_000);
    let mut r = cx.stream("api-write-parse");
    for _ in 0..n {
        let (m, order) = gd::api_doc(&mut r);
        cx.check(
            || {
                let ins: Vec<String> = order
                    .iter()
                    .map(|f| {
                        format!(
                            "{}:{:?} size={:?} sums={:?}",
                            f.kind.name(),
                            show(&f.name),
                            f.size,
                            f.sums.iter().map(|(a, h)| format!("{}={h}", a.keyword())).collect::<Vec<_>>()
                        )
                    })
                    .collect();
                format!(
                    "Distinfo assembled with set_rcsid({:?}) and insert() of [{}]",
                    m.rcsid.as_deref().map(show),
                    ins.join("; ")
                )
            },
            |ev| api_write_parse(ev, &m, &order),
        );
    }
}
