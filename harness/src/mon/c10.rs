//! C10 - distinfo files round-trip byte-exactly, including non-UTF-8 names.
//!
//! Refuting events: `Distinfo::from_bytes(T).as_bytes() != T` for canonical T
//! (also piecewise through `Entry::as_bytes`); for a `Distinfo` assembled with
//! `set_rcsid`/`insert`, parsing `as_bytes()` does not return the same RCS Id,
//! names in the same order per kind, checksums in order, sizes.
//!
//! Oracle: by construction - the generator renders T from a model
//! (`oracle::distinfo::render_canonical`) and assembles the same model
//! through the API.
//!
//! Both directions include large documents (21-300 files); the API direction
//! inserts in seven orders (patches before / between / after distfiles ...),
//! optionally on top of a parsed text, with `set_rcsid` at any point and an
//! extra write+parse observation midway.

use crate::fw::{show, CaseResult, Cx, Ev};
use crate::gen::distinfo as gd;
use crate::oracle::distinfo::{
    compare_rcsid, compare_structure, render_canonical, DocModel, FileModel, Kind,
};
use crate::rng::hash_strs;
use pkgsrc::distinfo::{Checksum, Distinfo, Entry};
use std::ffi::{OsStr, OsString};
use std::os::unix::ffi::{OsStrExt, OsStringExt};

fn clip(b: &[u8]) -> String {
    if b.len() > 1000 {
        format!("{}...[{} bytes]", show(&b[..1000]), b.len())
    } else {
        show(b)
    }
}

fn first_diff(a: &[u8], b: &[u8]) -> usize {
    a.iter().zip(b.iter()).position(|(x, y)| x != y).unwrap_or(a.len().min(b.len()))
}

fn count_doc(ev: &mut Ev, m: &DocModel, what: &str) -> bool {
    ev.count(&format!("docs/{what}"));
    ev.add("files/distfiles", m.dist.len() as u64);
    ev.add("files/patches", m.patch.len() as u64);
    if m.dist.is_empty() && m.patch.is_empty() {
        ev.count("docs/no-files");
    }
    match &m.rcsid {
        None => ev.count("rcsid/unexpanded"),
        Some(r) => {
            if std::str::from_utf8(r).is_err() {
                ev.count("rcsid/non-utf8");
            } else {
                ev.count("rcsid/utf8");
            }
            if r.ends_with(b" ") || r.ends_with(b"\t") {
                ev.count("rcsid/trailing-blank");
            }
        }
    }
    let nfiles = m.dist.len() + m.patch.len();
    ev.max("max/files-per-doc", nfiles as u64);
    if nfiles > 20 {
        ev.count("docs/large-21+files");
        ev.count(&format!("docs/large-21+files/{what}"));
    }
    for list in [&m.dist, &m.patch] {
        let names: Vec<&[u8]> = list.iter().map(|f| &f.name[..]).collect();
        for c in gd::relation_classes(&names) {
            ev.count(c);
        }
    }
    let mut high = false;
    for f in m.files() {
        for c in gd::danger_classes(&f.name) {
            ev.count(&format!("name-byte/{c}"));
        }
        for c in gd::clause_classes(&f.name) {
            ev.count(&format!("clause/{c}"));
        }
        if f.name.len() >= 30 {
            ev.count("name/long-30+bytes");
        }
        if f.name.contains(&b'/') {
            ev.count("name/dist-subdir");
        }
        if f.name.iter().any(|&b| b >= 0x80) {
            high = true;
            if std::str::from_utf8(&f.name).is_err() {
                ev.count("name/non-utf8");
            } else {
                ev.count("name/utf8-multibyte");
            }
        }
        if f.size == Some(u64::MAX) {
            ev.count("size/u64-max");
        }
        if f.kind == Kind::Dist && f.size.is_none() {
            ev.count("api/distfile-without-size");
        }
        if f.sums.is_empty() {
            ev.count("api/size-only-entry");
        }
        ev.max("max/checksums-per-file", f.sums.len() as u64);
    }
    high
}

/// Canonical text -> parse -> write: byte-exact.
fn parse_write(ev: &mut Ev, m: &DocModel, text: &[u8]) -> CaseResult {
    let high = count_doc(ev, m, "parse-write");
    let di = Distinfo::from_bytes(text);
    let out = di.as_bytes();
    ev.eval();
    if out != text {
        let at = first_diff(&out, text);
        return Err(format!(
            "as_bytes() differs from the canonical input at byte {at}: wrote {:?}",
            clip(&out)
        )
        .into());
    }
    // The same through Entry::as_bytes: header, then every distfile entry,
    // then every patch entry.
    let mut pieces = vec![];
    match di.rcsid() {
        Some(r) => pieces.extend_from_slice(r.as_bytes()),
        None => pieces.extend_from_slice(b"$NetBSD$"),
    }
    pieces.extend_from_slice(b"\n\n");
    for e in di.distfiles() {
        pieces.extend_from_slice(&e.as_bytes());
    }
    for e in di.patchfiles() {
        pieces.extend_from_slice(&e.as_bytes());
    }
    ev.eval();
    if pieces != text {
        let at = first_diff(&pieces, text);
        return Err(format!(
            "rcsid() + Entry::as_bytes() of all entries differs from the canonical input at byte {at}: {:?}",
            clip(&pieces)
        )
        .into());
    }
    if high {
        ev.nontrivial(hash_strs(&[text]));
    }
    Ok(())
}

fn to_entry(f: &FileModel) -> Entry {
    let sums: Vec<Checksum> =
        f.sums.iter().map(|(a, h)| Checksum::new(a.lib(), h.clone())).collect();
    let mut full = b"/distfiles/".to_vec();
    full.extend_from_slice(&f.name);
    Entry::new(OsStr::from_bytes(&f.name), OsStr::from_bytes(&full), sums, f.size)
}

fn push_model(m: &mut DocModel, f: &FileModel) {
    match f.kind {
        Kind::Dist => m.dist.push(f.clone()),
        Kind::Patch => m.patch.push(f.clone()),
    }
}

/// `as_bytes()` of the object, parsed again: RCS Id, files, order, checksums,
/// sizes as in the model.
fn write_parse(ev: &mut Ev, di: &Distinfo, m: &DocModel, when: &str) -> Result<Vec<u8>, String> {
    let text = di.as_bytes();
    let back = Distinfo::from_bytes(&text);
    ev.eval();
    compare_rcsid(&back, &m.rcsid)
        .map_err(|s| format!("{when}, after write+parse: {s}; written text {:?}", clip(&text)))?;
    ev.evals(
        compare_structure(&back, m, true)
            .map_err(|s| format!("{when}, after write+parse: {s}; written text {:?}", clip(&text)))?,
    );
    Ok(text)
}

/// API -> write -> parse: same RCS Id, files, order, checksums, sizes.
fn api_write_parse(ev: &mut Ev, d: &gd::ApiDoc) -> CaseResult {
    let m = &d.model;
    let high = count_doc(ev, m, "api-write-parse");
    ev.count(&format!("api-shape/{}", d.shape));
    if d.order.len() > 20 {
        ev.count(&format!("api-large-shape/{}", d.shape));
    }
    let mut cur = DocModel::default();
    let mut di = match &d.base {
        None if d.order.len() % 2 == 1 => {
            ev.count("api/from-default");
            Distinfo::default()
        }
        None => Distinfo::new(),
        Some(b) => {
            ev.count("api/parsed-base-then-insert");
            cur = b.clone();
            Distinfo::from_bytes(&render_canonical(b))
        }
    };
    for i in 0..=d.order.len() {
        if let Some((at, v)) = &d.set_rcsid {
            if *at == i {
                ev.count(if i == 0 { "api/set_rcsid-first" } else { "api/set_rcsid-later" });
                di.set_rcsid(&OsString::from_vec(v.clone()));
                cur.rcsid = Some(v.clone());
            }
        }
        if d.probe_at == Some(i) && i < d.order.len() {
            ev.count("api/observed-midway");
            write_parse(ev, &di, &cur, &format!("before insertion {i}"))?;
        }
        if let Some(f) = d.order.get(i) {
            di.insert(to_entry(f));
            push_model(&mut cur, f);
        }
    }
    // the assembled object itself
    ev.evals(compare_structure(&di, m, true).map_err(|s| format!("assembled Distinfo: {s}"))?);
    ev.eval();
    compare_rcsid(&di, &m.rcsid).map_err(|s| format!("assembled Distinfo: {s}"))?;
    let text = write_parse(ev, &di, m, "finished object")?;
    if high {
        ev.nontrivial(hash_strs(&[&text]));
    }
    Ok(())
}

fn show_file(f: &FileModel) -> String {
    format!(
        "{}:{:?} size={:?} sums={:?}",
        f.kind.name(),
        show(&f.name),
        f.size,
        f.sums.iter().map(|(a, h)| format!("{}={h}", a.keyword())).collect::<Vec<_>>()
    )
}

/// Documents made only of files whose names have a directory in front of a
/// patch-like last component (`patches/patch-aa`, `files/emul-linux-patch-x`),
/// each with checksum lines and no size: whether such a file counts as a patch
/// or as a distfile is read differently by different people, but a document
/// of this shape is canonical under either reading, so it has to come back
/// byte for byte - including the directory part of every name.
fn dir_patch_docs(cx: &mut Cx) {
    let dirs = ["patches", "files", "a", "patches/sub", "emul", "x.d", "\u{e9}"];
    let lasts = ["patch-aa", "patch-configure", "patch-src_main.c", "emul-linux-patch-ab", "patch-Makefile.in"];
    let mut serial = 0u32;
    let mut r = cx.stream("dir-patch-docs");
    let n = cx.per_shard(2, 8, 40, 400);
    for _ in 0..n {
        let k = r.range(1, 4);
        let mut text = b"$NetBSD$\n\n".to_vec();
        let mut used: Vec<String> = vec![];
        for _ in 0..k {
            let name = format!("{}/{}", r.pick(&dirs), r.pick(&lasts));
            if used.contains(&name) {
                continue;
            }
            used.push(name.clone());
            for a in [crate::oracle::distinfo::ALGS[r.below(crate::oracle::distinfo::ALGS.len())], crate::oracle::distinfo::ALGS[3]].iter().take(r.range(1, 2)) {
                let h = gd::unique_hash(&mut r, *a, &mut serial);
                text.extend_from_slice(format!("{} ({name}) = {h}\n", a.keyword()).as_bytes());
            }
        }
        cx.check(
            || format!("document of directory-prefixed patch names only: {}", show(&text)),
            |ev| {
                ev.count("docs/dir-patch-names");
                ev.eval();
                let out = Distinfo::from_bytes(&text).as_bytes();
                if out != text {
                    return Err(format!("as_bytes() differs from the input at byte {}: wrote {:?}", first_diff(&out, &text), clip(&out)).into());
                }
                ev.nontrivial(hash_strs(&[&text]));
                Ok(())
            },
        );
    }
}

pub fn run(cx: &mut Cx) {
    cx.default_budget();
    dir_patch_docs(cx);
    for (k, _) in gd::DANGER {
        cx.ev.require(&format!("name-byte/{k}"));
    }
    for k in [
        "docs/parse-write",
        "docs/api-write-parse",
        "rcsid/unexpanded",
        "rcsid/non-utf8",
        "rcsid/trailing-blank",
        "name/dist-subdir",
        "name/non-utf8",
        "name/utf8-multibyte",
        "size/u64-max",
        "files/distfiles",
        "files/patches",
    ] {
        cx.ev.require(k);
    }

    for k in [
        "docs/large-21+files/parse-write",
        "docs/large-21+files/api-write-parse",
        "shared-tail/shorter-first",
        "shared-tail/longer-first",
        "related/one-name-prefix-of-other",
        "related/letter-case-twins",
        "related/lossy-utf8-twins",
        "clause/emul-head+patch-local-inside",
        "clause/emul-head+exception",
        "clause/patch-local-head+exception",
        "clause/other-head+clause-inside",
        "clause/upper-case-head",
        "name/long-30+bytes",
        "api/parsed-base-then-insert",
        "api/observed-midway",
        "api/set_rcsid-later",
    ] {
        cx.ev.require(k);
    }
    for s in gd::API_SHAPES {
        cx.ev.require(&format!("api-large-shape/{s}"));
    }
    // One document in `big_every` is large (21-300 files): deterministic, so
    // every shard has some.  (Under Miri: one of 22 files per shard, in the
    // parse-write direction only.)
    let big_cap = cx.pick_tier(22usize, 300, 300, 300);
    let big_every = cx.pick_tier(20u64, 40, 40, 40);

    // (a) canonical text -> from_bytes -> as_bytes
    let n = cx.per_shard(160, 20_000, 300_000, 3_000_000);
    let mut r = cx.stream("parse-write");
    for i in 0..n {
        let big = if i % big_every == big_every - 1 { Some(big_cap) } else { None };
        let m = gd::canonical_doc(&mut r, big);
        let text = render_canonical(&m);
        cx.check(
            || format!("canonical distinfo text {:?}", clip(&text)),
            |ev| parse_write(ev, &m, &text),
        );
    }

    // (b) assembled through the API -> as_bytes -> from_bytes
    let n = cx.per_shard(120, 12_000, 180_000, 1_800_000);
    let mut r = cx.stream("api-write-parse");
    for i in 0..n {
        let big = if i % big_every == big_every - 1 { Some(big_cap) } else { None };
        let d = gd::api_doc(&mut r, big);
        cx.check(
            || {
                let ins: Vec<String> = d.order.iter().map(show_file).collect();
                let start = match &d.base {
                    None => "Distinfo::new()".to_string(),
                    Some(b) => format!("Distinfo::from_bytes({:?})", clip(&render_canonical(b))),
                };
                let mut all = ins.join("; ");
                if all.len() > 6000 {
                    let mut cut = 6000;
                    while !all.is_char_boundary(cut) {
                        cut -= 1;
                    }
                    all.truncate(cut);
                    all.push_str(&format!("...[{} insertions]", d.order.len()));
                }
                format!(
                    "{start}, then insert() of [{all}], with set_rcsid {:?} (before insertion index, value), written and parsed also before insertion {:?}",
                    d.set_rcsid.as_ref().map(|(at, v)| (*at, show(v))),
                    d.probe_at
                )
            },
            |ev| api_write_parse(ev, &d),
        );
    }
}
