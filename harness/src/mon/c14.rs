//! C14 - PLIST parses to one entry per non-blank line, arguments byte for byte.
//!
//! Refuting events: the entry sequence of `Plist::from_bytes(doc)` differs
//! from the model's; a document expected to fail parses (or vice versa, or
//! fails with another error kind); an entry differs from
//! `PlistEntry::from_bytes(that line)`.
//!
//! The entry vector is private.  It is observed without a hook through
//!  (1) `Debug` of the parsed `Plist`: the text between the first '[' and the
//!      last ']' must equal `Debug` of the expected `Vec<&PlistEntry>`;
//!  (2) the public list views, as a homomorphism law that does not depend on
//!      what each view selects (that is C15's business): view(document) must
//!      be the concatenation of view(line_i parsed alone) - a dropped, merged,
//!      invented or reordered line breaks it;
//!  (3) metamorphic `Plist ==`: inserting blank lines, toggling the final
//!      newline and re-padding blank lines preserve equality; deleting,
//!      duplicating or swapping two different item lines breaks it.
//! Each line is also parsed alone with `PlistEntry::from_bytes` and compared
//! with the entry (or error kind) the generator knows it must give.
//!
//! Workloads: (A) the command table cell by cell, (B) random documents of
//! 0-12 lines, (C) short lines in every position, (D) long lines and block
//! alignment - blank-only lines of 1-400 (and up to 65537) blanks, names and
//! arguments of 60-1000 bytes behind 0-200 blanks, placed so that they start
//! at or next to a multiple of 16 ... 65536 bytes from the start of the
//! document, (E) large documents (13-600 lines, a few of 128 KiB - 2 MiB).
//! The table has a "special" class for names and arguments: a dictionary of
//! prefixes that tools treat specially (byte order marks, "./", "#", quotes,
//! "%D/", "${..}") in front of command-like text, and of suffixes (backslash,
//! "/", CR).  Such a line does not BEGIN with '@' and is a file holding all
//! its bytes.

use crate::fw::{show, CaseResult, Cx, Ev};
use crate::gen::plist::{self as gp, ErrKind, Layout, Line, Phys, Want};
use crate::oracle::plist as op;
use crate::rng::{hash_strs, Rng};
use pkgsrc::plist::{Plist, PlistEntry, PlistError};
use std::os::unix::ffi::OsStrExt;

/// Bytes rendered for messages: ASCII kept, the rest as \xNN, in quotes.
pub struct Q<'a>(pub &'a [u8]);
impl std::fmt::Debug for Q<'_> {
    fn fmt(&self, f: &mut std::fmt::Formatter<'_>) -> std::fmt::Result {
        write!(f, "\"{}\"", show(self.0))
    }
}

fn kind_name(e: &PlistError) -> &'static str {
    #[allow(unreachable_patterns)]
    match e {
        PlistError::UnsupportedCommand(_) => "UnsupportedCommand",
        PlistError::IncorrectArguments(_) => "IncorrectArguments",
        PlistError::Utf8(_) => "Utf8",
        _ => "other",
    }
}

fn want_name(k: ErrKind) -> &'static str {
    match k {
        ErrKind::Unsupported => "UnsupportedCommand",
        ErrKind::IncorrectArgs => "IncorrectArguments",
        ErrKind::Utf8 => "Utf8",
        ErrKind::Any => "any error",
    }
}

/// The statement says unknown commands and argument violations "are errors,
/// never files" - it does not say *which* error.  The variant the generator
/// would expect is therefore only recorded in the evidence histogram
/// (`errkind/<expected>/<observed>`), every error variant is accepted.
fn kind_ok(want: ErrKind, got: &PlistError) -> bool {
    let _ = (want_name(want), kind_name(got));
    true
}

/// Observation (1): the entries as `Debug` prints them, independent of the
/// struct's and the field's names.
pub fn debug_entries(p: &Plist) -> Result<String, String> {
    let s = format!("{p:?}");
    match (s.find('['), s.rfind(']')) {
        (Some(a), Some(b)) if a < b => Ok(s[a..=b].to_string()),
        _ => Err(format!("Debug output of Plist shows no entry list: {s}")),
    }
}

pub fn debug_model(es: &[&PlistEntry]) -> String {
    format!("{es:?}")
}

/// Does `Debug` of the parsed list show exactly the expected entries?  The
/// strict form (everything between the first '[' and the last ']') is tried
/// first; a `Plist` that gained further fields, or wraps its entries in
/// another container, still agrees when the expected `[e1, e2, ...]` text
/// occurs verbatim in its `Debug` output (one entry more or fewer changes
/// the text next to a bracket, so it cannot occur by accident).
pub fn debug_agrees(p: &Plist, model: &[&PlistEntry]) -> Result<(), String> {
    let m = debug_model(model);
    let d = debug_entries(p)?;
    if d == m {
        return Ok(());
    }
    let full = format!("{p:?}");
    if model.is_empty() {
        const VARIANTS: [&str; 17] = [
            "File(", "Cwd(", "Exec(", "UnExec(", "Mode(", "PkgOpt(", "Owner(", "Group(", "Comment(", "Ignore",
            "Name(", "PkgDir(", "DirRm(", "Display(", "PkgDep(", "BldDep(", "PkgCfl(",
        ];
        if full.contains("[]") && !VARIANTS.iter().any(|v| full.contains(v)) {
            return Ok(());
        }
    } else if full.contains(&m) {
        return Ok(());
    }
    Err(format!("parsed entries {d}, expected {m}"))
}

fn len_class(n: usize) -> &'static str {
    match n {
        1 => "1",
        2 => "2",
        3 => "3",
        _ => "4+",
    }
}

fn pos_class(i: usize, n: usize) -> &'static str {
    if n == 1 {
        "only"
    } else if i == 0 {
        "first"
    } else if i + 1 == n {
        "last"
    } else {
        "middle"
    }
}

/// A line parsed alone: `PlistEntry::from_bytes` must give the entry, or the
/// error kind, the generator attached to the line.
fn check_entry(ev: &mut Ev, l: &Line) -> Result<(), String> {
    ev.eval();
    let got = PlistEntry::from_bytes(&l.bytes);
    match (&got, &l.want) {
        (Ok(e), Want::Entry(w)) => {
            if op::key(e) != op::key(w) {
                return Err(format!(
                    "PlistEntry::from_bytes({:?}) = {e:?}, expected {w:?}",
                    Q(&l.bytes)
                ));
            }
            if e != w {
                return Err(format!(
                    "PlistEntry::from_bytes({:?}) = {e:?} has the expected content but `==` with {w:?} is false",
                    Q(&l.bytes)
                ));
            }
        }
        (Ok(e), Want::Err(k)) => {
            return Err(format!(
                "PlistEntry::from_bytes({:?}) = {e:?}, expected an error ({})",
                Q(&l.bytes),
                want_name(*k)
            ));
        }
        (Err(g), Want::Entry(w)) => {
            return Err(format!(
                "PlistEntry::from_bytes({:?}) failed with {} ({g}), expected {w:?}",
                Q(&l.bytes),
                kind_name(g)
            ));
        }
        (Err(g), Want::Err(k)) => {
            if !kind_ok(*k, g) {
                return Err(format!(
                    "PlistEntry::from_bytes({:?}) failed with {}, expected {}",
                    Q(&l.bytes),
                    kind_name(g),
                    want_name(*k)
                ));
            }
        }
    }
    Ok(())
}

fn is_nontrivial_line(b: &[u8]) -> bool {
    b.len() == 1 || b.iter().any(|&c| c == b' ' || c == b'\t' || c == b'@' || c >= 0x80)
}

/// Workload A: one table cell = one line, alone and as a one-line document
/// with and without the final newline.
fn check_single(ev: &mut Ev, l: &Line) -> CaseResult {
    ev.count(&format!("cell/{}/{}", l.cmd, l.arg));
    check_entry(ev, l)?;
    for nl in [false, true] {
        let mut doc = l.bytes.clone();
        if nl {
            doc.push(b'\n');
        }
        ev.eval();
        ev.count(&format!("len/{}/only/{}", len_class(l.bytes.len()), if nl { "nl" } else { "nonl" }));
        let got = Plist::from_bytes(&doc);
        match (&got, &l.want) {
            (Ok(p), Want::Entry(w)) => {
                if let Err(why) = debug_agrees(p, &[w]) {
                    return Err(format!("Plist::from_bytes({:?}): {why}", Q(&doc)).into());
                }
            }
            (Ok(p), Want::Err(k)) => {
                return Err(format!(
                    "Plist::from_bytes({:?}) = {p:?}, expected an error ({})",
                    Q(&doc),
                    want_name(*k)
                )
                .into());
            }
            (Err(g), Want::Entry(w)) => {
                return Err(format!(
                    "Plist::from_bytes({:?}) failed with {} ({g}), expected [{w:?}]",
                    Q(&doc),
                    kind_name(g)
                )
                .into());
            }
            (Err(g), Want::Err(k)) => {
                if !kind_ok(*k, g) {
                    return Err(format!(
                        "Plist::from_bytes({:?}) failed with {}, expected {}",
                        Q(&doc),
                        kind_name(g),
                        want_name(*k)
                    )
                    .into());
                }
            }
        }
    }
    if is_nontrivial_line(&l.bytes) {
        ev.nontrivial(hash_strs(&[&l.bytes]));
    }
    Ok(())
}

/// A generated document with everything the body needs, built before the
/// library is called.
struct DocCase {
    lines: Vec<Line>,
    lay: Layout,
    doc: Vec<u8>,
    same: Vec<(&'static str, Vec<u8>)>,
    differ: Vec<(&'static str, Vec<u8>)>,
}

fn build_case(r: &mut Rng, lines: Vec<Line>, lay: Layout) -> DocCase {
    let items: Vec<&[u8]> = lines.iter().map(|l| &l.bytes[..]).collect();
    let doc = gp::render(&items, &lay);
    let mut same = vec![];
    let mut differ = vec![];
    if lines.iter().all(|l| l.entry().is_some()) {
        let keys: Vec<op::Key> = lines.iter().filter_map(|l| l.entry()).map(op::key).collect();
        same.push(("blank lines inserted", gp::render(&items, &gp::insert_blanks(r, &lay))));
        same.push(("final newline toggled", gp::render(&items, &gp::toggle_final_newline(&lay))));
        same.push(("blank lines re-padded", gp::render(&items, &gp::repad_blanks(r, &lay))));
        let repadded = gp::repad_blanks(r, &lay);
        let both = gp::toggle_final_newline(&gp::insert_blanks(r, &repadded));
        same.push(("blank lines inserted and re-padded, final newline toggled", gp::render(&items, &both)));
        if let Some(l) = gp::delete_item(r, &lay) {
            differ.push(("one line deleted", gp::render(&items, &l)));
        }
        if let Some(l) = gp::duplicate_item(r, &lay) {
            differ.push(("one line duplicated", gp::render(&items, &l)));
        }
        if let Some(l) = gp::swap_items(r, &lay, &|i, j| keys[i] != keys[j]) {
            differ.push(("two different lines swapped", gp::render(&items, &l)));
        }
    }
    drop(items);
    DocCase { lines, lay, doc, same, differ }
}

fn describe(tag: &str, c: &DocCase) -> String {
    let n = c.lines.len();
    let bad = c.lines.iter().filter(|l| l.err().is_some()).count();
    if c.doc.len() > 6000 {
        // large documents: the replay file regenerates the case from its
        // index, the description only has to identify it
        return format!(
            "{tag}: {n} line(s), {bad} faulty, document of {} bytes (fingerprint {:016x}) beginning {:?} and ending {:?}",
            c.doc.len(),
            hash_strs(&[&c.doc]),
            Q(&c.doc[..1500]),
            Q(&c.doc[c.doc.len() - 400..])
        );
    }
    format!("{tag}: {n} line(s), {bad} faulty, document {:?}", Q(&c.doc))
}

fn run_class(n: usize) -> &'static str {
    match n {
        0 => "0",
        1..=15 => "1-15",
        16..=63 => "16-63",
        64..=127 => "64-127",
        128..=255 => "128-255",
        256..=1023 => "256-1023",
        1024..=4095 => "1024-4095",
        4096..=65535 => "4096-65535",
        65536..=1048575 => "64Ki-1Mi",
        _ => "1Mi+",
    }
}

fn leading_blanks(b: &[u8]) -> usize {
    b.iter().take_while(|&&c| gp::is_blank(c)).count()
}

/// The five list views plus files / install / uninstall of a `Plist`,
/// flattened to comparable keys.
struct Obs {
    lists: [Vec<Vec<u8>>; 6],
    install: Vec<op::Key>,
    uninstall: Vec<op::Key>,
}

const LIST_NAMES: [&str; 6] = ["depends", "build_depends", "conflicts", "pkgdirs", "pkgrmdirs", "files"];

fn observe(p: &Plist) -> Obs {
    let s = |v: Vec<&str>| v.into_iter().map(|x| x.as_bytes().to_vec()).collect::<Vec<_>>();
    let o = |v: Vec<&std::ffi::OsStr>| v.into_iter().map(|x| x.as_bytes().to_vec()).collect::<Vec<_>>();
    Obs {
        lists: [
            s(p.depends()),
            s(p.build_depends()),
            s(p.conflicts()),
            o(p.pkgdirs()),
            o(p.pkgrmdirs()),
            o(p.files()),
        ],
        install: op::keys(p.install_cmds()),
        uninstall: op::keys(p.uninstall_cmds()),
    }
}

fn check_doc(ev: &mut Ev, c: &DocCase) -> CaseResult {
    let n = c.lines.len();
    let nl = if gp::last_item_unterminated(&c.lay) { "nonl" } else { "nl" };
    for (i, l) in c.lines.iter().enumerate() {
        ev.count(&format!("len/{}/{}/{}", len_class(l.bytes.len()), pos_class(i, n), nl));
        ev.count(&format!("doc-cell/{}/{}", l.cmd, l.arg));
    }
    let blanks = c.lay.phys.iter().filter(|p| matches!(p, Phys::Blank(_))).count();
    let padded = c.lay.phys.iter().filter(|p| matches!(p, Phys::Blank(b) if !b.is_empty())).count();
    ev.count(&format!(
        "doc/lines/{}",
        match n {
            0 => "0",
            1..=3 => "1-3",
            4..=8 => "4-8",
            9..=12 => "9-12",
            13..=99 => "13-99",
            _ => "100+",
        }
    ));
    let longest_blank = c.lay.phys.iter().map(|p| if let Phys::Blank(b) = p { b.len() } else { 0 }).max().unwrap_or(0);
    let longest_item = c.lines.iter().map(|l| l.bytes.len()).max().unwrap_or(0);
    let longest_lead = c.lines.iter().map(|l| leading_blanks(&l.bytes)).max().unwrap_or(0);
    ev.count(&format!("doc/longest-blank-only-line/{}", run_class(longest_blank)));
    ev.count(&format!("doc/longest-entry-line/{}", run_class(longest_item)));
    ev.count(&format!("doc/most-leading-blanks/{}", run_class(longest_lead)));
    ev.count(&format!("doc/bytes/{}", run_class(c.doc.len())));
    ev.count(if blanks == 0 { "doc/blank-lines/none" } else if padded > 0 { "doc/blank-lines/padded" } else { "doc/blank-lines/empty-only" });
    ev.count(&format!("doc/last-line/{nl}"));

    let has_one = c.lines.iter().any(|l| l.bytes.len() == 1);
    let nontrivial = n >= 2 && (blanks > 0 || nl == "nonl" || has_one);

    // every line alone
    for l in &c.lines {
        check_entry(ev, l)?;
    }

    let faulty: Vec<&Line> = c.lines.iter().filter(|l| l.err().is_some()).collect();
    ev.eval();
    let got = Plist::from_bytes(&c.doc);
    if !faulty.is_empty() {
        ev.count(if faulty.len() == 1 { "doc/faulty/one" } else { "doc/faulty/several" });
        match got {
            Ok(p) => {
                return Err(format!(
                    "document with faulty line {:?} parsed: {p:?}",
                    Q(&faulty[0].bytes)
                )
                .into())
            }
            Err(g) => {
                // With several faulty lines the statement does not say which
                // error is reported: only failure is required.
                if faulty.len() == 1 {
                    let k = faulty[0].err().unwrap_or(ErrKind::Any);
                    if !kind_ok(k, &g) {
                        return Err(format!(
                            "document failed with {}, expected {} for line {:?}",
                            kind_name(&g),
                            want_name(k),
                            Q(&faulty[0].bytes)
                        )
                        .into());
                    }
                }
            }
        }
        if nontrivial {
            ev.nontrivial(hash_strs(&[&c.doc]));
        }
        return Ok(());
    }
    ev.count("doc/faulty/none");
    let model: Vec<&PlistEntry> = c.lines.iter().filter_map(|l| l.entry()).collect();
    let p = match got {
        Ok(p) => p,
        Err(g) => {
            return Err(format!(
                "document of valid lines failed with {} ({g}); expected {}",
                kind_name(&g),
                debug_model(&model)
            )
            .into())
        }
    };

    // (1) Debug
    debug_agrees(&p, &model)?;

    // (2) list views are homomorphic in the lines
    let whole = observe(&p);
    let has_ignore = model.iter().any(|e| matches!(e, PlistEntry::Ignore));
    let mut lists: [Vec<Vec<u8>>; 6] = Default::default();
    let mut install = vec![];
    let mut uninstall = vec![];
    for l in &c.lines {
        let part = match Plist::from_bytes(&l.bytes) {
            Ok(q) => observe(&q),
            Err(g) => {
                return Err(format!(
                    "line {:?} parsed inside the document but fails alone with {}",
                    Q(&l.bytes),
                    kind_name(&g)
                )
                .into())
            }
        };
        for (acc, x) in lists.iter_mut().zip(part.lists) {
            acc.extend(x);
        }
        install.extend(part.install);
        uninstall.extend(part.uninstall);
    }
    for k in 0..6 {
        if k == 5 && has_ignore {
            continue; // files() is not a per-line projection when @ignore is present
        }
        ev.eval();
        if whole.lists[k] != lists[k] {
            return Err(format!(
                "{}() of the document has {} element(s) {:?}, the lines parsed one by one give {} {:?}",
                LIST_NAMES[k],
                whole.lists[k].len(),
                whole.lists[k].iter().map(|b| Q(b)).collect::<Vec<_>>(),
                lists[k].len(),
                lists[k].iter().map(|b| Q(b)).collect::<Vec<_>>()
            )
            .into());
        }
    }
    if !has_ignore {
        ev.evals(2);
        if whole.install != install || whole.uninstall != uninstall {
            return Err(format!(
                "install_cmds()/uninstall_cmds() of the document ({} / {} entries) differ from the concatenation over its lines ({} / {})",
                whole.install.len(),
                whole.uninstall.len(),
                install.len(),
                uninstall.len()
            )
            .into());
        }
    }

    // (3) metamorphic equality
    for (what, v) in &c.same {
        ev.eval();
        ev.count("meta/preserved");
        match Plist::from_bytes(v) {
            Ok(q) => {
                if !(q == p) || q != p {
                    return Err(format!(
                        "{what}: {:?} parses to {q:?}, which is not == the original {p:?}",
                        Q(v)
                    )
                    .into());
                }
            }
            Err(g) => {
                return Err(format!("{what}: {:?} fails with {} ({g})", Q(v), kind_name(&g)).into())
            }
        }
    }
    for (what, v) in &c.differ {
        ev.eval();
        ev.count("meta/broken");
        match Plist::from_bytes(v) {
            Ok(q) => {
                if q == p {
                    return Err(format!(
                        "{what}: {:?} still parses to a Plist == the original {p:?}",
                        Q(v)
                    )
                    .into());
                }
            }
            Err(g) => {
                return Err(format!("{what}: {:?} fails with {} ({g})", Q(v), kind_name(&g)).into())
            }
        }
    }

    if nontrivial {
        ev.nontrivial(hash_strs(&[&c.doc]));
    }
    Ok(())
}

pub fn run(cx: &mut Cx) {
    cx.default_budget();
    for pos in ["only", "first", "middle", "last"] {
        for nl in ["nl", "nonl"] {
            cx.ev.require(&format!("len/1/{pos}/{nl}"));
        }
    }
    for c in gp::CMDS {
        for a in gp::classes_of(c) {
            cx.ev.require(&format!("cell/{}/{}", c.word, a));
        }
    }
    for a in gp::FILE_CLASSES {
        cx.ev.require(&format!("cell/file/{a}"));
    }
    for a in gp::UNKNOWN_NAMES {
        cx.ev.require(&format!("cell/unknown/{a}"));
    }
    for k in ["meta/preserved", "meta/broken", "doc/faulty/none", "doc/faulty/one", "doc/faulty/several"] {
        cx.ev.require(k);
    }
    for k in ["16-63", "64-127", "128-255", "256-1023"] {
        cx.ev.require(&format!("doc/longest-blank-only-line/{k}"));
        cx.ev.require(&format!("doc/longest-entry-line/{k}"));
    }
    for k in ["16-63", "64-127", "128-255"] {
        cx.ev.require(&format!("doc/most-leading-blanks/{k}"));
    }
    for a in [16, 32, 64] {
        cx.ev.require(&format!("aligned/block/{a}"));
    }
    cx.ev.require("doc/lines/13-99");
    let (shard, nshards) = (cx.shard as usize, cx.nshards as usize);

    // A. the command table, cell by cell.
    let cells = gp::table_cells() as u64;
    let n = cx.per_shard(cells, 30_000, 400_000, 3_200_000);
    let mut r = cx.stream("table");
    for k in 0..n as usize {
        let l = gp::table_line(&mut r, k * nshards + shard);
        cx.check(
            || format!("line {:?} ({} / {})", Q(&l.bytes), l.cmd, l.arg),
            |ev| check_single(ev, &l),
        );
    }

    // B. random documents of 0-12 lines.
    let n = cx.per_shard(64, 20_000, 320_000, 2_400_000);
    let mut r = cx.stream("documents");
    for _ in 0..n {
        let nlines = if r.chance(1, 12) { 0 } else { r.range(1, 12) };
        // 0: all valid (most), 1: exactly one faulty line, 2: several
        let mode = match r.below(10) {
            0..=6 => 0,
            7 | 8 => 1,
            _ => 2,
        };
        let mut lines: Vec<Line> = (0..nlines).map(|_| gp::valid_line(&mut r)).collect();
        if nlines > 0 && mode >= 1 {
            let k = if mode == 1 { 1 } else { r.range(2, 3).min(nlines) };
            let mut at: Vec<usize> = (0..nlines).collect();
            r.shuffle(&mut at);
            for &i in at.iter().take(k) {
                lines[i] = gp::faulty_line(&mut r);
            }
        }
        let density = r.below(6);
        let lay = gp::layout(&mut r, lines.len(), density);
        let c = build_case(&mut r, lines, lay);
        cx.check(|| describe("random document", &c), |ev| check_doc(ev, &c));
    }

    // C. short lines (1-3 characters, and the lone '@') in every position,
    //    with and without the final newline.
    let n = cx.per_shard(48, 5_000, 64_000, 480_000);
    let mut r = cx.stream("short-lines");
    for k in 0..n as usize {
        let g = k * nshards + shard;
        let pos = ["only", "first", "middle", "last"][g % 4];
        let unterminated = (g / 4) % 2 == 1;
        let what = (g / 8) % 4;
        let short: Line = match what {
            0 | 1 => gp::file_line(&mut r, 0), // one character
            2 => {
                let fi = r.range(1, 2); // two or three characters
                gp::file_line(&mut r, fi)
            }
            _ => gp::unknown_line(&mut r, 1, 0), // "@": an error, never a file and never dropped
        };
        let others = match pos {
            "only" => 0,
            "middle" => r.range(2, 5),
            _ => r.range(1, 4),
        };
        let mut lines: Vec<Line> = (0..others)
            .map(|_| if r.chance(1, 4) { gp::file_line(&mut r, 0) } else { gp::valid_line(&mut r) })
            .collect();
        let at = match pos {
            "only" | "first" => 0,
            "last" => lines.len(),
            _ => r.range(1, lines.len() - 1),
        };
        lines.insert(at, short);
        let density = r.below(4);
        let mut lay = gp::layout(&mut r, lines.len(), density);
        if unterminated {
            while matches!(lay.phys.last(), Some(Phys::Blank(_))) {
                lay.phys.pop();
            }
            lay.final_nl = false;
        } else if matches!(lay.phys.last(), Some(Phys::Item(_))) {
            lay.final_nl = true;
        }
        let c = build_case(&mut r, lines, lay);
        cx.check(|| describe(&format!("short line in position '{pos}'"), &c), |ev| check_doc(ev, &c));
    }
    // D. long lines and block alignment: 1-3 stress lines (blank-only lines
    //    of 1-400 and more blanks, names and arguments of 60-1000 bytes behind
    //    0-200 blanks, a single byte in a run of blanks, commands whose
    //    argument is blanks only) that start at, or next to, a multiple of
    //    16 ... 65536 bytes from the start of the document.
    let cap = cx.pick_tier(600usize, 70_000, 70_000, 70_000);
    let n = cx.per_shard(48, 3_000, 48_000, 400_000);
    let mut r = cx.stream("aligned");
    for _ in 0..n {
        let (lines, lay, used) = gp::aligned_document(&mut r, cap);
        let c = build_case(&mut r, lines, lay);
        cx.check(
            || describe(&format!("stress lines at multiples of {used:?} bytes"), &c),
            |ev| {
                for a in &used {
                    ev.count(&format!("aligned/block/{a}"));
                }
                check_doc(ev, &c)
            },
        );
    }

    // D'. the line-count sweep: documents of exactly n non-blank lines for
    //    every n up to 700 (thorough 2 100), with and without the final newline
    //    (a reader that collects lines in batches has its seam at one count,
    //    and the unterminated last line takes another path than the rest)
    {
        let top = cx.pick_tier(40usize, 300, 700, 2_100);
        let mut r = cx.stream("line-count-sweep");
        for n in 1..=top {
            for unterminated in [false, true] {
                let lines: Vec<Line> = (0..n).map(|_| if r.chance(1, 3) { gp::valid_line(&mut r) } else { gp::file_line(&mut r, 3) }).collect();
                if !cx.mine((2 * n + unterminated as usize) as u64) {
                    continue;
                }
                let mut lay = gp::layout(&mut r, lines.len(), 0);
                lay.final_nl = !unterminated;
                let c = build_case(&mut r, lines, lay);
                cx.check(
                    || describe(&format!("{n} lines, last one {}", if unterminated { "unterminated" } else { "terminated" }), &c),
                    |ev| {
                        ev.count("workload/line-count-sweep");
                        check_doc(ev, &c)
                    },
                );
            }
        }
    }
    // D''. total length on a block boundary: the document is padded (in its
    //    last file name, unterminated) to exactly k x 256 / 512 / 1024 / 4096
    //    bytes, the padding being NUL bytes, blanks inside the name, or letters
    //    (a reader that treats its input as blocks - tar padding, a C string -
    //    shortens exactly such an input)
    {
        let per = cx.pick_tier(2usize, 24, 96, 400);
        let mut r = cx.stream("block-length");
        for k in 0..per {
            let block = [256usize, 512, 512, 1024, 4096][k % 5];
            let pad = [0u8, 0, b'x', b'~', 0x7f][(k / 5) % 5];
            let mut lines: Vec<Line> = (0..r.range(1, 12)).map(|_| if r.chance(1, 3) { gp::valid_line(&mut r) } else { gp::file_line(&mut r, 3) }).collect();
            let used: usize = lines.iter().map(|l| l.bytes.len() + 1).sum();
            let stem = b"share/f".to_vec();
            let total = (used + stem.len() + 1).div_ceil(block) * block;
            let mut last = stem;
            last.resize(total - used, pad);
            lines.push(gp::file_line_from(last));
            let mut lay = gp::layout(&mut r, lines.len(), 0);
            lay.final_nl = false;
            let c = build_case(&mut r, lines, lay);
            cx.check(
                || describe(&format!("document of exactly {total} bytes ending in padding byte {pad:#04x}"), &c),
                |ev| {
                    ev.count("workload/block-length");
                    check_doc(ev, &c)
                },
            );
        }
    }

    // E. large documents: tens to hundreds of lines.
    let (lo, hi) = cx.pick_tier((13usize, 40usize), (13, 300), (13, 600), (13, 800));
    let n = cx.per_shard(8, 200, 1_600, 12_000);
    let mut r = cx.stream("large");
    for _ in 0..n {
        let nlines = if r.chance(1, 2) { r.range(lo, hi.min(99)) } else { r.range(lo, hi) };
        let (lines, lay) = gp::large_document(&mut r, nlines, cap);
        let c = build_case(&mut r, lines, lay);
        cx.check(|| describe("large document", &c), |ev| check_doc(ev, &c));
    }
    //    ... and a few of 128 KiB to 2 MiB (very many lines / very long lines).
    let (lo, hi) = cx.pick_tier((0usize, 0usize), (100_000, 200_000), (128 << 10, 2 << 20), (128 << 10, 4 << 20));
    let n = cx.per_shard(0, 16, 16, 96);
    let mut r = cx.stream("huge");
    for _ in 0..n {
        let target = r.range(lo, hi);
        let (lines, lay) = gp::huge_document(&mut r, target);
        let c = build_case(&mut r, lines, lay);
        cx.check(|| describe("huge document", &c), |ev| check_doc(ev, &c));
    }
}
