//! C05 - glob and plain patterns: whole-name match, right dispatch, inert
//! fast-reject.

use crate::corpus;
use crate::fw::{CaseResult, Cx, Ev, Tier};
use crate::oracle::pattern::{self as opat, GTok, GlobParse};
use crate::rng::{hash_strs, Rng};
use pkgsrc::{Dewey, Pattern};

const LIT: [char; 30] = [
    'a', 'b', 'c', 'f', 'o', 'p', 'x', 'y', 'z', 'A', 'B', 'F', 'Z', '0', '1', '2', '9', '-', '-', '.', '_',
    '+', 'é', 'ß', '€', '/', ':', '~', ' ', ',',
];

#[derive(Clone, Debug)]
enum Tok {
    Lit(char),
    Star,
    Any,
    Set(bool, Vec<(char, char)>),
    CloseBracket,
}

fn gen_set(r: &mut Rng) -> Tok {
    let neg = r.chance(1, 3);
    let mut items = vec![];
    for _ in 0..r.range(1, 3) {
        match r.below(5) {
            0 => items.push(('0', '9')),
            1 => items.push(('a', 'z')),
            2 => items.push(('A', 'F')),
            3 => {
                let a = (b'a' + r.below(20) as u8) as char;
                let b = ((a as u8) + r.below(5) as u8) as char;
                items.push((a, b));
            }
            _ => {
                let c = *r.pick(&['a', 'b', 'x', '0', '1', '.', '_', 'Z', 'é']);
                items.push((c, c));
            }
        }
    }
    // ranges whose end points are punctuation, '-' itself included (`[--9]`,
    // `[+--]`, `[!-/]`): the characters strictly inside belong to the set
    if r.chance(1, 6) {
        let (a, b) = *r.pick(&[('-', '9'), ('-', '.'), ('-', '/'), ('+', '-'), (',', '-'), ('+', '.'), ('!', '/'), (' ', '~'), ('-', 'z'), ('#', '-'), ('-', '-'), ('.', '9'), ('^', 'a'), ('Z', 'a')]);
        if r.chance(1, 2) {
            items.insert(0, (a, b));
        } else {
            items.push((a, b));
        }
    }
    // '-' as the first or the last member is a literal (`[-a]`, `[a-]`)
    if r.chance(1, 10) {
        if r.chance(1, 2) {
            items.insert(0, ('-', '-'));
        } else {
            items.push(('-', '-'));
        }
    }
    // ']' as the first member of a set is a literal (`[]a]`, `[!]a]`)
    if r.chance(1, 8) {
        items.insert(0, (']', ']'));
    }
    Tok::Set(neg, items)
}

fn gen_tokens(r: &mut Rng, glob: bool) -> Vec<Tok> {
    let n = match r.below(40) {
        0..=4 => 1,
        5..=9 => 2,
        10 => *r.pick(&[15usize, 16, 17, 31, 32, 33, 63, 64, 65, 130]), // long patterns / names
        _ => r.range(2, 6),
    };
    let mut t = vec![];
    for _ in 0..n {
        let k = if glob { r.below(12) } else { 0 };
        t.push(match k {
            0..=6 => Tok::Lit(*r.pick(&LIT)),
            7 | 8 => Tok::Star,
            9 => Tok::Any,
            10 => gen_set(r),
            _ => {
                if r.chance(1, 4) {
                    Tok::CloseBracket
                } else {
                    gen_set(r)
                }
            }
        });
    }
    // no adjacent stars ("**" is outside the subset)
    let mut out: Vec<Tok> = vec![];
    for x in t {
        if matches!(x, Tok::Star) && matches!(out.last(), Some(Tok::Star)) {
            continue;
        }
        out.push(x);
    }
    out
}

fn render(t: &[Tok]) -> String {
    let mut s = String::new();
    for x in t {
        match x {
            Tok::Lit(c) => s.push(*c),
            Tok::Star => s.push('*'),
            Tok::Any => s.push('?'),
            Tok::CloseBracket => s.push(']'),
            Tok::Set(neg, items) => {
                s.push('[');
                if *neg {
                    s.push('!');
                }
                for (a, b) in items {
                    if a == b {
                        s.push(*a);
                    } else {
                        s.push(*a);
                        s.push('-');
                        s.push(*b);
                    }
                }
                s.push(']');
            }
        }
    }
    s
}

fn any_char(r: &mut Rng) -> char {
    *r.pick(&['a', 'b', 'q', 'Z', '0', '5', '-', '.', 'é', '€', 'x'])
}

/// A name from the pattern's language.
fn sample(r: &mut Rng, t: &[Tok]) -> String {
    let mut s = String::new();
    for x in t {
        match x {
            Tok::Lit(c) => s.push(*c),
            Tok::CloseBracket => s.push(']'),
            Tok::Any => s.push(any_char(r)),
            Tok::Star => {
                for _ in 0..r.below(4) {
                    s.push(any_char(r));
                }
            }
            Tok::Set(neg, items) => {
                if *neg {
                    // try a few characters outside the set
                    let mut c = '#';
                    for _ in 0..8 {
                        let k = any_char(r);
                        if !items.iter().any(|(a, b)| *a <= k && k <= *b) {
                            c = k;
                            break;
                        }
                    }
                    s.push(c);
                } else {
                    let (a, b) = *r.pick(items);
                    let span = (b as u32 - a as u32) as usize;
                    s.push(char::from_u32(a as u32 + r.below(span + 1) as u32).unwrap_or(a));
                }
            }
        }
    }
    s
}

/// A name from the language of a parsed (reference) glob, so that real
/// pkgsrc patterns are also tried on names in which '*' spans '-', '.' and
/// non-ASCII characters.
fn sample_ref(r: &mut Rng, toks: &[GTok]) -> String {
    let mut s = String::new();
    for t in toks {
        match t {
            GTok::Lit(c) => s.push(*c),
            GTok::Any => s.push(any_char(r)),
            GTok::Star => {
                for _ in 0..r.below(5) {
                    s.push(any_char(r));
                }
            }
            GTok::Set { neg, items } => {
                if *neg {
                    let mut c = '#';
                    for _ in 0..8 {
                        let k = any_char(r);
                        if !items.iter().any(|(a, b)| *a <= k && k <= *b) {
                            c = k;
                            break;
                        }
                    }
                    s.push(c);
                } else {
                    let (a, b) = *r.pick(items);
                    let span = (b as u32 - a as u32) as usize;
                    s.push(char::from_u32(a as u32 + r.below(span + 1) as u32).unwrap_or(a));
                }
            }
        }
    }
    s
}

fn flip(c: char) -> char {
    if c.is_ascii_lowercase() {
        c.to_ascii_uppercase()
    } else if c.is_ascii_uppercase() {
        c.to_ascii_lowercase()
    } else if c == 'é' {
        'É'
    } else {
        'q'
    }
}

/// A non-ASCII character of the same Unicode category as the ASCII one.
pub fn confusable(r: &mut Rng, c: char) -> char {
    if c.is_ascii_digit() {
        // Arabic-Indic, fullwidth, superscript, vulgar fraction, Roman numeral, Devanagari, NKo
        // (the last one: a letter whose low byte is the digit itself)
        *r.pick(&['\u{0663}', '\u{ff11}', '\u{00b2}', '\u{00bd}', '\u{2167}', '\u{0966}', '\u{07c1}', char::from_u32(0x0100 + c as u32).unwrap_or('\u{0131}')])
    } else if c.is_ascii_uppercase() {
        // fullwidth A, Cyrillic A, Kelvin sign, Greek Alpha, dotted capital I
        *r.pick(&['\u{ff21}', '\u{0410}', '\u{212a}', '\u{0391}', '\u{0130}', char::from_u32(0x0100 + c as u32).unwrap_or('\u{0141}')])
    } else {
        // Cyrillic a, fullwidth a, dotless i, long s, sharp s, Greek omicron
        *r.pick(&['\u{0430}', '\u{ff41}', '\u{0131}', '\u{017f}', '\u{00df}', '\u{03bf}', char::from_u32(0x0100 + c as u32).unwrap_or('\u{0161}')])
    }
}

/// Mutations aimed at where the shortcut looks (positions 0, 1) and at
/// whole-name matching (prefix/suffix/substring confusion).
fn mutations(r: &mut Rng, name: &str) -> Vec<(String, &'static str)> {
    let c: Vec<char> = name.chars().collect();
    let mut out: Vec<(String, &'static str)> = vec![];
    let put = |v: Vec<char>, tag: &'static str, out: &mut Vec<(String, &'static str)>| {
        out.push((v.into_iter().collect(), tag));
    };
    if !c.is_empty() {
        let mut v = c.clone();
        v[0] = flip(v[0]);
        put(v, "pos0", &mut out);
        let mut v = c.clone();
        v[0] = any_char(r);
        put(v, "pos0", &mut out);
        put(c[1..].to_vec(), "drop-first", &mut out);
        put(c[..c.len() - 1].to_vec(), "drop-last", &mut out);
        let mut v = c.clone();
        let l = v.len() - 1;
        v[l] = flip(v[l]);
        put(v, "last", &mut out);
    }
    if c.len() >= 2 {
        let mut v = c.clone();
        v[1] = flip(v[1]);
        put(v, "pos1", &mut out);
        let mut v = c.clone();
        v[1] = any_char(r);
        put(v, "pos1", &mut out);
        let mut v = c.clone();
        v.swap(0, 1);
        put(v, "swap01", &mut out);
        let i = r.below(c.len());
        let mut v = c.clone();
        v.remove(i);
        put(v, "drop-one", &mut out);
    }
    if !c.is_empty() {
        // a leading / trailing piece of the name repeated ("tcltcl-8.6" for
        // "tcl-8.6"), and the whole name twice
        let n = r.range(1, c.len());
        let mut v = c[..n].to_vec();
        v.extend_from_slice(&c);
        put(v, "repeat-head", &mut out);
        let dash = c.iter().position(|x| *x == '-').unwrap_or(c.len());
        if dash > 0 {
            let mut v = c[..dash].to_vec();
            v.extend_from_slice(&c);
            put(v, "repeat-head", &mut out);
        }
        let mut v = c.clone();
        v.extend_from_slice(&c[c.len() - n.min(c.len())..]);
        put(v, "repeat-tail", &mut out);
        let mut v = c.clone();
        v.extend_from_slice(&c);
        put(v, "repeat-all", &mut out);
    }
    let mut v = c.clone();
    v.push(any_char(r));
    put(v, "append", &mut out);
    let mut v = c.clone();
    v.insert(0, any_char(r));
    put(v, "prepend", &mut out);
    // a Unicode look-alike in place of an ASCII digit / letter (code that
    // classifies with char::is_numeric / is_alphabetic / to_lowercase
    // instead of the byte ranges a set names would accept it)
    let idx: Vec<usize> = (0..c.len()).filter(|&i| c[i].is_ascii_alphanumeric()).collect();
    if !idx.is_empty() {
        for _ in 0..2 {
            let i = idx[r.below(idx.len())];
            let mut v = c.clone();
            v[i] = confusable(r, c[i]);
            put(v, "confusable", &mut out);
        }
    }
    put(c.iter().map(|x| flip(*x)).collect(), "case-all", &mut out);
    put(c.iter().take(1).cloned().collect(), "len1", &mut out);
    put(vec![], "empty", &mut out);
    out
}

/// Tokens that code sometimes special-cases (package file suffixes, backup
/// suffixes, path prefixes, a byte order mark): appended / prepended to
/// patterns and names so that such a special case cannot hide.
const DICT: [&str; 20] = [
    ".tgz", ".tbz", ".txz", ".tzst", ".tar.gz", ".orig", ".rej", "~", "./", "\u{feff}", ".pkg", "/", "nb1", "-1.0",
    // what the dewey matcher treats as "nothing" is something to a plain or glob pattern
    "nb0", ".0", "pl", "_", "nb", "NB0",
];

/// Literals of the library's pattern / name code (no braces or comparison
/// operators: those would change the kind of pattern under test).
fn pattern_literals() -> &'static [&'static str] {
    static L: std::sync::OnceLock<Vec<&'static str>> = std::sync::OnceLock::new();
    L.get_or_init(|| {
        crate::corpus::literal_strs(&["pattern", "pkgname", "dewey", "depend"])
            .into_iter()
            .filter(|s| s.len() <= 16 && !s.contains(|c| matches!(c, '{' | '}' | '<' | '>' | '\n')))
            .collect()
    })
}

fn simple_char(c: char) -> bool {
    c.is_ascii_alphanumeric() || c == '-'
}

fn check_glob_or_plain(ev: &mut Ev, p: &str, names: &[(String, &'static str)]) -> CaseResult {
    let is_glob = opat::has_glob_meta(p);
    let got = Pattern::new(p);
    ev.eval();
    let pc: Vec<char> = p.chars().collect();
    let fast = pc.len() >= 2 && simple_char(pc[0]) && simple_char(pc[1]);
    if !is_glob {
        ev.count("dispatch/plain");
        let pat = got.map_err(|e| format!("Pattern::new({p:?}) failed on a plain string: {e}"))?;
        for (n, tag) in names {
            let g = pat.matches(n);
            ev.eval();
            ev.count(&format!("plain/{tag}/{}", g));
            if g != (n == p) {
                return Err(format!("plain pattern {p:?} on {n:?} ({tag}): observed {g}, expected {}", n == p).into());
            }
        }
        if fast {
            ev.count("fastpath-eligible/plain");
        }
        ev.nontrivial(hash_strs(&[p.as_bytes(), b"plain"]));
        return Ok(());
    }
    match opat::parse_glob(p) {
        GlobParse::OutOfSubset => {
            ev.count("dispatch/glob-out-of-subset-skipped");
            Ok(())
        }
        GlobParse::Unclosed => {
            ev.count("dispatch/glob-unclosed");
            // "a malformed glob is reported when compiled": any error will do
            match got {
                Err(pkgsrc::PatternError::Glob(_)) => {
                    ev.count("unclosed/reported-as-glob-error");
                    Ok(())
                }
                Err(_) => {
                    ev.count("unclosed/reported-as-other-error");
                    Ok(())
                }
                Ok(_) => Err(format!("Pattern::new({p:?}) accepted an unclosed '['").into()),
            }
        }
        GlobParse::Ok(toks) => {
            ev.count("dispatch/glob");
            let pat = got.map_err(|e| format!("Pattern::new({p:?}) rejected a well-formed glob: {e}"))?;
            // independent partner without any fast path
            let partner = glob::Pattern::new(p).map_err(|e| format!("harness: glob crate rejects in-subset pattern {p:?}: {e}"))?;
            if fast {
                ev.count("fastpath-eligible/glob");
            }
            for (n, tag) in names {
                let nc: Vec<char> = n.chars().collect();
                if nc.first() == Some(&'.') {
                    continue; // leading '.' is outside the stated subset
                }
                let want = opat::glob_match(&toks, &nc);
                let g = pat.matches(n);
                ev.evals(2);
                ev.count(&format!("glob/{tag}/{}", want));
                if partner.matches(n) != want {
                    return Err(format!("harness: reference matcher and glob crate disagree on {p:?} / {n:?} (reference {want})").into());
                }
                if g != want {
                    return Err(format!("glob {p:?} on {n:?} ({tag}): observed {g}, shell-glob semantics say {want}").into());
                }
            }
            let _ = toks.iter().filter(|t| matches!(t, GTok::Star)).count();
            ev.nontrivial(hash_strs(&[p.as_bytes(), b"glob"]));
            Ok(())
        }
    }
}

/// Fast-reject inertness for comparison patterns: partner = Dewey::matches,
/// which has no shortcut.
fn check_dewey_fast(ev: &mut Ev, p: &str, names: &[(String, &'static str)]) -> CaseResult {
    let pat = Pattern::new(p).map_err(|e| format!("Pattern::new({p:?}) failed: {e}"))?;
    let dew = Dewey::new(p).map_err(|e| format!("Dewey::new({p:?}) failed: {e}"))?;
    ev.count("dispatch/dewey");
    for (n, tag) in names {
        let (a, b) = (pat.matches(n), dew.matches(n));
        ev.eval();
        ev.count(&format!("dewey/{tag}/{b}"));
        if a != b {
            return Err(format!("comparison pattern {p:?} on {n:?} ({tag}): Pattern says {a}, shortcut-free Dewey says {b}").into());
        }
    }
    Ok(())
}

/// Fast-reject inertness for alternations: partner = union of expansions.
fn check_alt_fast(ev: &mut Ev, p: &str, names: &[(String, &'static str)]) -> CaseResult {
    let pat = Pattern::new(p).map_err(|e| format!("Pattern::new({p:?}) failed: {e}"))?;
    let exps: Vec<Pattern> = opat::expand(p).iter().filter_map(|e| Pattern::new(e).ok()).collect();
    ev.count("dispatch/alternate");
    for (n, tag) in names {
        let a = pat.matches(n);
        let b = exps.iter().any(|e| e.matches(n));
        ev.eval();
        ev.count(&format!("alternate/{tag}/{b}"));
        if a != b {
            return Err(format!("alternation {p:?} on {n:?} ({tag}): observed {a}, union of expansions {b}").into());
        }
    }
    Ok(())
}

pub fn run(cx: &mut Cx) {
    cx.default_budget();
    for k in [
        "dispatch/plain", "dispatch/glob", "dispatch/glob-unclosed", "dispatch/dewey", "dispatch/alternate",
        "glob/lang/true", "glob/pos0/false", "glob/pos1/false", "glob/append/false", "glob/prepend/false",
        "glob/drop-last/false", "glob/empty/false", "glob/len1/false", "plain/lang/true", "plain/pos0/false",
        "plain/pos1/false", "plain/case-all/false", "fastpath-eligible/glob", "fastpath-eligible/plain",
        "dewey/pos0/false", "dewey/pos1/false", "dewey/lang/true", "alternate/pos0/false", "alternate/lang/true",
    ] {
        cx.ev.require(k);
    }
    cx.ev.require("glob/confusable/false");
    cx.ev.require("glob/repeat-head/false");
    cx.ev.require("glob/set-sweep/true");
    cx.ev.require("glob/set-sweep/false");
    cx.ev.require("workload/alternation-of-globs");
    if matches!(cx.tier, Tier::Quick | Tier::Thorough) {
        cx.ev.require("workload/hash-collisions");
    }
    let n = cx.per_shard(60, 8_000, 480_000, 2_400_000);
    let mut r = cx.stream("tokens");
    for _ in 0..n {
        let glob = r.chance(3, 4);
        let mut toks = gen_tokens(&mut r, glob);
        let lits = pattern_literals();
        if r.chance(1, 8) {
            let d = if !lits.is_empty() && r.chance(1, 3) { lits[r.below(lits.len())] } else { DICT[r.below(DICT.len())] };
            if r.chance(1, 4) {
                for (i, c) in d.chars().enumerate() {
                    toks.insert(i, Tok::Lit(c));
                }
            } else {
                toks.extend(d.chars().map(Tok::Lit));
            }
        }
        let mut p = render(&toks);
        // occasionally break a bracket to get the malformed-glob class
        if glob && r.chance(1, 25) {
            if let Some(i) = p.rfind(']') {
                p.truncate(i);
            }
        }
        if p.contains(|c| matches!(c, '{' | '}' | '<' | '>')) {
            continue;
        }
        let mut names: Vec<(String, &'static str)> = vec![];
        for _ in 0..2 {
            let nm = sample(&mut r, &toks);
            names.extend(mutations(&mut r, &nm));
            if r.chance(1, 3) {
                let d = if !lits.is_empty() && r.chance(1, 3) { lits[r.below(lits.len())] } else { DICT[r.below(DICT.len())] };
                names.push((format!("{nm}{d}"), "dict-suffix"));
                names.push((format!("{d}{nm}"), "dict-prefix"));
                if let Some(st) = nm.strip_suffix(d) {
                    names.push((st.to_string(), "dict-stripped"));
                }
            }
            names.push((nm, "lang"));
        }
        // one set position swept over every printable ASCII character (and two
        // others): membership is decided per character, so a set read by a
        // second, hand-written parser shows at exactly the characters it
        // classifies differently
        if r.chance(1, 6) {
            if let Some(si) = toks.iter().position(|t| matches!(t, Tok::Set(..))) {
                let pre = sample(&mut r, &toks[..si]);
                let post = sample(&mut r, &toks[si + 1..]);
                for c in (0x20u8..0x7f).map(|b| b as char).chain(['é', '€']) {
                    names.push((format!("{pre}{c}{post}"), "set-sweep"));
                }
            }
        }
        // the pattern's own text as a name: matches a plain pattern, and a glob
        // only if the text happens to be in its own language
        names.push((p.clone(), "pattern-text"));
        cx.check(
            || format!("pattern {p:?} x {} names, e.g. {:?}", names.len(), names.iter().rev().take(4).map(|n| &n.0).collect::<Vec<_>>()),
            |ev| check_glob_or_plain(ev, &p, &names),
        );
    }

    // Glob patterns that collide under common fast hash functions (a cache of
    // compiled patterns that trusts a hash instead of comparing the text): the
    // first, the second, the first again, each against names of both.
    if matches!(cx.tier, Tier::Quick | Tier::Thorough) && cx.mine(5) {
        let base = |i: usize| -> String {
            // ten characters from a scrambled index: enough variation for the
            // hashes to behave randomly on the candidates
            let mut s = String::new();
            let mut v = crate::rng::Rng::new(i as u64).next();
            for _ in 0..10 {
                s.push(b"abcdefghijklmnopqrstuvwxyz012345"[(v % 32) as usize] as char);
                v /= 32;
            }
            s
        };
        let make = |i: usize| format!("py-{}-[0-9]*", base(i));
        let found = crate::gen::collide::pairs(6_000_000, 6, &make);
        cx.ev.add("hash-collisions/pairs", found.len() as u64);
        for (proj, _, _) in &found {
            cx.ev.count(&format!("hash-collisions/{proj}"));
        }
        for (proj, a, b) in &found {
            let name_of = |p: &str| p.replace("[0-9]*", "1.0");
            let names: Vec<(String, &'static str)> = vec![(name_of(a), "lang"), (name_of(b), "lang"), (format!("{}nb1", name_of(a)), "lang")];
            for p in [a, b, a] {
                cx.check(
                    || format!("globs colliding under {proj}: pattern {p:?} (pair {a:?} / {b:?})"),
                    |ev| {
                        ev.count("workload/hash-collisions");
                        check_glob_or_plain(ev, p, &names)
                    },
                );
            }
        }
    }

    // The length ladder: literal runs and runs of one-character tokens of
    // 2^8 and 2^16 characters, one less and one more (and 2^17 + 1) - a length
    // or a count kept in a u8 / u16 wraps or saturates exactly there.
    if matches!(cx.tier, Tier::Quick | Tier::Thorough) {
        cx.set_budget(1 << 28, 1 << 36);
        let mut ladder_i = 0u64;
        for n in [255usize, 256, 257, 65_535, 65_536, 65_537, 131_073] {
            ladder_i += 1;
            if !cx.mine(ladder_i) {
                continue;
            }
            let lit: String = (0..n).map(|i| (b'a' + (i % 23) as u8) as char).collect();
            let cut = n % 65_536;
            let mut late = lit.clone().into_bytes();
            late[n - 1] = b'Z';
            let late = String::from_utf8(late).unwrap_or_default();
            let shapes: Vec<(String, Vec<String>)> = vec![
                // literal run then '*'
                (format!("{lit}*"), vec![format!("{lit}-1.0"), lit.clone(), lit[..n - 1].to_string(), late.clone(), format!("{}Z", &lit[..cut.min(n - 1)]), lit[..cut].to_string(), format!("x{lit}")]),
                // '*' then the literal run
                (format!("*{lit}"), vec![format!("p-{lit}"), lit.clone(), lit[1..].to_string(), late.clone()]),
                // n one-character wildcards
                (format!("{}-[0-9]", "?".repeat(n)), vec![format!("{lit}-1"), format!("{}-1", &lit[..n - 1]), format!("{lit}a-1"), format!("{lit}-x")]),
                // n sets
                (format!("{}!", "[a-w]".repeat(n)), vec![format!("{lit}!"), format!("{}!", &lit[..n - 1]), format!("{late}!"), format!("{lit}a!")]),
                // a plain pattern of that length
                (lit.clone(), vec![lit.clone(), late.clone(), lit[..n - 1].to_string(), format!("{lit}a")]),
            ];
            for (p, names) in shapes {
                let names: Vec<(String, &'static str)> = names.into_iter().map(|s| (s, "ladder")).collect();
                cx.check(
                    || format!("length ladder n={n}: pattern of {} characters starting {:?} x {} names", p.chars().count(), p.chars().take(12).collect::<String>(), names.len()),
                    |ev| {
                        ev.count("workload/length-ladder");
                        check_glob_or_plain(ev, &p, &names)
                    },
                );
            }
        }
        cx.default_budget();
    }

    // Fast-reject inertness for the other two kinds.
    let n = cx.per_shard(20, 2_000, 96_000, 480_000);
    let mut r = cx.stream("fastpath-other-kinds");
    for _ in 0..n {
        let base: String = (0..r.range(1, 4)).map(|_| *r.pick(&['a', 'b', 'p', 'y', '3', '-', 'Z', 'é', '.'])).collect();
        let ver = format!("{}.{}", r.below(3), r.below(3));
        let good = format!("{base}-{ver}");
        if r.chance(1, 2) {
            let p = format!("{base}{}{}", r.pick(&[">=", ">", "<=", "<"]), r.below(3));
            let mut names = mutations(&mut r, &good);
            names.push((good, "lang"));
            cx.check(|| format!("comparison pattern {p:?} vs Dewey on {} names", names.len()), |ev| check_dewey_fast(ev, &p, &names));
        } else {
            let other: String = (0..r.range(0, 3)).map(|_| *r.pick(&['a', 'b', 'q', '1', '-'])).collect();
            if r.chance(1, 3) {
                // a leading group whose alternatives are globs of their own (2-3 of
                // them, the later ones often sharing the first character of the
                // first, any of them possibly empty - also the last), then a tail;
                // names from the language of every alternative
                let nalt = r.range(2, 3);
                let mut alts: Vec<Vec<Tok>> = vec![];
                for k in 0..nalt {
                    let mut t: Vec<Tok> = if r.chance(1, 6) { vec![] } else { gen_tokens(&mut r, true) };
                    t.truncate(5);
                    if k > 0 && !alts[0].is_empty() && r.chance(1, 2) {
                        if t.is_empty() {
                            t.push(alts[0][0].clone());
                        } else {
                            t[0] = alts[0][0].clone();
                        }
                    }
                    alts.push(t);
                }
                let (tail, tail_name) = *r.pick(&[("-[0-9]*", "-1.0"), ("", ""), ("-1.0", "-1.0"), ("foo-[0-9]*", "foo-2"), ("x", "x")]);
                let texts: Vec<String> = alts.iter().map(|t| render(t)).collect();
                let p = format!("{{{}}}{tail}", texts.join(","));
                if p.contains("{}") || texts.iter().any(|t| t.contains(|c| matches!(c, '{' | '}' | ',' | '<' | '>'))) || texts.iter().all(|t| t.is_empty()) {
                    continue;
                }
                if !texts.iter().all(|t| t.is_empty() || matches!(opat::parse_glob(t), GlobParse::Ok(_)) || !opat::has_glob_meta(t)) {
                    continue;
                }
                let mut names: Vec<(String, &'static str)> = vec![];
                for t in &alts {
                    let nm = format!("{}{tail_name}", sample(&mut r, t));
                    names.extend(mutations(&mut r, &nm));
                    names.push((nm, "lang"));
                }
                names.push((tail_name.to_string(), "lang"));
                cx.check(
                    || format!("alternation of globs {p:?} vs expansions on {} names, e.g. {:?}", names.len(), names.iter().rev().take(3).map(|n| &n.0).collect::<Vec<_>>()),
                    |ev| {
                        ev.count("workload/alternation-of-globs");
                        check_alt_fast(ev, &p, &names)
                    },
                );
                continue;
            }
            let p = match r.below(4) {
                0 => format!("{{{base},{other}}}-[0-9]*"),
                1 => format!("{base}{{{other},}}-[0-9]*"),
                2 => {
                    let c: Vec<char> = base.chars().collect();
                    format!("{}{{{},{other}}}-{ver}", c[0], c[1..].iter().collect::<String>())
                }
                _ => format!("{base}-{ver}{{,nb[0-9]*}}"),
            };
            if p.contains("{}") {
                continue;
            }
            let mut names = mutations(&mut r, &good);
            names.push((format!("{good}nb1"), "lang"));
            names.push((good, "lang"));
            cx.check(|| format!("alternation {p:?} vs expansions on {} names", names.len()), |ev| check_alt_fast(ev, &p, &names));
        }
    }

    // Exhaustive small scope: every pattern of length <= 4 (quick) / 5
    // (thorough) over a b * ? [ ] ! - against every name of length <= 3
    // over a b - (patterns outside the subset are skipped inside the body).
    if cx.tier != Tier::Mini {
        let maxlen = cx.pick_tier(2usize, 3, 4, 5);
        let alpha = ['a', 'b', '*', '?', '[', ']', '!', '-'];
        let mut names: Vec<(String, &'static str)> = vec![(String::new(), "exh")];
        let mut layer = vec![String::new()];
        for _ in 0..3 {
            let mut next = vec![];
            for s in &layer {
                for c in ['a', 'b', '-'] {
                    next.push(format!("{s}{c}"));
                }
            }
            names.extend(next.iter().map(|n| (n.clone(), "exh")));
            layer = next;
        }
        let mut stack: Vec<String> = vec![String::new()];
        let mut idx = 0u64;
        let mut total = 0u64;
        while let Some(s) = stack.pop() {
            if s.chars().count() < maxlen {
                for c in alpha {
                    stack.push(format!("{s}{c}"));
                }
            }
            if s.is_empty() || s.contains("**") {
                continue;
            }
            idx += 1;
            if !cx.mine(idx) {
                continue;
            }
            total += 1;
            cx.check(
                || format!("exhaustive pattern {s:?} x {} names over {{a,b,-}} of length <= 3", names.len()),
                |ev| {
                    ev.count("workload/exhaustive");
                    check_glob_or_plain(ev, &s, &names)
                },
            );
        }
        cx.ev.add("exhaustive/patterns", total);
    }

    // Corpus: real glob patterns against real names.
    if cx.tier != Tier::Mini {
        let pats: Vec<String> = corpus::patterns()
            .into_iter()
            .filter(|p| opat::has_glob_meta(p) && !p.contains(|c| matches!(c, '{' | '}' | '<' | '>')))
            .collect();
        let mut names = corpus::names();
        names.sort();
        let step = cx.pick_tier(64u64, 16, 4, 1);
        let mut r = cx.stream("corpus");
        for (i, p) in pats.iter().enumerate() {
            let i = i as u64;
            if i % step != 0 || !cx.mine(i / step) {
                continue;
            }
            let key: String = p.chars().take_while(|c| !matches!(c, '*' | '?' | '[' | ']')).collect();
            let key2: String = key.chars().take(2).collect();
            let lo = names.partition_point(|n| n.as_str() < key2.as_str());
            let mut cand: Vec<(String, &'static str)> = names[lo..]
                .iter()
                .take_while(|n| n.starts_with(&key2))
                .filter(|n| n.starts_with(&key) || r.chance(1, 20))
                .take(25)
                .map(|n| (n.clone(), "corpus"))
                .collect();
            for _ in 0..3 {
                cand.push((r.pick(&names).clone(), "corpus"));
            }
            if let GlobParse::Ok(toks) = opat::parse_glob(p) {
                for _ in 0..4 {
                    let nm = sample_ref(&mut r, &toks);
                    let muts = mutations(&mut r, &nm);
                    cand.extend(muts.iter().filter(|m| m.1 == "confusable" || m.1.starts_with("repeat")).cloned());
                    if r.chance(1, 2) {
                        cand.extend(muts.into_iter().take(6));
                    }
                    cand.push((nm, "lang"));
                }
            }
            cx.check(
                || format!("corpus glob {p:?} x {} names", cand.len()),
                |ev| {
                    ev.count("workload/corpus");
                    check_glob_or_plain(ev, p, &cand)
                },
            );
        }
    }
}
