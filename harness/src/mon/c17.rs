//! C17 - no input makes a parser or matcher panic or hang.
//!
//! Oracle: "returned" - a panic is caught by `cx.check`, an abort kills the
//! shard (attributed by the driver), a runaway call trips the per-case step
//! budget (allocation count/bytes, deterministic) or the wall-clock watchdog.

use crate::corpus;
use crate::fw::{allocs_now, show, CaseResult, Cx, Ev, Tier};
use crate::oracle::pattern as opat;
use crate::rng::{hash_bytes, Rng};
use pkgsrc::digest::Digest;
use pkgsrc::distinfo::{Distinfo, EntryType};
use pkgsrc::plist::{Plist, PlistEntry};
use pkgsrc::summary::{Summary, SummaryStream};
use pkgsrc::{Depend, Dewey, Metadata, MetadataEntry, Pattern, PkgName, PkgPath, ScanIndex};
use std::io::Write;
use std::str::FromStr;

pub const SUMMARY_SEED: &str = "BUILD_DATE=2019-08-12 15:58:02 +0100\nCATEGORIES=devel pkgtools\nCOMMENT=This is a test\nCONFLICTS=foo-[0-9]*\nCONFLICTS=bar>=1<2\nDEPENDS=dep-[0-9]*\nDESCRIPTION=A test description\nDESCRIPTION=\nDESCRIPTION=This is a multi-line variable é€\nFILE_CKSUM=SHA1 a4801e9b26eeb5b8bd1f54bac1c8e89dec67786a\nFILE_NAME=testpkg-1.0.tgz\nFILE_SIZE=1234\nHOMEPAGE=https://example.org/\nLICENSE=isc\nMACHINE_ARCH=x86_64\nOPSYS=Darwin\nOS_VERSION=18.7.0\nPKG_OPTIONS=http2 idn\nPKGNAME=testpkg-1.0nb2\nPKGPATH=pkgtools/testpkg\nPKGTOOLS_VERSION=20091115\nPREV_PKGPATH=obsolete/testpkg\nPROVIDES=/opt/pkg/lib/libfoo.dylib\nREQUIRES=/usr/lib/libSystem.B.dylib\nSIZE_PKG=4321\nSUPERSEDES=oldpkg<1.0\n";

const PLIST_SEED: &str = "@comment $NetBSD$\n\n@name pkgtest-1.0\n@pkgdep dep-pkg1-[0-9]*\n@pkgdep dep-pkg2>=2.0\n@blddep dep-pkg1-1.0nb2\n@pkgcfl cfl-pkg1<2.0\n@display MESSAGE\n@cwd /opt/pkg\n@option preserve\n@mode 0644\n@owner root\n@group wheel\nbin/foo\n@exec echo \"I just installed F=%F D=%D B=%B f=%f\"\n@unexec echo \"I just deleted F=%F\"\n@mode\n@owner\n@group\nbin/bar\nb\n@src /opt\n@cd /usr\n@pkgdir /opt/pkg/share/junk\n@dirrm /opt/pkg/share/obsolete-option\n@ignore\n+BUILD_INFO\n";

const NEAR_MISS: &[&str] = &[
    // distinfo near-misses (excluded from C10/C11 comparisons)
    "SHA1 (x)", "Size (x) = 5", "SHA1", "Size", "SHA1 (x) =", "SHA1 () = abc", "Size () = 1 bytes", "( ) = ", "SHA1 ( = )",
    "Size (x) = +5 bytes", "Size (x) = 007 bytes", "Size (x) = 18446744073709551616 bytes", "Size (x) = -1 bytes",
    "sha1 (x) = ab", "$NetBSD: ", "$NetBSD$", "$NetBSD: x", "#", " # x", "SHA1 (a b) = c", "SHA1 (x)) = c", "SHA1 ((x) = c",
    // plist
    "@", "@ ", "@name", "@name ", "@name  ", "@name\tfoo", "@NAME x", "@ignore x", "@option", "@option foo", "@option preserve ",
    "@cwd", "@comment", "@comment ", " @name x", "@mode \u{a0}", "@bogus",
    "${PLIST.nls}@pkgdir share/locale/de", "${PLIST.x}bin/foo bar", "${PLIST.", "${PLIST.a}${PLIST.b}@exec true", "${PKGLOCALEDIR}/locale/de x",
    // summary
    "BUILD_DATE", "=", "=x", "FILE_SIZE=", "FILE_SIZE=9223372036854775808", "FILE_SIZE=-9223372036854775809", "SIZE_PKG=1.5",
    "SIZE_PKG= 5", "PKGNAME=", "PKGNAME=-", "PKGNAME=-1", "PKGNAME=a-", "build_date=x", "BUILD_DATE =x",
    // scanindex
    "PKGNAME =x", "PKGNAMEX=y", "ALL_DEPENDS=hello", "ALL_DEPENDS=a:b:c", "ALL_DEPENDS=:", "ALL_DEPENDS=x>1>2:../../a/b",
    "PKG_LOCATION=", "PKG_LOCATION=/a/b", "PKG_LOCATION=a", "ALL_DEPENDS={:a/b", "ALL_DEPENDS=[:a/b",
    // patterns / names / paths
    "{", "}", "{}", "{,}", "{{}}", "}{", "{a,b", "a>", ">", "<", "<>", ">=<=", "a>=1<2<3", "[", "]", "[]", "[!]", "[a-]", "***", "**", "a**b",
    "-", "--", "a-", "-1", "nb", "a-nb", "a-1nb", "a-1nbnb", "a-1nb99999999999999999999", "a-99999999999999999999", "p>99999999999999999999",
    "../..", "../../", "/", "//", "a//b", "./a/b", "a/./b", "a/b/.", "../../../a/b", ":", "::", "a:b", "a:", ":a/b",
];

struct Seeds {
    pattern: Vec<Vec<u8>>,
    name: Vec<Vec<u8>>,
    pkgpath: Vec<Vec<u8>>,
    depend: Vec<Vec<u8>>,
    summary: Vec<Vec<u8>>,
    plist: Vec<Vec<u8>>,
    distinfo: Vec<Vec<u8>>,
    scanindex: Vec<Vec<u8>>,
    digestname: Vec<Vec<u8>>,
    bytes: Vec<Vec<u8>>,
    metadata: Vec<Vec<u8>>,
}

fn b(s: &str) -> Vec<u8> {
    s.as_bytes().to_vec()
}

fn seeds(mini: bool) -> Seeds {
    let mut pattern: Vec<Vec<u8>> = vec![
        b("mutt-[0-9]*"), b("librsvg>=2.12<2.41"), b("{mysql,mariadb,percona}-[0-9]*"), b("foobar-1.0"),
        b("a-{b,c}-{d{e,f},g}-h>=1"), b("ap24-subversion-1.14.3{,nb[0-9]*}"), b("dovecot>=2.3.21.1{nb*,}"),
        b("foo>=2.0_rc1"), b("foo<1.alpha1"), b("foo>1.0.beta2<2.pre3nb4"), b("p>=1.99999999999999999999rc1"),
    ];
    // deep nesting (one expansion) and wide alternation (4096 expansions)
    pattern.push(format!("{}a{}-1", "{".repeat(if mini { 20 } else { 200 }), "}".repeat(if mini { 20 } else { 200 })).into_bytes());
    pattern.push(format!("{}-[0-9]*", "{a,b}".repeat(if mini { 5 } else { 12 })).into_bytes());
    pattern.push(format!("{}>=1", "{a,{b,{c,{d,{e,f}}}}}".repeat(3)).into_bytes());
    let mut name = vec![b("mutt-2.2.13"), b("librsvg-2.13nb2"), b("p-1.0alpha1beta2rc3pl4_5nb17"), b("foo"), b("a-b-de-h-2")];
    let mut scanindex = vec![b("PKGNAME=foo-1.0\nALL_DEPENDS=a-[0-9]*:../../cat/a b>=1:../../cat/b\nPKG_LOCATION=cat/foo\nCATEGORIES=cat\n")];
    let mut distinfo = vec![b("$NetBSD: distinfo,v 1.1 1970/01/01 01:01:01 ken Exp $\n\nBLAKE2s (f\u{e9}.tar.gz) = ab\nSHA512 (f\u{e9}.tar.gz) = cd\nSize (f\u{e9}.tar.gz) = 12 bytes\nSHA1 (patch-aa) = ef\n")];
    distinfo.push(b"SHA1 (f\xe9.tgz) = 00\nSize (f\xe9.tgz) = 1 bytes\nSHA1 (sub/dir/f.tgz) = 11\nSHA1 (patch-\xff) = 22\n".to_vec());
    let mut bytes = vec![b("$NetBSD: patch-Makefile,v 1.1 $\n\n--- a\n+++ b\n@@ -1 +1 @@\n-x\n+y $NetBSD$\nlast"), vec![], vec![b'\n'], vec![0u8; 65]];
    if !mini {
        let pats = corpus::patterns();
        for (i, p) in pats.iter().enumerate() {
            if i % 97 == 0 || p.contains('{') {
                pattern.push(p.clone().into_bytes());
            }
        }
        for (i, n) in corpus::names().iter().enumerate() {
            if i % 211 == 0 {
                name.push(n.clone().into_bytes());
            }
        }
        let idx = corpus::read("pbulk-index.txt");
        // first three records
        let text = String::from_utf8_lossy(&idx).into_owned();
        let mut cut = 0;
        let mut seen = 0;
        for (i, _) in text.match_indices("PKGNAME=") {
            seen += 1;
            if seen == 4 {
                cut = i;
                break;
            }
        }
        if cut > 0 {
            scanindex.push(text[..cut].as_bytes().to_vec());
        }
        distinfo.push(corpus::read("distinfo"));
        distinfo.push(corpus::read("distinfo.bad"));
        distinfo.push(corpus::read("distinfo.subdir"));
        bytes.push(corpus::read("patch-Makefile"));
        bytes.push(corpus::read("digest.txt"));
    }
    Seeds {
        pattern,
        name,
        pkgpath: vec![b("pkgtools/mktools"), b("../../pkgtools/mktools"), b("foo//bar//"), b("..//..//foo//bar")],
        depend: vec![b("mktools-[0-9]*:../../pkgtools/mktools"), b("a>=1<2:cat/a"), b("{a,b}-[0-9]*:../../cat/ab")],
        summary: vec![b(SUMMARY_SEED), format!("{SUMMARY_SEED}\n{SUMMARY_SEED}\n").into_bytes()],
        plist: vec![b(PLIST_SEED), b"bin/foo\nb\n@cwd /\xe9\nf\xe9\n@comment \xff\n".to_vec()],
        distinfo,
        scanindex,
        digestname: vec![b("SHA1"), b("blake2s"), b("RMD160"), b("Sha512"), b("md5"), b("SHA256")],
        bytes,
        metadata: vec![b("A comment\n"), b("1234\n"), b("line1\nline2\n\n"), b("  \n"), b("+DESC"), b("+SIZE_PKG")],
    }
}

fn rand_unicode(r: &mut Rng, n: usize) -> String {
    let mut s = String::new();
    for _ in 0..n {
        let c = match r.below(10) {
            0..=4 => (0x20 + r.below(0x5f) as u32) as u8 as char,
            5 => *r.pick(&['\n', '\t', '\r', '\0', '=', '-', '{', '}', ',', '<', '>', '*', '[', ']', '(', ')', ':', '/', '@', '+', '$', '#']),
            6 => char::from_u32(0xa0 + r.below(0x60) as u32).unwrap(),
            7 => char::from_u32(0x4e00 + r.below(0x200) as u32).unwrap(),
            8 => char::from_u32(0x1f600 + r.below(0x40) as u32).unwrap(),
            _ => (b'0' + r.below(10) as u8) as char,
        };
        s.push(c);
    }
    s
}

fn mutate(r: &mut Rng, mut d: Vec<u8>, other: &[u8], big: bool) -> Vec<u8> {
    match r.below(14) {
        0 => {
            let n = r.below(d.len() + 1);
            d.truncate(n);
        }
        1 => {
            // truncate just after / before a newline or '='
            let pos: Vec<usize> = d.iter().enumerate().filter(|(_, c)| matches!(**c, b'\n' | b'=' | b' ' | b'(' | b')')).map(|(i, _)| i).collect();
            if !pos.is_empty() {
                let p = *r.pick(&pos);
                d.truncate(p + r.below(2));
            }
        }
        2 => {
            // duplicate a line
            let lines: Vec<&[u8]> = d.split(|c| *c == b'\n').collect();
            let l = lines[r.below(lines.len())].to_vec();
            let at = r.below(lines.len());
            let mut out: Vec<u8> = vec![];
            for (i, ln) in lines.iter().enumerate() {
                if i == at {
                    out.extend_from_slice(&l);
                    out.push(b'\n');
                }
                out.extend_from_slice(ln);
                if i + 1 < lines.len() {
                    out.push(b'\n');
                }
            }
            d = out;
        }
        3 => {
            // splice with another document
            let a = r.below(d.len() + 1);
            let bpos = r.below(other.len() + 1);
            d.truncate(a);
            d.extend_from_slice(&other[bpos..]);
        }
        4 => {
            // inflate a number
            if let Some(i) = d.iter().position(|c| c.is_ascii_digit()) {
                let start = if r.chance(1, 2) { i } else { d.iter().rposition(|c| c.is_ascii_digit()).unwrap_or(i) };
                let big_num: &[u8] = match r.below(6) {
                    0 => b"9223372036854775807",
                    1 => b"9223372036854775808",
                    2 => b"99999999999999999999",
                    3 => b"0000000000000000000000000000000000000001",
                    4 => b"-1",
                    _ => b"+18446744073709551616",
                };
                d.splice(start..start + 1, big_num.iter().cloned());
            }
        }
        5 => {
            // inject non-UTF-8 / NUL / latin-1 blanks
            let i = r.below(d.len() + 1);
            let inj: &[u8] = match r.below(8) {
                0 => b"\0",
                1 => b"\xff",
                2 => b"\xc3",
                3 => b"\xe9",
                4 => b"\x85",
                5 => b"\xa0",
                6 => b"\xf0\x9f\x98",
                _ => b"\xed\xa0\x80",
            };
            d.splice(i..i, inj.iter().cloned());
        }
        6 => {
            if !d.is_empty() {
                let i = r.below(d.len());
                d[i] = r.byte();
            }
        }
        7 => {
            if !d.is_empty() {
                let i = r.below(d.len());
                d.remove(i);
            }
        }
        8 => {
            // insert a structural character
            let i = r.below(d.len() + 1);
            d.insert(i, *r.pick(b"\n\n=-{},<>*[]():/@ \t#$+."));
        }
        9 => {
            // insert a near-miss line (one time in three: a string literal of
            // the library's own source, alone or in front of some text)
            let lits = corpus::literals();
            let lit_line: Vec<u8>;
            let nm: &[u8] = if !lits.is_empty() && r.chance(1, 3) {
                let mut l = lits[r.below(lits.len())].1.clone();
                if r.chance(1, 2) {
                    l.extend_from_slice(*r.pick(&[&b"@pkgdir share/locale/de"[..], b" x", b"=1", b"-1.0", b"foo bar", b"/cat/pkg", b"1.0"]));
                }
                lit_line = l;
                &lit_line
            } else {
                NEAR_MISS[r.below(NEAR_MISS.len())].as_bytes()
            };
            let pos: Vec<usize> = std::iter::once(0).chain(d.iter().enumerate().filter(|(_, c)| **c == b'\n').map(|(i, _)| i + 1)).collect();
            let p = *r.pick(&pos);
            let mut ins = nm.to_vec();
            ins.push(b'\n');
            d.splice(p..p, ins);
        }
        10 => {
            // swap two lines
            let mut lines: Vec<Vec<u8>> = d.split(|c| *c == b'\n').map(|l| l.to_vec()).collect();
            if lines.len() >= 2 {
                let (i, j) = (r.below(lines.len()), r.below(lines.len()));
                lines.swap(i, j);
            }
            d = lines.join(&b'\n');
        }
        11 => {
            // very long line / token
            let n = if big { *r.pick(&[1000usize, 8192, 65536]) } else { 300 };
            let c = *r.pick(b"a1 -.=\xe9{");
            let i = r.below(d.len() + 1);
            let c = if c == b'{' { b'x' } else { c };
            d.splice(i..i, std::iter::repeat(c).take(n));
        }
        12 => {
            // drop all newlines / CRLF
            if r.chance(1, 2) {
                d.retain(|c| *c != b'\n');
            } else {
                let mut o = vec![];
                for c in d {
                    if c == b'\n' {
                        o.push(b'\r');
                    }
                    o.push(c);
                }
                d = o;
            }
        }
        _ => {
            // repeat the whole document
            let k = r.range(2, 4);
            let one = d.clone();
            for _ in 1..k {
                d.extend_from_slice(&one);
            }
        }
    }
    d
}

fn gen_input(r: &mut Rng, seeds: &[Vec<u8>], big: bool) -> (Vec<u8>, &'static str) {
    match r.below(20) {
        0 | 1 => {
            let n = if r.chance(1, 10) { r.below(4096) } else { r.below(64) };
            (r.bytes(n), "random-bytes")
        }
        2 | 3 => {
            let n = if r.chance(1, 10) { r.below(1000) } else { r.below(40) };
            (rand_unicode(r, n).into_bytes(), "random-unicode")
        }
        4 => (NEAR_MISS[r.below(NEAR_MISS.len())].as_bytes().to_vec(), "near-miss"),
        5 => {
            let lits = corpus::literals();
            if lits.is_empty() {
                (NEAR_MISS[r.below(NEAR_MISS.len())].as_bytes().to_vec(), "near-miss")
            } else {
                let mut l = lits[r.below(lits.len())].1.clone();
                if r.chance(1, 2) {
                    l.extend_from_slice(*r.pick(&[&b"@pkgdir share/locale/de"[..], b" x", b"=1", b"-1.0", b"foo bar", b"/cat/pkg", b">=1.0", b"\n"]));
                }
                if r.chance(1, 4) {
                    let mut m = lits[r.below(lits.len())].1.clone();
                    m.extend_from_slice(&l);
                    l = m;
                }
                (l, "source-literal")
            }
        }
        6 => (r.pick(seeds).clone(), "seed-verbatim"),
        _ => {
            let mut d = r.pick(seeds).clone();
            let other = r.pick(seeds).clone();
            for _ in 0..r.range(1, 3) {
                d = mutate(r, d, &other, big);
            }
            (d, "mutated-document")
        }
    }
}

fn lossy(b: &[u8]) -> String {
    String::from_utf8_lossy(b).into_owned()
}

fn measure<F: FnOnce()>(ev: &mut Ev, entry: &str, len: usize, f: F) {
    let a0 = allocs_now();
    f();
    let da = allocs_now() - a0;
    ev.count(&format!("calls/{entry}"));
    ev.max(&format!("max/allocs/{entry}"), da);
    ev.max(&format!("max/allocs-per-input-byte-x100/{entry}"), da * 100 / (len as u64 + 16));
    ev.eval();
}

/// Variants of a version in which one token is replaced by an over-long
/// digit run or by a pre-release modifier, so that saturated numbers and
/// negative weights meet at the same component index.
fn aligned_variants(v: &str) -> Vec<String> {
    let mut toks: Vec<String> = vec![];
    for c in v.chars() {
        let class = |c: char| if c.is_ascii_digit() { 0 } else if c.is_ascii_alphabetic() { 1 } else { 2 };
        match toks.last_mut() {
            Some(t) if class(t.chars().next().unwrap()) == class(c) && class(c) != 2 => t.push(c),
            _ => toks.push(c.to_string()),
        }
    }
    let mut out = vec![];
    for i in 0..toks.len().min(8) {
        if toks[i].chars().all(|c| c.is_ascii_alphanumeric()) {
            for rep in ["99999999999999999999", "alpha", "rc", "9223372036854775807"] {
                let mut t = toks.clone();
                t[i] = rep.to_string();
                out.push(t.concat());
            }
        }
    }
    out.truncate(16);
    out
}

fn names_for(r: &mut Rng, p: &str, pool: &[Vec<u8>]) -> Vec<String> {
    let mut v = vec![String::new(), p.to_string()];
    if let opat::DeweyParse::Ok(d) = opat::parse_dewey(p) {
        for (_, b) in d.bounds.iter().take(2) {
            for a in aligned_variants(b) {
                v.push(format!("{}-{a}", d.base));
            }
        }
    }
    let stripped: String = p.chars().filter(|c| !matches!(c, '{' | '}' | ',' | '*' | '[' | ']' | '?')).collect();
    v.push(stripped.replace(">=", "-").replace("<=", "-").replace(['<', '>'], "-"));
    v.push(format!("{}-1.0", p.chars().take(6).collect::<String>()));
    if p.contains('{') && p.len() <= 400 {
        v.extend(opat::joint_names(p).into_iter().take(24));
    }
    for _ in 0..3 {
        v.push(lossy(&pool[r.below(pool.len())]));
    }
    v.push("p-99999999999999999999999".into());
    v
}

fn drive_pattern(p: &str, names: &[String], do_match: bool) -> bool {
    let r = Pattern::new(p);
    match &r {
        Ok(pat) => {
            let _ = pat.pattern();
            if do_match {
                // candidates cut from the pattern's own text: the first one, two,
                // three characters of the pattern and of every alternative (a
                // shortcut that looks at fixed positions of both strings meets a
                // name that ends exactly there)
                let pc: Vec<char> = p.chars().collect();
                // (under Miri every match of a wide alternation costs seconds:
                // three such candidates there, two dozen natively)
                let max_cut = if !cfg!(miri) { 24 } else if p.contains('{') { 0 } else { 3 };
                let mut cut = 0;
                for i in 0..pc.len() {
                    if i == 0 || matches!(pc[i - 1], '{' | ',' | '}') {
                        for l in 1..=3usize {
                            if i + l <= pc.len() && cut < max_cut {
                                let n: String = pc[i..i + l].iter().collect();
                                let _ = pat.matches(&n);
                                let _ = pat.best_match(&n, &n);
                                cut += 1;
                            }
                        }
                    }
                }
                for n in names {
                    let _ = pat.matches(n);
                }
                for w in names.windows(2) {
                    let _ = pat.best_match(&w[0], &w[1]);
                }
            }
        }
        Err(e) => {
            let _ = e.to_string();
        }
    }
    match Dewey::new(p) {
        Ok(d) => {
            for n in names {
                let _ = d.matches(n);
            }
        }
        Err(e) => {
            let _ = (e.to_string(), e.pos, e.msg);
        }
    }
    r.is_ok()
}

fn drive_summary_calls(ev: &mut Ev, r: &mut Rng, n: usize) -> CaseResult {
    let mut s = Summary::new();
    let vals = ["", "x", "a=b", "é€", " ", "1", "-1", "foo-1.0", "-", "a-", "-b", "nb", "x\ny"];
    for _ in 0..n {
        let v = vals[r.below(vals.len())];
        let lst: Vec<String> = (0..r.below(3)).map(|_| vals[r.below(vals.len())].to_string()).collect();
        let i = [0i64, 1, -1, i64::MAX, i64::MIN][r.below(5)];
        match r.below(60) {
            0 => s.set_build_date(v),
            1 => s.set_categories(v),
            2 => s.set_comment(v),
            3 => s.set_conflicts(&lst),
            4 => s.set_depends(&lst),
            5 => s.set_description(&lst),
            6 => s.set_file_cksum(v),
            7 => s.set_file_name(v),
            8 => s.set_file_size(i),
            9 => s.set_homepage(v),
            10 => s.set_license(v),
            11 => s.set_machine_arch(v),
            12 => s.set_opsys(v),
            13 => s.set_os_version(v),
            14 => s.set_pkg_options(v),
            15 => s.set_pkgname(v),
            16 => s.set_pkgpath(v),
            17 => s.set_pkgtools_version(v),
            18 => s.set_prev_pkgpath(v),
            19 => s.set_provides(&lst),
            20 => s.set_requires(&lst),
            21 => s.set_size_pkg(i),
            22 => s.set_supersedes(&lst),
            23 => s.push_conflicts(v),
            24 => s.push_depends(v),
            25 => s.push_description(v),
            26 => s.push_provides(v),
            27 => s.push_requires(v),
            28 => s.push_supersedes(v),
            29 => drop(s.build_date()),
            30 => drop(s.categories()),
            31 => drop(s.comment()),
            32 => drop(s.conflicts()),
            33 => drop(s.depends()),
            34 => drop(s.description()),
            35 => drop(s.description_as_str()),
            36 => drop(s.file_cksum()),
            37 => drop(s.file_name()),
            38 => drop(s.file_size()),
            39 => drop(s.homepage()),
            40 => drop(s.license()),
            41 => drop(s.machine_arch()),
            42 => drop(s.opsys()),
            43 => drop(s.os_version()),
            44 => drop(s.pkg_options()),
            45 => drop(s.pkgname()),
            46 => drop(s.pkgbase()),
            47 => drop(s.pkgversion()),
            48 => drop(s.pkgpath()),
            49 => drop(s.pkgtools_version()),
            50 => drop(s.prev_pkgpath()),
            51 => drop(s.provides()),
            52 => drop(s.requires()),
            53 => drop(s.size_pkg()),
            54 => drop(s.supersedes()),
            55 => drop(s.is_completed()),
            56 => drop(format!("{s}")),
            57 => drop(format!("{s:?}")),
            58 => s = s.clone(),
            _ => drop(Summary::from_str(&format!("{s}"))),
        }
        ev.count("calls/summary-call-sequence-steps");
    }
    ev.count("calls/summary-call-sequence");
    ev.eval();
    Ok(())
}

fn drive_pkgdb(ev: &mut Ev, r: &mut Rng, root: &std::path::Path) -> CaseResult {
    use std::fs;
    let _ = fs::remove_dir_all(root);
    fs::create_dir_all(root).map_err(|e| format!("harness: mkdir: {e}"))?;
    let n = r.below(6);
    let mut expect_dirs = 0;
    for i in 0..n {
        let name = match r.below(8) {
            0 => format!("nodash{i}"),
            1 => format!("pkg{i}-1.0nb{i}"),
            2 => format!("a-b-c{i}-2"),
            3 => format!("-{i}"),
            4 => format!("x{i}-"),
            5 => format!("é{i}-1"),
            _ => format!("pkg{i}-{i}.0"),
        };
        let dir = root.join(&name);
        if r.chance(1, 8) {
            fs::write(&dir, b"stray file").map_err(|e| format!("harness: write: {e}"))?;
            continue;
        }
        fs::create_dir_all(&dir).map_err(|e| format!("harness: mkdir: {e}"))?;
        expect_dirs += 1;
        for f in ["+COMMENT", "+CONTENTS", "+DESC", "+SIZE_PKG", "+SIZE_ALL", "+BUILD_INFO", "+REQUIRED_BY"] {
            if r.chance(5, 6) {
                let content: Vec<u8> = match r.below(5) {
                    0 => vec![],
                    1 => b"abc\n".to_vec(),
                    2 => b"12345\n".to_vec(),
                    3 => b"\xff\xfe not utf8\n".to_vec(),
                    _ => b"99999999999999999999\n".to_vec(),
                };
                fs::write(dir.join(f), content).map_err(|e| format!("harness: write: {e}"))?;
            }
        }
    }
    // non-UTF-8 directory name
    if r.chance(1, 4) {
        use std::os::unix::ffi::OsStrExt;
        let d = root.join(std::ffi::OsStr::from_bytes(b"bad\xff-1.0"));
        fs::create_dir_all(&d).map_err(|e| format!("harness: mkdir: {e}"))?;
        for f in ["+COMMENT", "+CONTENTS", "+DESC"] {
            fs::write(d.join(f), b"x").map_err(|e| format!("harness: write: {e}"))?;
        }
        expect_dirs += 1;
    }
    // other kinds of file-system objects, in the database directory and inside
    // a package directory: symbolic links that dangle, loop, lead to a file or
    // to a directory; a metadata name that is a directory
    if !cfg!(miri) && r.chance(1, 2) {
        use std::os::unix::fs::symlink;
        let inside = fs::read_dir(root).ok().and_then(|mut d| d.find_map(|e| e.ok().filter(|e| e.path().is_dir()).map(|e| e.path())));
        for k in 0..r.range(1, 4) {
            let at = match (&inside, r.chance(1, 2)) {
                (Some(d), true) => d.clone(),
                _ => root.to_path_buf(),
            };
            let name = *r.pick(&["link-1.0", "+COMMENT", "+DESC", "+CONTENTS", "zz-2", "+REQUIRED_BY", "l"]);
            let p = at.join(format!("{name}{}", if r.chance(1, 2) { String::new() } else { k.to_string() }));
            if fs::symlink_metadata(&p).is_ok() {
                continue;
            }
            let made = match r.below(5) {
                0 => symlink("does/not/exist", &p),
                1 => symlink(p.file_name().unwrap_or_default(), &p),
                2 => symlink("/etc/hostname", &p),
                3 => symlink(root, &p),
                _ => fs::create_dir(&p),
            };
            made.map_err(|e| format!("harness: link: {e}"))?;
            ev.count("pkgdb/other-file-system-objects");
            expect_dirs += 1;
        }
    }
    let open = match r.below(6) {
        0 => root.join("does-not-exist"),
        1 => {
            let f = root.join("plainfile");
            fs::write(&f, b"x").map_err(|e| format!("harness: write: {e}"))?;
            f
        }
        _ => root.to_path_buf(),
    };
    let a0 = allocs_now();
    match pkgsrc::pkgdb::PkgDB::open(&open) {
        Err(_) => ev.count("outcome/pkgdb/open-err"),
        Ok(mut db) => {
            let mut items = 0;
            // the iterator is driven by hand - in pages of two through by_ref(),
            // and polled again after it has reported the end (a caller that
            // pages or counts first and reads later does exactly that): it has
            // to return, whatever it returns
            let paged = r.chance(1, 2);
            loop {
                let page: Vec<_> = if paged { db.by_ref().take(2).collect() } else { db.by_ref().take(1).collect() };
                if page.is_empty() {
                    break;
                }
                for item in page {
                items += 1;
                if items > expect_dirs + 8 {
                    return Err(format!("PkgDB iteration yielded {items} items for {expect_dirs} directories: does not terminate?").into());
                }
                if let Ok(pkg) = item {
                    let _ = (pkg.pkgname(), pkg.pkgbase(), pkg.pkgversion());
                    let mut md = Metadata::new();
                    for e in all_entries() {
                        let fname = e.to_filename().to_string();
                        if let Ok(text) = pkg.read_metadata(e) {
                            if let Some(e2) = MetadataEntry::from_filename(&fname) {
                                let _ = md.read_metadata(e2, &text);
                            }
                        }
                    }
                    let _ = md.is_valid();
                }
                }
            }
            for _ in 0..3 {
                let _ = db.next();
                ev.count("pkgdb/polled-after-the-end");
            }
            let _ = db.by_ref().count();
            ev.count("outcome/pkgdb/iterated");
        }
    }
    ev.max("max/allocs/pkgdb", allocs_now() - a0);
    ev.count("calls/pkgdb");
    ev.eval();
    let _ = fs::remove_dir_all(root);
    Ok(())
}

fn all_entries() -> Vec<MetadataEntry> {
    vec![
        MetadataEntry::BuildInfo, MetadataEntry::BuildVersion, MetadataEntry::Comment, MetadataEntry::Contents,
        MetadataEntry::DeInstall, MetadataEntry::Desc, MetadataEntry::Display, MetadataEntry::Install,
        MetadataEntry::InstalledInfo, MetadataEntry::MtreeDirs, MetadataEntry::Preserve, MetadataEntry::RequiredBy,
        MetadataEntry::SizeAll, MetadataEntry::SizePkg,
    ]
}

struct FailingReader<'a> {
    data: &'a [u8],
    pos: usize,
    chunk: usize,
    fail_at: Option<usize>,
    reads: usize,
}

impl<'a> std::io::Read for FailingReader<'a> {
    fn read(&mut self, buf: &mut [u8]) -> std::io::Result<usize> {
        self.reads += 1;
        if Some(self.reads) == self.fail_at {
            return Err(std::io::Error::new(std::io::ErrorKind::Other, "injected"));
        }
        if self.reads % 5 == 3 {
            return Err(std::io::Error::new(std::io::ErrorKind::Interrupted, "injected EINTR"));
        }
        let n = self.chunk.min(buf.len()).min(self.data.len() - self.pos);
        buf[..n].copy_from_slice(&self.data[self.pos..self.pos + n]);
        self.pos += n;
        Ok(n)
    }
}

const ENTRIES: [&str; 15] = [
    "pattern", "pkgname", "pkgpath", "depend", "summary", "summary-stream", "plist", "plist-entry", "distinfo",
    "scanindex", "digest-name", "hashers", "metadata", "pkgdb", "summary-call-sequence",
];

pub fn run(cx: &mut Cx) {
    let mini = cx.tier == Tier::Mini;
    let sd = seeds(mini);
    for e in ENTRIES {
        if mini && e == "pkgdb" {
            continue;
        }
        cx.ev.require(&format!("calls/{e}"));
    }
    // Deep-structure probes, each in a child process (deep.rs): sizes 1 000,
    // 10 000 and the kind's largest.  Not under Miri (no processes) nor ASan
    // (its stack frames are not the program's).
    if !mini && cx.engine != "asan" && cx.engine != "valgrind" && cx.engine != "cov" {
        cx.ev.require("deep/probes");
        let mut i = 0u64;
        for (kind, quick_max, thorough_max) in crate::deep::KINDS {
            let top = if cx.tier == Tier::Thorough { thorough_max } else { quick_max };
            let sizes: Vec<usize> = if kind == "glob-stars" {
                // between 1 000 (fits on 2 MiB in every build) and 30 000
                // (does not, in any build) whether K3 bites depends on the
                // build's frame size: not probed
                vec![1_000, if cx.tier == Tier::Small { 30_000 } else { top }]
            } else if cx.tier == Tier::Small {
                vec![1_000, top.min(30_000)]
            } else {
                vec![1_000, 10_000.min(top), top]
            };
            for n in sizes {
                i += 1;
                if !cx.mine(i) {
                    continue;
                }
                cx.set_budget(1 << 24, 1 << 32);
                cx.check(
                    || format!("deep structure probe {kind} n={n} (child process, 2 MiB stack)"),
                    |ev| {
                        ev.count("deep/probes");
                        ev.count(&format!("deep/{kind}"));
                        ev.eval();
                        let o = crate::deep::run_child(kind, n).map_err(crate::fw::Fail::from)?;
                        if o.ok {
                            ev.count("deep/returned");
                            ev.nontrivial(hash_bytes(format!("{kind}{n}").as_bytes()));
                            return Ok(());
                        }
                        let msg = format!("{kind} with n={n}: {}", o.text);
                        // K3: the glob crate's matcher recurses once per '*'
                        if kind == "glob-stars" && n >= 30_000 && o.stack_overflow {
                            return Err(crate::fw::known(crate::deep::K3, msg));
                        }
                        Err(msg.into())
                    },
                );
            }
        }
    }

    let big = matches!(cx.tier, Tier::Quick | Tier::Thorough);
    let rounds = cx.per_shard(96, 1_500, 30_000, 400_000);
    let mut r = cx.stream("inputs");
    let scratch = cx.scratch.clone();
    for round in 0..rounds {
        for (ei, entry) in ENTRIES.iter().enumerate() {
            // the file-system and hashing entries are slower: run them less often
            if matches!(*entry, "pkgdb") && (mini || round % 8 != 0) {
                continue;
            }
            if matches!(*entry, "hashers") && round % 4 != 0 {
                continue;
            }
            let seedset: &[Vec<u8>] = match *entry {
                "pattern" => &sd.pattern,
                "pkgname" => &sd.name,
                "pkgpath" => &sd.pkgpath,
                "depend" => &sd.depend,
                "summary" | "summary-stream" => &sd.summary,
                "plist" | "plist-entry" => &sd.plist,
                "distinfo" => &sd.distinfo,
                "scanindex" => &sd.scanindex,
                "digest-name" => &sd.digestname,
                "hashers" => &sd.bytes,
                "metadata" => &sd.metadata,
                _ => &sd.bytes,
            };
            let (input, class) = gen_input(&mut r, seedset, big);
            let mut aux = Rng::new(hash_bytes(&input) ^ ei as u64);
            let len = input.len();
            // Step budget: generous and proportional to the input; for
            // alternations proportional to the number of expansions.
            let mut do_match = true;
            let mut budget: u64 = 200_000 + 400 * len as u64;
            if *entry == "pattern" || *entry == "depend" {
                let p = lossy(&input);
                if p.contains('{') && opat::braces_nested(&p) {
                    let ex = opat::count_expansions(&p, 4096);
                    if ex > 4096 || len > 4096 {
                        do_match = false; // specification-sized blow-up: compile only
                    } else {
                        budget += 64 * (ex as u64 + 1) * (len as u64 + 8);
                    }
                }
            }
            // Allocated bytes (cumulative, not live): every allocation of a
            // call is at most about the input length, so the byte budget is
            // the allocation budget times (length + slack).
            cx.set_budget(budget, budget.saturating_mul(len as u64 + 256));
            let root = scratch.join(format!("db{}", round % 4));
            cx.check(
                || format!("{entry} <- {class} ({} bytes): {}", len, show(&input[..len.min(300)])),
                |ev| {
                    ev.count(&format!("class/{class}"));
                    if class != "seed-verbatim" {
                        ev.nontrivial(hash_bytes(&input) ^ (ei as u64).wrapping_mul(0x9E3779B97F4A7C15));
                    }
                    match *entry {
                        "pattern" => {
                            let p = lossy(&input);
                            let mut names = names_for(&mut aux, &p, &sd.name);
                            if mini {
                                // Miri interprets about 10^4 times slower: an alternation with
                                // hundreds of expansions gets a handful of names
                                let ex = if opat::braces_nested(&p) { opat::count_expansions(&p, 4096) } else { 1 };
                                // (measured: 2 x 10^7 native instructions - 36 expansions of 300
                                // characters against 8 names - take nine minutes under Miri)
                                let work = ex.max(1) * p.len().max(1);
                                names.truncate((6_000 / work).clamp(1, 16));
                            }
                            let mut ok = false;
                            measure(ev, entry, len, || ok = drive_pattern(&p, &names, do_match));
                            ev.count(if ok { "outcome/pattern/ok" } else { "outcome/pattern/err" });
                        }
                        "pkgname" => {
                            let s = lossy(&input);
                            measure(ev, entry, len, || {
                                let n = PkgName::new(&s);
                                let _ = (n.pkgname(), n.pkgbase(), n.pkgversion(), n.pkgrevision());
                                // names are also the right-hand side of matches
                                if let Ok(p) = Pattern::new("*-[0-9]*") {
                                    let _ = p.matches(&s);
                                    let _ = p.best_match(&s, "a-1");
                                }
                                if let Ok(p) = Pattern::new("p>=1") {
                                    let _ = p.matches(&s);
                                }
                            });
                        }
                        "pkgpath" => {
                            let s = lossy(&input);
                            measure(ev, entry, len, || {
                                if let Ok(p) = PkgPath::new(&s) {
                                    let _ = (p.as_path(), p.as_full_path());
                                }
                                let _ = PkgPath::from_str(&s);
                            });
                        }
                        "depend" => {
                            let s = lossy(&input);
                            measure(ev, entry, len, || {
                                if let Ok(d) = Depend::new(&s) {
                                    let _ = (d.pattern().pattern(), d.pkgpath().as_path());
                                    if do_match {
                                        let _ = d.pattern().matches("a-1.0");
                                    }
                                }
                            });
                        }
                        "summary" => {
                            let s = lossy(&input);
                            measure(ev, entry, len, || match Summary::from_str(&s) {
                                Ok(sum) => {
                                    let _ = format!("{sum}");
                                    let _ = (sum.pkgbase(), sum.pkgversion(), sum.is_completed(), sum.description_as_str());
                                }
                                Err(e) => {
                                    let _ = e.to_string();
                                }
                            });
                        }
                        "summary-stream" => {
                            // at most 64 write calls per stream (write() rescans its buffer)
                            let chunk = if len == 0 { 1 } else { (len / (1 + aux.below(64))).max(1) };
                            measure(ev, entry, len, || {
                                let mut st = SummaryStream::new();
                                let mut failed = false;
                                for c in input.chunks(chunk) {
                                    if st.write(c).is_err() {
                                        failed = true;
                                        break;
                                    }
                                }
                                let _ = st.write(b"");
                                let _ = st.flush();
                                let _ = (format!("{st}"), st.entries().len(), failed);
                                let _ = st.entries_mut().len();
                            });
                        }
                        "plist" => measure(ev, entry, len, || match Plist::from_bytes(&input) {
                            Ok(p) => {
                                let _ = (p.pkgname(), p.display(), p.depends(), p.build_depends(), p.conflicts());
                                let _ = (p.pkgdirs(), p.pkgrmdirs(), p.files(), p.files_prefixed());
                                let _ = (p.install_cmds().len(), p.uninstall_cmds().len(), p.is_preserve());
                                let _ = format!("{p:?}");
                            }
                            Err(e) => {
                                let _ = e.to_string();
                            }
                        }),
                        "plist-entry" => {
                            // a single line of the document
                            let lines: Vec<&[u8]> = input.split(|c| *c == b'\n').collect();
                            let l = lines[aux.below(lines.len())];
                            measure(ev, entry, l.len(), || {
                                let _ = PlistEntry::from_bytes(l).map_err(|e| e.to_string());
                                let _ = PlistEntry::from_bytes(&input).map_err(|e| e.to_string());
                            });
                        }
                        "distinfo" => measure(ev, entry, len, || {
                            let d = Distinfo::from_bytes(&input);
                            let _ = d.rcsid();
                            let out = d.as_bytes();
                            let _ = Distinfo::from_bytes(&out);
                            let mut probes: Vec<std::path::PathBuf> = vec!["".into(), "/".into(), "a/b/c".into(), "patch-aa".into(), "x/../y".into()];
                            for e in d.distfiles().iter().chain(d.patchfiles().iter()) {
                                let _ = e.as_bytes();
                                probes.push(e.filename.clone());
                                probes.push(std::path::Path::new("/tmp/distdir").join(&e.filename));
                                let _ = (e.size, e.checksums.len(), &e.filetype);
                            }
                            for p in &probes {
                                let _ = d.find_entry(p).map(|e| e.filename.clone()).map_err(|e| e.to_string());
                                let _ = (d.get_distfile(p).is_some(), d.get_patchfile(p).is_some());
                                let _ = EntryType::from(p);
                            }
                            // verification entry points on paths that do not exist, are a
                            // directory, or are an unrelated existing file: an error, not a panic
                            let here = std::path::Path::new("/");
                            let exe = std::env::current_exe().unwrap_or_else(|_| "/proc/self/exe".into());
                            for p in probes.iter().take(6).map(|p| p.as_path()).chain([here, exe.as_path()]) {
                                let _ = d.verify_size(p).map_err(|e| e.to_string());
                                let _ = d.verify_checksum(p, Digest::SHA1).map_err(|e| e.to_string());
                                let _ = d.verify_checksums(p).len();
                                if p != exe.as_path() {
                                    let _ = Distinfo::calculate_size(p).map_err(|e| e.to_string());
                                    let _ = Distinfo::calculate_checksum(p, Digest::MD5).map_err(|e| e.to_string());
                                }
                            }
                            for e in d.distfiles().iter().chain(d.patchfiles().iter()).take(3) {
                                let _ = e.verify_size(here).map_err(|e| e.to_string());
                                let _ = e.verify_checksum(here, Digest::BLAKE2s).map_err(|e| e.to_string());
                                let _ = e.verify_checksums("/nonexistent/x").len();
                                // ... and on a small file that does exist and can be read
                                // (whatever the entry records - absurd sizes included -
                                // the answer is a mismatch, not a panic)
                                for small in ["/etc/hostname", "/etc/passwd", "/proc/sys/kernel/ostype"] {
                                    if std::path::Path::new(small).is_file() {
                                        let _ = e.verify_size(small).map_err(|e| e.to_string());
                                        let _ = e.verify_checksums(small).len();
                                        break;
                                    }
                                }
                            }
                            let mut built = Distinfo::new();
                            built.set_rcsid(&std::ffi::OsString::from("$NetBSD: x $"));
                            for e in d.distfiles().iter().chain(d.patchfiles().iter()).take(4) {
                                let sums = e.checksums.iter().map(|c| pkgsrc::distinfo::Checksum::new(c.digest, c.hash.clone())).collect();
                                let _ = built.insert(pkgsrc::distinfo::Entry::new(&e.filename, &e.filepath, sums, e.size));
                            }
                            let _ = built.as_bytes();
                        }),
                        "scanindex" => {
                            let chunk = 1 + aux.below(64);
                            let fail_at = if aux.chance(1, 3) { Some(1 + aux.below(20)) } else { None };
                            measure(ev, entry, len, || {
                                let _ = ScanIndex::from_reader(&input[..]).map(|v| v.len()).map_err(|e| e.to_string());
                                let fr = FailingReader { data: &input, pos: 0, chunk, fail_at, reads: 0 };
                                let _ = ScanIndex::from_reader(std::io::BufReader::with_capacity(1 + chunk, fr)).map(|v| v.len());
                            });
                        }
                        "digest-name" => {
                            let s = lossy(&input);
                            measure(ev, entry, len, || match Digest::from_str(&s) {
                                Ok(d) => {
                                    let _ = d.to_string();
                                }
                                Err(e) => {
                                    let _ = e.to_string();
                                }
                            });
                        }
                        "hashers" => {
                            let s = lossy(&input);
                            let chunk = 1 + aux.below(200);
                            let fail_at = if aux.chance(1, 3) { Some(1 + aux.below(10)) } else { None };
                            measure(ev, entry, len, || {
                                for d in [Digest::BLAKE2s, Digest::MD5, Digest::RMD160, Digest::SHA1, Digest::SHA256, Digest::SHA512] {
                                    let _ = d.hash_str(&s);
                                    let _ = d.hash_file(&mut &input[..]);
                                    let _ = d.hash_patch(&mut &input[..]);
                                    let mut fr = FailingReader { data: &input, pos: 0, chunk, fail_at, reads: 0 };
                                    let _ = d.hash_file(&mut fr);
                                    let mut fr = FailingReader { data: &input, pos: 0, chunk, fail_at, reads: 0 };
                                    let _ = d.hash_patch(&mut fr);
                                }
                            });
                        }
                        "metadata" => {
                            let s = lossy(&input);
                            measure(ev, entry, len, || {
                                let mut md = Metadata::new();
                                for e in all_entries() {
                                    let _ = md.read_metadata(e, &s);
                                }
                                let _ = md.is_valid();
                                let _ = (md.comment(), md.size_pkg(), md.build_info());
                                if let Some(e) = MetadataEntry::from_filename(&s) {
                                    let _ = e.to_filename();
                                }
                            });
                        }
                        "pkgdb" => return drive_pkgdb(ev, &mut aux, &root),
                        _ => return drive_summary_calls(ev, &mut aux, 60),
                    }
                    Ok(())
                },
            );
        }
    }
    cx.default_budget();
}

