//! C11 - each recognised distinfo line lands on its file; other lines change
//! nothing.
//!
//! Refuting events: after `from_bytes(text)` the per-kind name order, a
//! file's checksum list (algorithm, hash, line order), size or kind differs
//! from the model; a must-ignore line created, removed or altered anything; a
//! well-formed line was dropped; `EntryType::from(name)` differs from the
//! classification rule.
//!
//! Workloads: (a) interleaved line soups, (a') names sharing trailing
//! components, (b) classification table + edits, (b') names assembled from the
//! rule's clauses, (c) aliases.
//!
//! Oracle: by construction (`gen::distinfo::c11_doc` updates the model with
//! the well-formed lines only).  Known finding K2 (`path-alias-merge`) is
//! raised only in the alias workload below.

use crate::fw::{known, show, CaseResult, Cx, Ev};
use crate::gen::distinfo as gd;
use crate::oracle::distinfo::{
    classify, compare_structure, sum_line, DocModel, FileModel, Kind, ALGS,
};
use crate::rng::hash_strs;
use pkgsrc::distinfo::{Distinfo, EntryType};
use std::ffi::OsStr;
use std::os::unix::ffi::OsStrExt;
use std::path::Path;

pub const K2: &str = "path-alias-merge";

fn clip(b: &[u8]) -> String {
    if b.len() > 1000 {
        format!("{}...[{} bytes]", show(&b[..1000]), b.len())
    } else {
        show(b)
    }
}

fn interleaved_doc(ev: &mut Ev, d: &gd::C11Doc, workload: &str) -> CaseResult {
    ev.count(&format!("docs/{workload}-workload"));
    for c in &d.classes {
        ev.count(&format!("line/{}", c.name()));
    }
    ev.count(if d.interleaved { "interleave/files-interleaved" } else { "interleave/files-grouped" });
    match d.nfiles {
        0..=6 => ev.count(&format!("files-per-doc/{}", d.nfiles)),
        7..=20 => ev.count("files-per-doc/7-20"),
        21..=80 => ev.count("files-per-doc/21-80"),
        _ => ev.count("files-per-doc/81-300"),
    }
    ev.max("max/files-per-doc", d.nfiles as u64);
    for list in [&d.model.dist, &d.model.patch] {
        let names: Vec<&[u8]> = list.iter().map(|f| &f.name[..]).collect();
        for c in gd::relation_classes(&names) {
            ev.count(c);
            if c.starts_with("shared-tail/") {
                ev.count(&format!("{c}/{}", list[0].kind.name()));
                if d.interleaved {
                    ev.count("shared-tail/lines-interleaved");
                }
            }
        }
    }
    for f in d.model.files() {
        for c in gd::danger_classes(&f.name) {
            ev.count(&format!("name-byte/{c}"));
        }
        for c in gd::clause_classes(&f.name) {
            ev.count(&format!("clause/{c}"));
        }
        if f.name.len() >= 30 {
            ev.count("name/long-30+bytes");
        }
        if f.kind == Kind::Patch && f.size.is_some() {
            ev.count("model/patch-with-size");
        }
        if f.sums.is_empty() {
            ev.count("model/size-only-file");
        }
    }
    let di = Distinfo::from_bytes(&d.text);
    ev.evals(compare_structure(&di, &d.model, true)?);
    if d.nfiles >= 2 && d.interleaved && d.ignored >= 1 {
        ev.nontrivial(hash_strs(&[&d.text]));
    }
    Ok(())
}

fn lib_kind(t: EntryType) -> Kind {
    match t {
        EntryType::Distfile => Kind::Dist,
        EntryType::Patchfile => Kind::Patch,
    }
}

/// One name: `EntryType::from`, and where a line for it lands.
fn classification(ev: &mut Ev, name: &[u8], want: Kind, hash: &str) -> CaseResult {
    let got = lib_kind(EntryType::from(OsStr::from_bytes(name)));
    ev.eval();
    if got != want {
        return Err(format!(
            "EntryType::from({:?}) is {}, the rule says {}",
            show(name),
            got.name(),
            want.name()
        )
        .into());
    }
    let mut m = DocModel::default();
    let f = FileModel {
        name: name.to_vec(),
        kind: want,
        sums: vec![(ALGS[3], hash.to_string())],
        size: None,
    };
    match want {
        Kind::Dist => m.dist.push(f),
        Kind::Patch => m.patch.push(f),
    }
    let text = sum_line(ALGS[3], name, hash);
    let di = Distinfo::from_bytes(&text);
    ev.evals(compare_structure(&di, &m, true)?);
    Ok(())
}

/// One name on which the readings of the rule differ (or which `Path`
/// normalisation touches): no expected kind, but the library's two routes to
/// the kind must agree - a line for the name is filed where the public
/// classifier `EntryType::from` puts the name, under exactly that name.
fn classification_consistent(ev: &mut Ev, name: &[u8], hash: &str) -> CaseResult {
    let kind = lib_kind(EntryType::from(OsStr::from_bytes(name)));
    ev.eval();
    let mut m = DocModel::default();
    let f = FileModel { name: name.to_vec(), kind, sums: vec![(ALGS[3], hash.to_string())], size: Some(7) };
    match kind {
        Kind::Dist => m.dist.push(f),
        Kind::Patch => m.patch.push(f),
    }
    let mut text = sum_line(ALGS[3], name, hash);
    text.extend_from_slice(b"Size (");
    text.extend_from_slice(name);
    text.extend_from_slice(b") = 7 bytes\n");
    let di = Distinfo::from_bytes(&text);
    ev.evals(compare_structure(&di, &m, true).map_err(|e| {
        crate::fw::Fail::from(format!("EntryType::from({:?}) says {}, but a line for that name is filed differently: {}", show(name), kind.name(), e))
    })?);
    Ok(())
}

fn alias(ev: &mut Ev, d: &gd::AliasDoc) -> CaseResult {
    ev.count("alias/docs");
    ev.count(&format!("alias/form/{}", d.form));
    let di = Distinfo::from_bytes(&d.text);
    ev.eval();
    let sep = compare_structure(&di, &d.separate, false);
    let Err(why) = sep else {
        ev.count("alias/kept-separate");
        return Ok(());
    };
    // K2 only if: the names differ as bytes, are equal as Path, and the
    // observation is exactly "second name's lines appended to the first
    // name's entry" (everything else as the statement says).
    let a = Path::new(OsStr::from_bytes(&d.first));
    let b = Path::new(OsStr::from_bytes(&d.second));
    let is_alias = d.first != d.second && a == b;
    if is_alias && compare_structure(&di, &d.merged, false).is_ok() {
        ev.count("alias/merged");
        return Err(known(
            K2,
            format!(
                "names {:?} and {:?} share one entry: {why}",
                show(&d.first),
                show(&d.second)
            ),
        ));
    }
    Err(format!("alias document: {why} (and the result is not the known merge either)").into())
}

pub fn run(cx: &mut Cx) {
    cx.default_budget();
    for c in gd::LINE_CLASSES {
        cx.ev.require(&format!("line/{}", c.name()));
    }
    for (_, _, row) in gd::CLASS_TABLE {
        cx.ev.require(&format!("table/{row}"));
    }
    for (k, _) in gd::DANGER {
        cx.ev.require(&format!("name-byte/{k}"));
    }
    for k in [
        "interleave/files-interleaved",
        "interleave/files-grouped",
        "alias/docs",
        "model/patch-with-size",
        "model/size-only-file",
    ] {
        cx.ev.require(k);
    }

    for k in [
        "files-per-doc/21-80",
        "shared-tail/shorter-first/distfile",
        "shared-tail/longer-first/distfile",
        "shared-tail/shorter-first/patch",
        "shared-tail/longer-first/patch",
        "shared-tail/lines-interleaved",
        "docs/shared-tail-workload",
        "related/one-name-prefix-of-other",
        "related/letter-case-twins",
        "related/lossy-utf8-twins",
        "name/long-30+bytes",
        "clause-name/patch",
        "clause-name/distfile",
        "outside-agreed-zone/names",
    ] {
        cx.ev.require(k);
    }
    for c in gd::CLAUSE_CLASSES {
        cx.ev.require(&format!("clause/{c}"));
    }

    // (a) interleaved well-formed and must-ignore lines.  One document in
    // `big_every` is large (21-300 files; one of 22 files per shard under Miri).
    let big_cap = cx.pick_tier(22usize, 300, 300, 300);
    let big_every = cx.pick_tier(20u64, 60, 60, 60);
    let n = cx.per_shard(160, 25_000, 400_000, 4_000_000);
    let mut r = cx.stream("interleaved");
    for i in 0..n {
        let big = if i % big_every == big_every - 1 { Some(big_cap) } else { None };
        let d = gd::c11_doc(&mut r, big);
        cx.check(
            || format!("distinfo text {:?}", clip(&d.text)),
            |ev| interleaved_doc(ev, &d, "interleaved"),
        );
    }

    // (a') shared-tail names: 'foo.tgz' / 'sub/foo.tgz' / 'a/sub/foo.tgz',
    // every order of first appearance, lines interleaved
    let n = cx.per_shard(24, 2_500, 40_000, 400_000);
    let mut r = cx.stream("shared-tail");
    for _ in 0..n {
        let d = gd::shared_tail_doc(&mut r);
        cx.check(
            || format!("distinfo text with names sharing trailing components {:?}", clip(&d.text)),
            |ev| interleaved_doc(ev, &d, "shared-tail"),
        );
    }

    // (b) classification table: every row in every shard (under Miri the
    // rows are dealt out over the shards), then variants
    let mut r = cx.stream("classification");
    let mut serial = 0u32;
    let deal = cx.tier == crate::fw::Tier::Mini;
    for (i, (name, kind, row)) in gd::CLASS_TABLE.into_iter().enumerate() {
        debug_assert_eq!(classify(name), Some(kind));
        let h = gd::unique_hash(&mut r, ALGS[3], &mut serial);
        if deal && !cx.mine(i as u64) {
            continue;
        }
        cx.check(
            || format!("classification table row {:?}", show(name)),
            |ev| {
                ev.count(&format!("table/{row}"));
                classification(ev, name, kind, &h)
            },
        );
    }
    let n = cx.per_shard(40, 4_000, 60_000, 600_000);
    for i in 0..n {
        let row = (i as usize) % gd::CLASS_TABLE.len();
        let v = gd::table_variant(&mut r, row);
        let h = gd::unique_hash(&mut r, ALGS[3], &mut serial);
        let Some((name, kind)) = v else { continue };
        cx.check(
            || format!("classification of {:?} (variant of table row {:?})", show(&name), show(gd::CLASS_TABLE[row].0)),
            |ev| {
                ev.count(&format!("table-variant/{}", kind.name()));
                classification(ev, &name, kind, &h)
            },
        );
    }

    // (b') names assembled from the clauses of the rule (heads x bodies x
    // stacked tails, and free mixtures of their fragments); the oracle refuses
    // the ones on which two readings differ
    let n = cx.per_shard(40, 8_000, 120_000, 1_200_000);
    for _ in 0..n {
        let name = gd::clause_name(&mut r);
        let h = gd::unique_hash(&mut r, ALGS[3], &mut serial);
        let kind = match classify(&name) {
            Some(k) if crate::oracle::distinfo::path_plain(&name) => k,
            _ => continue,
        };
        cx.check(
            || format!("classification of {:?} (assembled from the clauses of the rule)", show(&name)),
            |ev| {
                ev.count(&format!("clause-name/{}", kind.name()));
                for c in gd::clause_classes(&name) {
                    ev.count(&format!("clause/{c}"));
                }
                classification(ev, &name, kind, &h)
            },
        );
    }

    // (b'') names outside the zone in which all readings of the rule agree:
    // the rows of the table and clause names behind a directory, with a
    // trailing or doubled separator, a dot component - consistency of the two
    // routes only
    let n = cx.per_shard(20, 3_000, 40_000, 400_000);
    const DECOR: [(&[u8], &[u8]); 12] = [
        (b"", b"/"), (b"", b"//"), (b"", b"/."), (b"./", b""), (b"sub/", b"/"), (b"sub//", b""), (b"sub/./", b""),
        (b"/", b""), (b"sub/", b"//"), (b"a/b/", b"/."), (b"../", b""), (b"sub/", b""),
    ];
    for i in 0..n {
        let mut name = if i % 2 == 0 { gd::CLASS_TABLE[(i as usize / 2) % gd::CLASS_TABLE.len()].0.to_vec() } else { gd::clause_name(&mut r) };
        if i % 3 != 2 || (classify(&name).is_some() && crate::oracle::distinfo::path_plain(&name)) {
            let (pre, post) = *r.pick(&DECOR);
            name = [pre, &name[..], post].concat();
        }
        if name.is_empty() || (classify(&name).is_some() && crate::oracle::distinfo::path_plain(&name)) {
            continue;
        }
        let h = gd::unique_hash(&mut r, ALGS[3], &mut serial);
        cx.check(
            || format!("consistent filing of {:?} (the readings of the rule differ on it)", show(&name)),
            |ev| {
                ev.count("outside-agreed-zone/names");
                classification_consistent(ev, &name, &h)
            },
        );
    }

    // (c) alias workload (known finding K2)
    let n = cx.per_shard(24, 1_000, 16_000, 160_000);
    let mut r = cx.stream("alias");
    for _ in 0..n {
        let d = gd::alias_doc(&mut r);
        cx.check(
            || format!("alias names {:?} / {:?} in {:?}", show(&d.first), show(&d.second), clip(&d.text)),
            |ev| alias(ev, &d),
        );
    }
}
