//! C20 - package database iteration; metadata tables.
//!
//! Refuting events: the multiset of yielded `pkgname`s != the set of
//! sub-directories holding all of `+COMMENT`, `+CONTENTS`, `+DESC`; a package
//! yielded twice; `pkgbase`/`pkgversion` != the parts before/after the last
//! '-'; `read_metadata(e)` != the content of that package's file (or `Ok` for
//! an absent one); `from_filename(to_filename(e)) != e`, two entries sharing a
//! file name, a non-`+FILE` string mapped to an entry; `Metadata::is_valid()`
//! differs from "comment, contents, description all non-empty".
//!
//! The tree is built by the harness under `cx.scratch` (ground truth by
//! construction) outside the monitored body; only library calls happen inside.

use crate::fw::{CaseResult, Cx, Ev};
use crate::gen::misc::{self as gm, Tree};
use crate::oracle::misc::{self as om, MANDATORY, META_FILES};
use crate::rng::{hash_bytes, hash_strs};
use pkgsrc::pkgdb::PkgDB;
use pkgsrc::{Metadata, MetadataEntry};
use std::path::Path;

fn entry(i: usize) -> MetadataEntry {
    match i {
        0 => MetadataEntry::BuildInfo,
        1 => MetadataEntry::BuildVersion,
        2 => MetadataEntry::Comment,
        3 => MetadataEntry::Contents,
        4 => MetadataEntry::DeInstall,
        5 => MetadataEntry::Desc,
        6 => MetadataEntry::Display,
        7 => MetadataEntry::Install,
        8 => MetadataEntry::InstalledInfo,
        9 => MetadataEntry::MtreeDirs,
        10 => MetadataEntry::Preserve,
        11 => MetadataEntry::RequiredBy,
        12 => MetadataEntry::SizeAll,
        _ => MetadataEntry::SizePkg,
    }
}

fn must<T>(r: std::io::Result<T>, what: &str, p: &Path) -> T {
    match r {
        Ok(v) => v,
        Err(e) => {
            // Not a verdict: the harness could not prepare its own scratch tree.
            eprintln!("pvh: harness cannot {what} {p:?}: {e}");
            std::process::exit(70);
        }
    }
}

/// The procfs file an `OddKind::ProcLink` object points to (chosen by the
/// entry's name, so that building and checking agree), if this machine has
/// one with stable, non-empty UTF-8 content that reports size 0.
fn proc_target(name: &[u8]) -> &'static str {
    let k = hash_bytes(name) as usize;
    for d in 0..gm::PROC_TARGETS.len() {
        let t = gm::PROC_TARGETS[(k + d) % gm::PROC_TARGETS.len()];
        let ok = std::fs::read_to_string(t).map(|c| !c.is_empty()).unwrap_or(false);
        if ok {
            return t;
        }
    }
    "/proc/does-not-exist"
}

fn build_tree(root: &Path, t: &Tree) {
    must(std::fs::create_dir_all(root), "create", root);
    for d in &t.dirs {
        let dp = root.join(&d.name);
        must(std::fs::create_dir(&dp), "create", &dp);
        for (i, c) in d.files.iter().enumerate() {
            if let Some(c) = c {
                let fp = dp.join(META_FILES[i]);
                must(std::fs::write(&fp, c), "write", &fp);
            }
        }
        for (n, c) in &d.extra {
            let fp = dp.join(n);
            must(std::fs::write(&fp, c), "write", &fp);
        }
    }
    for (n, c) in &t.stray {
        let fp = root.join(n);
        must(std::fs::write(&fp, c), "write", &fp);
    }
    for o in &t.odd {
        use std::os::unix::ffi::OsStrExt;
        let dir = match o.place {
            Some(i) => root.join(&t.dirs[i].name),
            None => root.to_path_buf(),
        };
        let p = dir.join(std::ffi::OsStr::from_bytes(&o.name));
        match o.kind {
            gm::OddKind::File => must(std::fs::write(&p, b"odd\n"), "write", &p),
            gm::OddKind::DanglingLink => must(std::os::unix::fs::symlink("does/not/exist", &p), "link", &p),
            gm::OddKind::LinkLoop => must(std::os::unix::fs::symlink(std::ffi::OsStr::from_bytes(&o.name), &p), "link", &p),
            gm::OddKind::LinkToFile => must(std::os::unix::fs::symlink("/etc/hostname", &p), "link", &p),
            gm::OddKind::ProcLink => must(std::os::unix::fs::symlink(proc_target(&o.name), &p), "link", &p),
            gm::OddKind::BadUtf8Meta => must(std::fs::write(&p, gm::bad_utf8_content(&o.name)), "write", &p),
            gm::OddKind::EmptyDir => must(std::fs::create_dir(&p), "create", &p),
            gm::OddKind::IncompleteDir => {
                must(std::fs::create_dir(&p), "create", &p);
                let f = p.join("+COMMENT");
                must(std::fs::write(&f, b"c\n"), "write", &f);
            }
            gm::OddKind::CompleteDir => {
                must(std::fs::create_dir(&p), "create", &p);
                for m in MANDATORY {
                    let f = p.join(META_FILES[m]);
                    must(std::fs::write(&f, b"x\n"), "write", &f);
                }
            }
        }
    }
}

fn describe_tree(t: &Tree) -> String {
    let dirs: Vec<String> = t
        .dirs
        .iter()
        .map(|d| {
            let missing: Vec<&str> = (0..3)
                .filter(|b| d.missing_mask & (1 << b) != 0)
                .map(|b| META_FILES[MANDATORY[b]])
                .collect();
            let optional = d
                .files
                .iter()
                .enumerate()
                .filter(|(i, f)| f.is_some() && !MANDATORY.contains(i))
                .count();
            if missing.is_empty() {
                format!("{:?}(complete,+{optional} optional)", d.name)
            } else {
                format!("{:?}(missing {},+{optional} optional)", d.name, missing.join(" "))
            }
        })
        .collect();
    let stray: Vec<&str> = t.stray.iter().map(|(n, _)| n.as_str()).collect();
    let odd: Vec<String> = t
        .odd
        .iter()
        .map(|o| format!("{:?} {:?} in {}", o.kind, String::from_utf8_lossy(&o.name), o.place.map(|i| t.dirs[i].name.clone()).unwrap_or_else(|| "the database directory".into())))
        .collect();
    format!("dirs [{}] plain files {:?} other objects {:?}", dirs.join(", "), stray, odd)
}

fn check_tree(ev: &mut Ev, root: &Path, t: &Tree) -> CaseResult {
    ev.count("trees");
    if t.dirs.is_empty() {
        ev.count("trees/empty_database");
    }
    for d in &t.dirs {
        ev.count(&format!("dirs/missing_mask/{}", d.missing_mask));
    }
    ev.add("plain_files", t.stray.len() as u64);

    let db = PkgDB::open(root).map_err(|e| format!("PkgDB::open failed on a directory: {e}"))?;
    let limit = t.dirs.len() * 4 + t.stray.len() * 4 + 16;
    let mut seen: Vec<String> = vec![];
    for o in &t.odd {
        ev.count(&format!("other-objects/{:?}/{}", o.kind, if o.place.is_some() { "inside-a-package-directory" } else { "in-the-database-directory" }));
        if std::str::from_utf8(&o.name).is_err() {
            ev.count("other-objects/name-not-utf8");
        }
    }
    let unnameable = t.odd.iter().filter(|o| o.kind == gm::OddKind::CompleteDir).count();
    let mut errors = 0usize;
    for (k, item) in db.enumerate() {
        if k >= limit + unnameable {
            return Err(format!("iterator yielded more than {limit} items").into());
        }
        let pkg = match item {
            Ok(p) => p,
            // a complete package directory whose name is not UTF-8 has no
            // `pkgname`: one error item each is the most that may happen, and
            // the iteration has to go on with the other entries
            Err(_) if errors < unnameable => {
                errors += 1;
                ev.count("items/error-for-unnameable-package-directory");
                continue;
            }
            Err(e) => return Err(format!("iterator yielded an error: {e}").into()),
        };
        let name = pkg.pkgname().clone();
        let Some(d) = t.dirs.iter().find(|d| d.name == name) else {
            let what = if t.stray.iter().any(|(n, _)| *n == name) { "a plain file" } else { "no directory" };
            return Err(format!("yielded {name:?}, which is {what} of the database").into());
        };
        ev.eval();
        if !d.complete() {
            return Err(format!(
                "yielded {name:?} although it lacks mandatory files (mask {})",
                d.missing_mask
            )
            .into());
        }
        if seen.contains(&name) {
            return Err(format!("yielded {name:?} twice").into());
        }
        seen.push(name.clone());
        let (base, version) = om::split_last_dash(&name);
        ev.evals(2);
        if !name.contains('-') {
            // listed, as it must be; how a name without '-' splits is not stated
            ev.count("dirs/no_dash_listed");
        } else if pkg.pkgbase() != base || pkg.pkgversion() != version {
            return Err(format!(
                "{name:?}: pkgbase {:?} / pkgversion {:?}, the last '-' gives ({base:?}, {version:?})",
                pkg.pkgbase(),
                pkg.pkgversion()
            )
            .into());
        }
        for i in 0..14 {
            ev.eval();
            let got = pkg.read_metadata(entry(i));
            match (&d.files[i], got) {
                (Some(want), Ok(g)) => {
                    ev.count("metadata/read_present");
                    if g != *want {
                        return Err(format!(
                            "{name:?}: read_metadata({:?}) returned {g:?}, the file {} holds {want:?}",
                            entry(i),
                            META_FILES[i]
                        )
                        .into());
                    }
                }
                (None, got) if t.odd.iter().any(|o| o.kind == gm::OddKind::BadUtf8Meta && o.place.map(|k| t.dirs[k].name == name).unwrap_or(false) && o.name == META_FILES[i].as_bytes()) => {
                    ev.count("metadata/read_not_utf8");
                    // an error, or (a lenient reader) the lossy decoding of the
                    // whole file - never a part of it
                    let lossy = String::from_utf8_lossy(&gm::bad_utf8_content(META_FILES[i].as_bytes())).into_owned();
                    if let Ok(g) = got.as_ref().map_err(|_| ()).and_then(|g| if *g == lossy { Err(()) } else { Ok(g.clone()) }) {
                        return Err(format!(
                            "{name:?}: read_metadata({:?}) returned {g:?} although {} is not UTF-8 (it holds {:?})",
                            entry(i),
                            META_FILES[i],
                            String::from_utf8_lossy(&gm::bad_utf8_content(META_FILES[i].as_bytes())).chars().rev().take(12).collect::<String>().chars().rev().collect::<String>()
                        )
                        .into());
                    }
                }
                (None, got) if t.odd.iter().any(|o| o.kind == gm::OddKind::ProcLink && o.place.map(|k| t.dirs[k].name == name).unwrap_or(false) && o.name == META_FILES[i].as_bytes()) => {
                    // the entry is a symbolic link to a kernel-generated file
                    let target = proc_target(META_FILES[i].as_bytes());
                    match (std::fs::read_to_string(target), got) {
                        (Ok(want), Ok(g)) => {
                            ev.count("metadata/read_through_link_to_procfs");
                            if g != want {
                                return Err(format!(
                                    "{name:?}: read_metadata({:?}) returned {g:?}; {} is a symbolic link to {target}, which holds {want:?}",
                                    entry(i),
                                    META_FILES[i]
                                )
                                .into());
                            }
                        }
                        (Ok(want), Err(e)) => {
                            return Err(format!("{name:?}: read_metadata({:?}) failed ({e}) although {} links to {target} holding {want:?}", entry(i), META_FILES[i]).into())
                        }
                        (Err(_), _) => ev.count("metadata/procfs_not_available"),
                    }
                }
                (None, Err(_)) => ev.count("metadata/read_absent"),
                (Some(_), Err(e)) => {
                    return Err(format!(
                        "{name:?}: read_metadata({:?}) failed ({e}) although {} exists",
                        entry(i),
                        META_FILES[i]
                    )
                    .into())
                }
                (None, Ok(g)) => {
                    return Err(format!(
                        "{name:?}: read_metadata({:?}) returned {g:?} although {} does not exist",
                        entry(i),
                        META_FILES[i]
                    )
                    .into())
                }
            }
        }
    }
    ev.eval();
    for d in &t.dirs {
        if d.complete() && !seen.contains(&d.name) {
            return Err(format!("complete package directory {:?} was not yielded", d.name).into());
        }
    }
    ev.add("packages_yielded", seen.len() as u64);
    if unnameable == 0 {
        check_adaptors(ev, root, t)?;
    }
    if hash_strs(&t.dirs.iter().map(|d| d.name.as_bytes()).collect::<Vec<_>>()) % 3 == 0 {
        check_open_routes(ev, root, t, &seen)?;
    }
    let multi = t.dirs.iter().filter(|d| d.complete() && om::count_dashes(&d.name) >= 2).count();
    if multi > 0 || t.dirs.iter().any(|d| !d.complete()) {
        let names: Vec<&[u8]> = t.dirs.iter().map(|d| d.name.as_bytes()).collect();
        ev.nontrivial(hash_strs(&names) ^ t.dirs.iter().map(|d| d.missing_mask as u64).sum::<u64>());
    }
    Ok(())
}

/// The same database reached by other spellings of its path and through
/// symbolic links: a trailing separator, `.` components, `<package dir>/..`, a
/// link to the database with an absolute and with a relative target, and
/// `<link into the database>/..` (which the system resolves through the link's
/// target, not by cutting the text).  Every route the system resolves to the
/// database directory lists what the plain path lists.
fn check_open_routes(ev: &mut Ev, root: &Path, t: &Tree, listed: &[String]) -> CaseResult {
    if cfg!(miri) {
        return Ok(());
    }
    let Some(parent) = root.parent() else { return Ok(()) };
    let Some(rname) = root.file_name() else { return Ok(()) };
    let Ok(real) = std::fs::canonicalize(root) else { return Ok(()) };
    let mut want: Vec<String> = listed.to_vec();
    want.sort();
    let mut routes: Vec<(String, std::path::PathBuf)> = vec![
        ("trailing separator".into(), Path::new(&format!("{}/", root.display())).to_path_buf()),
        ("dot component".into(), root.join(".")),
        ("dot components inside".into(), parent.join(".").join(rname).join("./")),
    ];
    let mut links: Vec<std::path::PathBuf> = vec![];
    if let Some(d) = t.dirs.first() {
        routes.push(("package directory and back".into(), root.join(&d.name).join("..")));
        // a link next to the database that leads into it: "<link>/.." is the database
        let l = parent.join(format!("{}.into", rname.to_string_lossy()));
        let _ = std::fs::remove_file(&l);
        if std::os::unix::fs::symlink(real.join(&d.name), &l).is_ok() {
            routes.push(("link into the database, then ..".into(), l.join("..")));
            links.push(l);
        }
    }
    let la = parent.join(format!("{}.abs", rname.to_string_lossy()));
    let _ = std::fs::remove_file(&la);
    if std::os::unix::fs::symlink(&real, &la).is_ok() {
        routes.push(("link with an absolute target".into(), la.clone()));
        links.push(la);
    }
    let lr = parent.join(format!("{}.rel", rname.to_string_lossy()));
    let _ = std::fs::remove_file(&lr);
    if std::os::unix::fs::symlink(rname, &lr).is_ok() {
        routes.push(("link with a relative target".into(), lr.clone()));
        links.push(lr);
    }
    let mut res: CaseResult = Ok(());
    for (what, path) in &routes {
        if std::fs::canonicalize(path).ok().as_ref() != Some(&real) {
            ev.count("open-routes/not-resolving-here");
            continue;
        }
        ev.eval();
        ev.count("open-routes/opened");
        let got: Result<Vec<String>, String> = match PkgDB::open(path) {
            Err(e) => Err(format!("PkgDB::open failed: {e}")),
            Ok(db) => {
                let mut v: Vec<String> = db.take(listed.len() * 2 + 64).filter_map(|i| i.ok()).map(|p| p.pkgname().clone()).collect();
                v.sort();
                Ok(v)
            }
        };
        match got {
            Ok(v) if v == want => {}
            Ok(v) => {
                res = Err(format!("opened as {path:?} ({what}; the system resolves it to the database directory) the database lists {v:?}, opened by its plain path {want:?}").into());
                break;
            }
            Err(e) => {
                res = Err(format!("opened as {path:?} ({what}; the system resolves it to the database directory): {e}").into());
                break;
            }
        }
    }
    for l in links {
        let _ = std::fs::remove_file(l);
    }
    res
}

/// "Each once" also for a caller that does not walk the iterator with a plain
/// `for`: count, last, nth, skip, step_by and size_hint of a fresh iterator
/// over the same directory must agree with the N installed packages (the
/// Iterator contract; std's Skip and StepBy are built on nth).
fn check_adaptors(ev: &mut Ev, root: &Path, t: &Tree) -> CaseResult {
    let complete: Vec<&str> = t.dirs.iter().filter(|d| d.complete()).map(|d| d.name.as_str()).collect();
    let n = complete.len();
    let open = || PkgDB::open(root).map_err(|e| crate::fw::Fail::from(format!("PkgDB::open failed on a directory: {e}")));
    let cap = n + t.dirs.len() * 4 + t.stray.len() * 4 + 16;
    ev.evals(4);
    ev.count("adaptors/trees");
    let (lo, hi) = open()?.size_hint();
    if lo > n || hi.map_or(false, |h| h < n) {
        return Err(format!("size_hint() = ({lo}, {hi:?}) but the database holds {n} packages").into());
    }
    let c = open()?.take(cap).count();
    if c != n {
        return Err(format!("count() = {c}, the database holds {n} packages").into());
    }
    match open()?.take(cap).last() {
        None if n == 0 => {}
        Some(Ok(p)) if complete.contains(&p.pkgname().as_str()) => {}
        other => {
            return Err(format!(
                "last() = {:?}, the database holds {n} packages",
                other.map(|r| r.map(|p| p.pkgname().clone()).map_err(|e| e.to_string()))
            )
            .into())
        }
    }
    let mut ks: Vec<usize> = vec![0, 1, 2, n.saturating_sub(1), n, n + 1];
    ks.sort();
    ks.dedup();
    for k in ks {
        ev.evals(3);
        match open()?.nth(k) {
            None if k >= n => {}
            Some(Ok(p)) if k < n && complete.contains(&p.pkgname().as_str()) => {}
            other => {
                return Err(format!(
                    "nth({k}) = {:?}, the database holds {n} packages",
                    other.map(|r| r.map(|p| p.pkgname().clone()).map_err(|e| e.to_string()))
                )
                .into())
            }
        }
        let rest = open()?.skip(k).take(cap).count();
        if rest != n.saturating_sub(k) {
            return Err(format!("skip({k}).count() = {rest}, the database holds {n} packages").into());
        }
        let step = k + 1;
        let got = open()?.step_by(step).take(cap).count();
        if got != (n + step - 1) / step {
            return Err(format!("step_by({step}).count() = {got}, the database holds {n} packages").into());
        }
    }
    Ok(())
}

/// A database directory that is large in entries, not in packages: `strays`
/// plain files and `incomplete` directories around three installed packages.
fn big_tree(strays: usize, incomplete: usize) -> Tree {
    let mk = |name: String, mask: u8| {
        let mut files: [Option<String>; 14] = Default::default();
        for (bit, &m) in MANDATORY.iter().enumerate() {
            if mask & (1 << bit) == 0 {
                files[m] = Some(format!("{name} {}\n", META_FILES[m]));
            }
        }
        gm::PkgDir { name, files, extra: vec![], missing_mask: mask }
    };
    let mut dirs = vec![mk("first-1.0".into(), 0), mk("middle-pkg-2.0nb1".into(), 0), mk("zlast-3".into(), 0)];
    // the size ladder for metadata files: +CONTENTS of 2^27 bytes plus a little,
    // +DESC of 2^22, +BUILD_INFO of 2^20 (a cap on what read_metadata returns
    // shows one rung above it); only with the full-size tree
    if strays >= 10_000 {
        let line = "lib/libexample.so.1.2.3\n";
        // (2^27 bytes and a little for +CONTENTS: past a 128 MiB guard)
        dirs[1].files[MANDATORY[1]] = Some(line.repeat((1 << 27) / line.len() + 173));
        dirs[1].files[MANDATORY[2]] = Some("A long description.\n".repeat((1 << 22) / 20 + 2));
        dirs[1].files[0] = Some("OPSYS=NetBSD\n".repeat((1 << 20) / 13 + 2));
    }
    for i in 0..incomplete {
        dirs.push(mk(format!("partial{i}-0.{i}"), 1 + (i % 7) as u8));
    }
    let stray = (0..strays).map(|i| (format!("stray{i:06}"), String::new())).collect();
    Tree { dirs, stray, odd: vec![] }
}

fn check_tables(ev: &mut Ev, mutated: &[String]) -> CaseResult {
    // entry -> name -> entry, against the harness' own table
    let mut names: Vec<String> = vec![];
    for i in 0..14 {
        ev.evals(3);
        ev.count("table/rows");
        let e = entry(i);
        let f = e.to_filename().to_string();
        if f != META_FILES[i] {
            return Err(format!("{e:?}.to_filename() is {f:?}, expected {:?}", META_FILES[i]).into());
        }
        if names.contains(&f) {
            return Err(format!("two entries share the file name {f:?}").into());
        }
        match MetadataEntry::from_filename(&f) {
            Some(back) if back == e => {}
            other => {
                return Err(format!("from_filename(to_filename({e:?})) is {other:?}").into());
            }
        }
        match MetadataEntry::from_filename(META_FILES[i]) {
            Some(back) if back == e => {}
            other => {
                return Err(format!("from_filename({:?}) is {other:?}, expected {e:?}", META_FILES[i]).into());
            }
        }
        names.push(f);
    }
    for s in gm::NEAR_MISS.iter().map(|s| s.to_string()).chain(mutated.iter().cloned()) {
        ev.eval();
        let want = META_FILES.iter().position(|f| *f == s);
        let got = MetadataEntry::from_filename(&s);
        match (want, got) {
            (None, None) => ev.count("table/near_miss_rejected"),
            (Some(i), Some(g)) if g == entry(i) => ev.count("table/mutated_is_real_name"),
            (want, got) => {
                return Err(format!(
                    "from_filename({s:?}) is {got:?}, expected {:?}",
                    want.map(entry)
                )
                .into())
            }
        }
    }
    ev.nontrivial(hash_bytes(mutated.concat().as_bytes()));
    Ok(())
}

/// Dictionary prefixes / suffixes / respellings around the 14 real names:
/// none of them is a '+' file, so none may map to an entry.
fn check_decorated(ev: &mut Ev, names: &[String]) -> CaseResult {
    for s in names {
        ev.eval();
        if META_FILES.contains(&s.as_str()) {
            continue;
        }
        match MetadataEntry::from_filename(s) {
            None => ev.count("table/decorated_rejected"),
            Some(g) => {
                return Err(format!(
                    "from_filename({s:?}) is Some({g:?}) whose to_filename() is {:?}: two strings map to one entry, the conversion is not a bijection over the 14 names",
                    g.to_filename()
                )
                .into())
            }
        }
    }
    ev.nontrivial(hash_bytes(names.concat().as_bytes()));
    Ok(())
}

struct ValidCase {
    /// Text per mandatory entry; `None` = read_metadata is not called at all.
    texts: [Option<String>; 3],
    order: Vec<usize>,
    optional: Vec<(usize, String)>,
}

fn check_is_valid(ev: &mut Ev, c: &ValidCase) -> CaseResult {
    let mut m = Metadata::new();
    for &k in &c.order {
        if k < 3 {
            if let Some(t) = &c.texts[k] {
                m.read_metadata(entry(MANDATORY[k]), t)
                    .map_err(|e| format!("read_metadata({:?}) failed: {e}", entry(MANDATORY[k])))?;
            }
        } else if let Some((i, t)) = c.optional.get(k - 3) {
            m.read_metadata(entry(*i), t)
                .map_err(|e| format!("read_metadata({:?}, {t:?}) failed: {e}", entry(*i)))?;
        }
    }
    let nonempty: Vec<bool> =
        c.texts.iter().map(|t| t.as_ref().map(|s| !s.is_empty()).unwrap_or(false)).collect();
    let want = nonempty.iter().all(|b| *b);
    let mask = nonempty.iter().enumerate().map(|(i, b)| (*b as usize) << i).sum::<usize>();
    ev.count(&format!("is_valid/nonempty_mask/{mask}"));
    ev.eval();
    let got = m.is_valid().is_ok();
    if got != want {
        return Err(format!(
            "is_valid() is {}, comment/contents/desc non-empty = {nonempty:?}",
            if got { "Ok" } else { "Err" }
        )
        .into());
    }
    ev.nontrivial(hash_strs(&[
        c.texts[0].as_deref().unwrap_or("\0").as_bytes(),
        c.texts[1].as_deref().unwrap_or("\0").as_bytes(),
        c.texts[2].as_deref().unwrap_or("\0").as_bytes(),
    ]));
    Ok(())
}

pub fn run(cx: &mut Cx) {
    cx.default_budget();
    for mask in 0..8 {
        cx.ev.require(&format!("dirs/missing_mask/{mask}"));
        cx.ev.require(&format!("is_valid/nonempty_mask/{mask}"));
    }
    for k in [
        "trees/empty_database",
        "adaptors/trees",
        "trees/big",
        "plain_files",
        "open/missing_path",
        "open/plain_file",
        "metadata/read_present",
        "metadata/read_absent",
        "table/rows",
        "table/near_miss_rejected",
        "table/decorated_rejected",
    ] {
        cx.ev.require(k);
    }
    if cx.tier != crate::fw::Tier::Mini {
        for k in [
            "other-objects/name-not-utf8",
            "other-objects/CompleteDir/in-the-database-directory",
            "other-objects/File/inside-a-package-directory",
            "other-objects/DanglingLink/in-the-database-directory",
            "other-objects/LinkLoop/in-the-database-directory",
        ] {
            cx.ev.require(k);
        }
    }
    let scratch = cx.scratch.clone();
    must(std::fs::create_dir_all(&scratch), "create", &scratch);

    // (a) trees
    let n = cx.per_shard(16, 320, 1_600, 24_000);
    let mut r = cx.stream("trees");
    let mut serial = 0usize;
    for k in 0..n {
        let t = gm::tree(&mut r, &mut serial);
        let root = scratch.join(format!("db{k}"));
        let will_run = cx.replay.map_or(true, |target| target == cx.idx + 1) && !cx.describe_only;
        if will_run {
            build_tree(&root, &t);
        }
        cx.check(|| describe_tree(&t), |ev| check_tree(ev, &root, &t));
        if will_run {
            let _ = std::fs::remove_dir_all(&root);
        }
    }

    // (a2) one database with very many non-package entries (a walk whose
    // stack or time grows with the number of skipped entries shows here)
    if cx.mine(0) {
        let (strays, incomplete) = cx.pick_tier((300usize, 20usize), (6_000, 300), (66_000, 600), (150_000, 3_000));
        let t = big_tree(strays, incomplete);
        let root = scratch.join("db-big");
        let will_run = cx.replay.map_or(true, |target| target == cx.idx + 1) && !cx.describe_only;
        if will_run {
            build_tree(&root, &t);
        }
        cx.set_budget(1 << 26, 1 << 34);
        cx.check(
            || format!("big database: 3 packages, {incomplete} incomplete directories, {strays} plain files"),
            |ev| {
                ev.count("trees/big");
                check_tree(ev, &root, &t)
            },
        );
        cx.default_budget();
        if will_run {
            let _ = std::fs::remove_dir_all(&root);
        }
    }

    // (b) a missing path and a plain file instead of a directory
    let missing = scratch.join("no-such-db");
    cx.check(
        || "PkgDB::open on a path that does not exist".to_string(),
        |ev| {
            ev.count("open/missing_path");
            ev.eval();
            // The statement speaks of iterating a database; for a path that
            // does not exist it only follows that no package may be yielded.
            match PkgDB::open(&missing) {
                Err(_) => {
                    ev.count("open/missing_path/err");
                    Ok(())
                }
                Ok(db) => {
                    ev.count("open/missing_path/ok_no_items");
                    let n = db.take(4).count();
                    if n == 0 {
                        Ok(())
                    } else {
                        Err(format!("a missing path opened as a database yields {n} item(s)").into())
                    }
                }
            }
        },
    );
    let file = scratch.join("plain-file-db");
    must(std::fs::write(&file, "not a directory\n"), "write", &file);
    cx.check(
        || "PkgDB::open on a plain file".to_string(),
        |ev| {
            ev.count("open/plain_file");
            ev.eval();
            match PkgDB::open(&file) {
                Err(_) => {
                    ev.count("open/plain_file/err");
                    Ok(())
                }
                Ok(db) => {
                    ev.count("open/plain_file/ok_no_items");
                    let n = db.take(4).count();
                    if n == 0 {
                        Ok(())
                    } else {
                        Err(format!("a plain file opened as a database yields {n} item(s)").into())
                    }
                }
            }
        },
    );

    // (c) MetadataEntry <-> file name table, near-miss names
    let mut r = cx.stream("names");
    let nmut = cx.pick_tier(20, 200, 2_000, 20_000);
    let mutated: Vec<String> = (0..nmut).map(|_| gm::mutate_name(&mut r)).collect();
    cx.check(
        || format!("metadata table both ways, {} near-miss and {} mutated names", gm::NEAR_MISS.len(), mutated.len()),
        |ev| check_tables(ev, &mutated),
    );

    // (c2) the 14 names with dictionary prefixes / suffixes / respellings;
    // one case per real name so that a witness names its row
    for (i, f) in META_FILES.iter().enumerate() {
        if !cx.mine(i as u64) {
            continue;
        }
        let mine = gm::decorated_names(f);
        cx.check(
            || format!("{} decorated spellings of {f} (prefixes ./ / ../ dir/ blank BOM +, suffixes .gz / .orig ~ blank newline, case, '_')", mine.len()),
            |ev| check_decorated(ev, &mine),
        );
    }

    // (d) Metadata::is_valid over all 8 empty/non-empty combinations
    let reps = cx.per_shard(16, 160, 1_600, 16_000);
    let mut r = cx.stream("is-valid");
    const TEXTS: [&str; 6] = [
        "A comment",
        "  padded text \n",
        "line one\nline two\n",
        "x",
        "\n\u{e9}\u{20ac}\n",
        "@name foo-1.0\nbin/foo\n",
    ];
    for rep in 0..reps {
        for mask in 0..8usize {
            let mut texts: [Option<String>; 3] = Default::default();
            for (k, slot) in texts.iter_mut().enumerate() {
                *slot = if mask & (1 << k) != 0 {
                    Some(r.pick(&TEXTS).to_string())
                } else if (rep + k as u64) % 2 == 0 {
                    Some(String::new())
                } else {
                    None
                };
            }
            let mut optional = vec![];
            for i in [0usize, 4, 6, 10, 13] {
                if r.chance(1, 3) {
                    let t = if i == 13 { "12345\n".to_string() } else { format!("optional {i}\n") };
                    optional.push((i, t));
                }
            }
            let mut order: Vec<usize> = (0..3 + optional.len()).collect();
            r.shuffle(&mut order);
            let c = ValidCase { texts, order, optional };
            cx.check(
                || format!("is_valid with comment/contents/desc = {:?}, optional entries {:?}", c.texts, c.optional),
                |ev| check_is_valid(ev, &c),
            );
        }
    }
}
