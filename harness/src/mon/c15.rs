//! C15 - PLIST queries agree with each other and with the entry sequence.
//!
//! Refuting event: any of files / files_prefixed / install_cmds /
//! uninstall_cmds / depends / build_depends / conflicts / pkgdirs / pkgrmdirs
//! / pkgname / display / is_preserve differs from the reference view of the
//! entry sequence (one fold, `oracle::plist::views`), or the four file views
//! do not hold the same files in the same order.
//!
//! The sequences come from C14's line generator and go through the parser.
//! C15 speaks about "any parsed packing list": when the parsed sequence is
//! not the generated one (that is C14's refuting event, reported there) the
//! case is counted under `skipped/..` and not judged here.

use super::c14::{debug_agrees, Q};
use crate::fw::{CaseResult, Cx, Ev};
use crate::gen::plist::{self as gp, Line};
use crate::oracle::plist as op;
use crate::rng::hash_strs;
use pkgsrc::plist::{Plist, PlistEntry};
use std::ffi::OsStr;
use std::os::unix::ffi::OsStrExt;

fn shows(v: &[Vec<u8>]) -> String {
    format!("[{}]", v.iter().map(|b| format!("{:?}", Q(b))).collect::<Vec<_>>().join(", "))
}

fn cmp_bytes(ev: &mut Ev, what: &str, got: Vec<Vec<u8>>, want: &[Vec<u8>]) -> Result<(), String> {
    ev.eval();
    if got != want {
        return Err(format!("{what}() = {}, expected {}", shows(&got), shows(want)));
    }
    Ok(())
}

fn cmp_entries(
    ev: &mut Ev,
    what: &str,
    got: &[&PlistEntry],
    model: &[&PlistEntry],
    want: &[usize],
) -> Result<(), String> {
    ev.eval();
    let g = op::keys(got.iter().copied());
    let w: Vec<&PlistEntry> = want.iter().map(|&i| model[i]).collect();
    if g != op::keys(w.iter().copied()) {
        return Err(format!("{what}() = {got:?}, expected {w:?}"));
    }
    Ok(())
}

fn osv(v: Vec<&OsStr>) -> Vec<Vec<u8>> {
    v.into_iter().map(|x| x.as_bytes().to_vec()).collect()
}
fn strv(v: Vec<&str>) -> Vec<Vec<u8>> {
    v.into_iter().map(|x| x.as_bytes().to_vec()).collect()
}
fn sv(v: &[String]) -> Vec<Vec<u8>> {
    v.iter().map(|x| x.as_bytes().to_vec()).collect()
}

fn files_of(v: &[&PlistEntry]) -> Vec<Vec<u8>> {
    v.iter()
        .filter_map(|e| match e {
            PlistEntry::File(f) => Some(f.as_bytes().to_vec()),
            _ => None,
        })
        .collect()
}

/// Compare all twelve queries of `p` with the reference views of `model`.
fn compare(ev: &mut Ev, p: &Plist, model: &[&PlistEntry]) -> Result<op::Views, String> {
    let want = op::views(model);
    let files = osv(p.files());
    let prefixed: Vec<Vec<u8>> = p.files_prefixed().into_iter().map(|x| x.as_bytes().to_vec()).collect();
    let install = p.install_cmds();
    let uninstall = p.uninstall_cmds();

    cmp_bytes(ev, "files", files.clone(), &want.files)?;
    cmp_bytes(ev, "files_prefixed", prefixed.clone(), &want.files_prefixed)?;
    cmp_entries(ev, "install_cmds", &install, model, &want.install)?;
    cmp_entries(ev, "uninstall_cmds", &uninstall, model, &want.uninstall)?;
    cmp_bytes(ev, "depends", strv(p.depends()), &sv(&want.depends))?;
    cmp_bytes(ev, "build_depends", strv(p.build_depends()), &sv(&want.build_depends))?;
    cmp_bytes(ev, "conflicts", strv(p.conflicts()), &sv(&want.conflicts))?;
    cmp_bytes(ev, "pkgdirs", osv(p.pkgdirs()), &want.pkgdirs)?;
    cmp_bytes(ev, "pkgrmdirs", osv(p.pkgrmdirs()), &want.pkgrmdirs)?;
    ev.eval();
    let name = p.pkgname();
    if name != want.pkgname.as_deref() {
        return Err(format!("pkgname() = {name:?}, expected {:?}", want.pkgname));
    }
    ev.eval();
    let disp = p.display().map(|d| d.as_bytes().to_vec());
    if disp != want.display {
        return Err(format!(
            "display() = {:?}, expected {:?}",
            disp.as_deref().map(|b| Q(b)),
            want.display.as_deref().map(|b| Q(b))
        ));
    }
    ev.eval();
    let pres = p.is_preserve();
    if pres != want.preserve {
        return Err(format!("is_preserve() = {pres}, expected {}", want.preserve));
    }

    // Cross-view law on the observations themselves: the four file views
    // hold the same files in the same order.
    ev.eval();
    let fi = files_of(&install);
    let fu = files_of(&uninstall);
    if fi != files || fu != files || prefixed.len() != files.len() {
        return Err(format!(
            "file views disagree: files() = {}, files in install_cmds() = {}, in uninstall_cmds() = {}, files_prefixed() = {}",
            shows(&files),
            shows(&fi),
            shows(&fu),
            shows(&prefixed)
        ));
    }
    for (f, pf) in files.iter().zip(&prefixed) {
        let ok = pf.len() > f.len() && pf.ends_with(f) && pf[pf.len() - f.len() - 1] == b'/';
        if !ok {
            return Err(format!(
                "files_prefixed() element {:?} is not <dir>/ + files() element {:?}",
                Q(pf),
                Q(f)
            ));
        }
    }
    Ok(want)
}

/// Ignore-pattern / prefix / multiplicity classes of a sequence, for the
/// evidence histogram (a separate scan; nothing here is compared).
fn classify(model: &[&PlistEntry]) -> Vec<String> {
    use PlistEntry as E;
    let mut c: Vec<String> = vec![];
    let mut pending = false; // an @ignore since the last file
    let mut run = 0usize; // consecutive @ignore entries
    let mut since: Vec<&PlistEntry> = vec![]; // entries between the last @ignore and now
    let mut seen_file = false;
    let mut prefix: Option<Vec<u8>> = None;
    let mut cwd_in_window = false;
    let (mut names, mut displays, mut preserves, mut ignores) = (0, 0, 0, 0);
    for &e in model {
        match e {
            E::Ignore => {
                ignores += 1;
                run = if pending && since.is_empty() { run + 1 } else { 1 };
                if run >= 2 {
                    c.push("ign/consecutive".into());
                }
                pending = true;
                since.clear();
                cwd_in_window = false;
            }
            E::File(_) => {
                if pending {
                    c.push(match since.len() {
                        0 => "ign/adjacent".to_string(),
                        1 => "ign/separated-by-1".to_string(),
                        2 => "ign/separated-by-2".to_string(),
                        3 => "ign/separated-by-3".to_string(),
                        _ => "ign/separated-by-4+".to_string(),
                    });
                    for s in &since {
                        c.push(format!("ign/separator/{}", kind_name(s)));
                    }
                    if !seen_file {
                        c.push("ign/before-first-file".into());
                    }
                    if cwd_in_window {
                        c.push("cwd/changed-between-ignore-and-file".into());
                    }
                } else {
                    match &prefix {
                        None => c.push("cwd/none-yet".into()),
                        Some(p) => {
                            let utf8 = std::str::from_utf8(p).is_ok();
                            let slash = p.last() == Some(&b'/');
                            c.push(format!(
                                "cwd/{}/{}",
                                if utf8 { "utf8" } else { "non-utf8" },
                                if slash { "trailing-slash" } else { "no-trailing-slash" }
                            ));
                        }
                    }
                }
                pending = false;
                run = 0;
                since.clear();
                seen_file = true;
            }
            other => {
                if pending {
                    since.push(other);
                }
                match other {
                    E::Cwd(d) => {
                        if pending {
                            cwd_in_window = true;
                        }
                        prefix = Some(d.as_bytes().to_vec());
                    }
                    E::Name(_) => names += 1,
                    E::Display(_) => displays += 1,
                    E::PkgOpt(_) => preserves += 1,
                    _ => {}
                }
            }
        }
    }
    if pending {
        c.push("ign/trailing".into());
    }
    if ignores == 0 {
        c.push("ign/none".into());
    }
    let mult = |n: usize| match n {
        0 => "absent",
        1 => "once",
        _ => "repeated",
    };
    c.push(format!("name/{}", mult(names)));
    c.push(format!("display/{}", mult(displays)));
    c.push(format!("preserve/{}", mult(preserves)));
    c.push(format!(
        "length/{}",
        match model.len() {
            0 => "0",
            1..=5 => "1-5",
            6..=15 => "6-15",
            16..=30 => "16-30",
            31..=99 => "31-99",
            _ => "100+",
        }
    ));
    c.sort();
    c.dedup();
    c
}

fn kind_name(e: &PlistEntry) -> &'static str {
    use PlistEntry as E;
    #[allow(unreachable_patterns)]
    match e {
        E::File(_) => "file",
        E::Cwd(_) => "cwd",
        E::Exec(_) => "exec",
        E::UnExec(_) => "unexec",
        E::Mode(_) => "mode",
        E::PkgOpt(_) => "option",
        E::Owner(_) => "owner",
        E::Group(_) => "group",
        E::Comment(_) => "comment",
        E::Ignore => "ignore",
        E::Name(_) => "name",
        E::PkgDir(_) => "pkgdir",
        E::DirRm(_) => "dirrm",
        E::Display(_) => "display",
        E::PkgDep(_) => "pkgdep",
        E::BldDep(_) => "blddep",
        E::PkgCfl(_) => "pkgcfl",
        _ => "other",
    }
}

fn check_seq(ev: &mut Ev, scenario: &str, lines: &[Line], doc: &[u8], dups: bool) -> CaseResult {
    let model: Vec<&PlistEntry> = lines.iter().filter_map(|l| l.entry()).collect();
    let p = match Plist::from_bytes(doc) {
        Ok(p) => p,
        Err(_) => {
            ev.count("skipped/parse-failed");
            return Ok(());
        }
    };
    if model.len() != lines.len() || debug_agrees(&p, &model).is_err() {
        ev.count("skipped/entries-differ-from-generated");
        return Ok(());
    }
    let want = compare(ev, &p, &model)?;
    ev.count(&format!("scenario/{scenario}"));
    for c in classify(&model) {
        ev.count(&c);
    }
    if dups {
        ev.count("duplicates/present");
    }
    ev.add("files/kept", want.files.len() as u64);
    ev.add("files/ignored", want.ignored_files as u64);
    if want.ignored_files >= 1 && want.cwd_changes >= 1 {
        ev.nontrivial(hash_strs(&[doc]));
    }
    Ok(())
}

pub fn run(cx: &mut Cx) {
    cx.default_budget();
    for k in [
        "ign/none",
        "ign/adjacent",
        "ign/consecutive",
        "ign/trailing",
        "ign/separated-by-1",
        "ign/separated-by-2",
        "ign/separated-by-3",
        "ign/before-first-file",
        "cwd/none-yet",
        "cwd/utf8/trailing-slash",
        "cwd/utf8/no-trailing-slash",
        "cwd/non-utf8/trailing-slash",
        "cwd/non-utf8/no-trailing-slash",
        "cwd/changed-between-ignore-and-file",
        "name/absent",
        "name/once",
        "name/repeated",
        "display/absent",
        "display/once",
        "display/repeated",
        "preserve/absent",
        "preserve/once",
        "preserve/repeated",
        "length/0",
        "length/16-30",
        "length/31-99",
        "scenario/realistic",
        "duplicates/present",
        "scenario/long",
    ] {
        cx.ev.require(k);
    }
    for k in gp::OTHER_KINDS {
        let e = match gp::entry(*k, Some(b"preserve")).or_else(|| gp::entry(*k, None)) {
            Some(e) => e,
            None => continue,
        };
        cx.ev.require(&format!("ign/separator/{}", kind_name(&e)));
    }
    let (shard, nshards) = (cx.shard as usize, cx.nshards as usize);
    let n = cx.per_shard(208, 20_000, 400_000, 3_200_000);
    let mut r = cx.stream("sequences");
    for k in 0..n as usize {
        let g = k * nshards + shard;
        let sc = g % gp::SCENARIOS.len();
        let rot = g / gp::SCENARIOS.len();
        let mut lines = gp::sequence(&mut r, sc, rot);
        let dups = r.chance(1, 5) && !lines.is_empty();
        if dups {
            lines = gp::with_duplicates(&mut r, lines);
        }
        let density = r.below(4);
        let lay = gp::layout(&mut r, lines.len(), density);
        let items: Vec<&[u8]> = lines.iter().map(|l| &l.bytes[..]).collect();
        let doc = gp::render(&items, &lay);
        let scenario = gp::SCENARIOS[sc];
        cx.check(
            || format!("sequence ({scenario}, {} entries) {:?}", lines.len(), Q(&doc)),
            |ev| check_seq(ev, scenario, &lines, &doc, dups),
        );
    }
}
