//! C02 - a dewey pattern matches exactly the same-base packages inside its
//! range; Dewey and Pattern agree; malformed operator sequences are rejected.

use crate::corpus;
use crate::fw::{CaseResult, Cx, Ev, Tier};
use crate::gen::version as gv;
use crate::oracle::dewey::{self as od, Op, OPS};
use crate::oracle::pattern::{self as opat, DeweyParse};
use crate::rng::{hash_strs, Rng};
use pkgsrc::{Dewey, Pattern};

const BASES: [&str; 16] = [
    "foo", "f", "", "foo-bar", "foo-1", "-", "é", "foo.bar", "Foo", "ab", "a", "py312-foo", "x*y",
    "p5-Foo", "foo-", "-foo",
];

/// Long bases (beyond any plausible fixed-size buffer or block-wise scan).
fn long_base(r: &mut Rng) -> String {
    let n = *r.pick(&[15usize, 16, 17, 31, 32, 33, 63, 64, 65, 127, 128, 129, 255, 256, 300]);
    let mut s = String::new();
    while s.len() < n {
        s.push(*r.pick(&['a', 'b', 'x', '-', '1', '.', '_', 'Z', 'é']));
    }
    s
}

/// What may stand between an operator and a would-be '=': the '=' then
/// belongs to the bound's text, not to the operator.
const BEFORE_EQ: [&str; 12] = ["é", "€", "\u{0131}", "😀", "\u{feff}", " ", "\t", "+", ".", "0", "~", "é€"];

/// Characters that mean something in the other pattern dialects (glob
/// classes and wildcards, csh braces are excluded above), as an opening /
/// closing pair: the opening one goes into the base, the closing one into
/// the last bound, so that the operators stand "inside" the pair.  For a
/// comparison pattern they are ordinary text on both sides.
const DIALECT_PAIRS: [(&str, &str); 10] =
    [("[", "]"), ("[!", "]"), ("[]", "]"), ("[a", "z]"), ("(", ")"), ("*", "*"), ("?", "?"), ("[", ""), ("", "]"), ("\\", "\\")];

/// Numbers at and beyond the edges of the reference's domain: the largest
/// values of the machine types, one more, far more, and small values behind
/// dozens of zeros.  Only laws that need no reference are checked on them (a
/// version against its own text, Dewey against Pattern).
const EXTREME_NUMS: [&str; 10] = [
    "9223372036854775807", "9223372036854775806", "9223372036854775808", "18446744073709551615", "18446744073709551616",
    "99999999999999999999", "4294967295", "2147483647", "0000000000000000000000000000000000000007",
    "00000000000000000000000000000000000000000000000000000000000000000000000012",
];

fn bound(r: &mut Rng) -> String {
    match r.below(15) {
        0 => String::new(),
        1 => "0".into(),
        13 => {
            // a '-' inside the bound (a date, a pasted package name): for the
            // bound it is an ignored character, for a name it moves the split
            let v = gv::v_safe(r);
            let w = gv::v_safe(r);
            match r.below(4) {
                0 => format!("{}-{}", r.below(3), r.below(30)),
                1 => format!("2024-0{}-1{}", r.below(9) + 1, r.below(9)),
                2 => format!("{v}-{w}"),
                _ => format!("{v}-"),
            }
        }
        14 => {
            let x = *r.pick(&EXTREME_NUMS);
            match r.below(5) {
                0 => x.to_string(),
                1 => format!("{}.{x}", r.below(4)),
                2 => format!("{}.{}nb{x}", r.below(4), r.below(4)),
                3 => format!("{x}.{}nb{}", r.below(4), r.below(4)),
                _ => format!("{}nb{x}", gv::v_safe(r)),
            }
        }
        12 => {
            // operator, something, '=': still the strict operator
            let v = gv::v_safe(r);
            format!("{}={v}", r.pick(&BEFORE_EQ))
        }
        2 if r.chance(1, 2) => {
            // a digit run padded with leading zeros beyond 18 characters
            let v = gv::v_safe(r);
            gv::pad_zeros(r, &v)
        }
        // ('=' may stand anywhere but first: `usable` guarantees that)
        _ => gv::v_safe(r),
    }
}

/// Operator sequence as a list of operators; classes cover 0..4 operators,
/// all orders.
fn opseq(r: &mut Rng) -> Vec<Op> {
    let n = match r.below(20) {
        0 => 0,
        1..=8 => 1,
        9..=16 => 2,
        17..=18 => 3,
        _ => 4,
    };
    if n == 2 && r.chance(3, 5) {
        // well-ordered pair: lower bound then upper bound
        return vec![*r.pick(&[Op::Gt, Op::Ge]), *r.pick(&[Op::Lt, Op::Le])];
    }
    (0..n).map(|_| *r.pick(&OPS)).collect()
}

fn related_base(r: &mut Rng, base: &str) -> (String, &'static str) {
    match r.below(12) {
        0..=4 => (base.to_string(), "same"),
        5 => {
            let c: Vec<char> = base.chars().collect();
            if c.is_empty() {
                ("x".into(), "extension")
            } else {
                (c[..c.len() - 1].iter().collect(), "proper-prefix")
            }
        }
        6 => {
            let c: Vec<char> = base.chars().collect();
            if c.is_empty() {
                ("x".into(), "extension")
            } else {
                (c[1..].iter().collect(), "proper-suffix")
            }
        }
        7 => (format!("{base}x"), "extension"),
        8 => (format!("x{base}"), "prepended"),
        9 => (format!("{base}-x"), "extra-segment"),
        10 => {
            let flipped: String = base
                .chars()
                .map(|c| if c.is_ascii_lowercase() { c.to_ascii_uppercase() } else { c.to_ascii_lowercase() })
                .collect();
            if flipped == base {
                (format!("{base}y"), "extension")
            } else {
                (flipped, "case-changed")
            }
        }
        _ => (String::new(), if base.is_empty() { "same" } else { "empty" }),
    }
}

fn expected_match(d: &opat::RefDewey, name: &str) -> Option<bool> {
    let Some((b, v)) = opat::split_name(name) else { return Some(false) };
    if b != d.base {
        return Some(false);
    }
    let mut all = true;
    for (op, bnd) in &d.bounds {
        if v == bnd {
            // a version against its own text: equal whatever it is worth (also
            // outside the reference's domain), so the operator alone decides
            all &= matches!(op, Op::Ge | Op::Le);
            continue;
        }
        let s = od::satisfies(v, *op, bnd);
        if s.rank != s.ascii || !s.in_domain_padded {
            return None; // outside the K1-free / 18-significant-digit domain: no comparison
        }
        all &= s.rank;
    }
    Some(all)
}

fn check_case(ev: &mut Ev, pat: &str, names: &[(String, &'static str)]) -> CaseResult {
    let want = opat::parse_dewey(pat);
    let dew = Dewey::new(pat);
    let nops = opat::scan_ops(pat).len();
    ev.eval();
    let class = match &want {
        DeweyParse::Ok(d) => {
            if d.bounds.len() == 1 {
                "ops1"
            } else {
                "ops2"
            }
        }
        DeweyParse::NoOperator => "ops0",
        DeweyParse::TooMany(_) => "ops3plus",
        DeweyParse::BadOrder => "ops2-badorder",
    };
    ev.count(&format!("compile/{class}"));
    match (&want, &dew) {
        (DeweyParse::Ok(_), Err(e)) => {
            return Err(format!("Dewey::new({pat:?}) rejected a well-formed comparison pattern: {e}").into())
        }
        (DeweyParse::Ok(_), Ok(_)) => {}
        (_, Ok(_)) => {
            return Err(format!(
                "Dewey::new({pat:?}) accepted a pattern with {nops} operators / wrong order ({class})"
            )
            .into())
        }
        (_, Err(_)) => {}
    }
    // Pattern::new must agree with Dewey::new whenever it dispatches to the
    // comparison matcher, i.e. whenever an operator is present.
    let p = if nops > 0 {
        let p = Pattern::new(pat);
        ev.eval();
        if p.is_ok() != dew.is_ok() {
            return Err(format!(
                "Pattern::new({pat:?}).is_ok()={} but Dewey::new(..).is_ok()={}",
                p.is_ok(),
                dew.is_ok()
            )
            .into());
        }
        p.ok()
    } else {
        None
    };
    let (DeweyParse::Ok(d), Ok(dew)) = (&want, &dew) else { return Ok(()) };
    let p = p.expect("checked above");
    let mut nontrivial = d.bounds.len() == 2;
    for (name, rel) in names {
        let gd = dew.matches(name);
        let gp = p.matches(name);
        ev.evals(2);
        if gd != gp {
            return Err(format!(
                "Dewey and Pattern disagree for {pat:?} on {name:?}: Dewey={gd} Pattern={gp}"
            )
            .into());
        }
        if let Some(w) = expected_match(d, name) {
            ev.count(&format!("match/{class}/{rel}/{w}"));
            if gd != w {
                return Err(format!(
                    "{pat:?} on {name:?} ({rel} base): observed {gd}, expected {w} \
                     (base {:?}, bounds {:?})",
                    d.base,
                    d.bounds.iter().map(|(o, b)| format!("{}{}", o.text(), b)).collect::<Vec<_>>()
                )
                .into());
            }
            if *rel != "same" {
                nontrivial = true;
            }
        } else {
            ev.count("match/skipped-out-of-domain");
        }
    }
    if nontrivial {
        let mut parts: Vec<&[u8]> = vec![pat.as_bytes()];
        for (n, _) in names {
            parts.push(n.as_bytes());
        }
        ev.nontrivial(hash_strs(&parts));
    }
    Ok(())
}

pub fn run(cx: &mut Cx) {
    cx.default_budget();
    for c in ["ops0", "ops1", "ops2", "ops2-badorder", "ops3plus"] {
        cx.ev.require(&format!("compile/{c}"));
    }
    for rel in ["same", "proper-prefix", "proper-suffix", "extension", "extra-segment", "case-changed", "no-dash"] {
        cx.ev.require(&format!("match/ops1/{rel}/false"));
    }
    cx.ev.require("match/ops1/same/true");
    cx.ev.require("workload/dialect-pair");
    cx.ev.require("workload/revision-cluster");
    cx.ev.require("match/ops2/same/true");
    cx.ev.require("match/ops2/same/false");

    let corpus_bases: Vec<String> = if cx.tier == Tier::Mini {
        vec![]
    } else {
        let mut v: Vec<String> = corpus::names()
            .iter()
            .filter_map(|n| opat::split_name(n).map(|(b, _)| b.to_string()))
            .collect();
        v.dedup();
        v
    };

    let n = cx.per_shard(60, 8_000, 640_000, 3_000_000);
    let mut r = cx.stream("generated");
    for _ in 0..n {
        let base = if r.chance(1, 30) {
            long_base(&mut r)
        } else if !corpus_bases.is_empty() && r.chance(1, 4) {
            r.pick(&corpus_bases).clone()
        } else {
            r.pick(&BASES).to_string()
        };
        let ops = opseq(&mut r);
        // one case in twelve takes its bounds and most of its versions from one
        // revision cluster (one stem, every short tail behind "nb")
        let cluster: Option<Vec<String>> = if r.chance(1, 12) {
            let stem = if r.chance(1, 2) { format!("{}.{}", r.below(3), r.below(3)) } else { gv::v_safe(&mut r) };
            let c: Vec<String> = gv::revision_cluster(&stem).into_iter().filter(|v| !v.contains('=')).collect();
            if c.is_empty() {
                None
            } else {
                Some(c)
            }
        } else {
            None
        };
        let mut base_used = base.clone();
        let mut pat = base.clone();
        let mut bounds = vec![];
        for op in &ops {
            // Sometimes the second bound is the first one again or an
            // equal-valued respelling of it (trailing zero components), so
            // that ranges whose ends tie are reached.
            let b = if !bounds.is_empty() && r.chance(1, 4) {
                let first: &String = &bounds[0];
                match r.below(8) {
                    0 => first.clone(),
                    1 => format!("{first}.0"),
                    2 => format!("{first}pl"),
                    3 => format!("{first}_"),
                    4 => format!("{first}.0.0"),
                    5 => gv::neighbour(&mut r, first, false),
                    6 => format!("{first}{}", r.pick(&["rc1", "alpha", "nb1", "nb2", ".1", "pre2"])),
                    _ => first.strip_suffix(".0").map(|x| x.to_string()).unwrap_or_else(|| format!("{first}pl0")),
                }
            } else if let Some(c) = &cluster {
                r.pick(c).clone()
            } else {
                bound(&mut r)
            };
            pat.push_str(op.text());
            pat.push_str(&b);
            bounds.push(b);
        }
        if cluster.is_some() {
            cx.ev.count("workload/revision-cluster");
        }
        if !ops.is_empty() && r.chance(1, 10) {
            // the operators inside a pair of the other dialects' characters
            let (open, close) = *r.pick(&DIALECT_PAIRS);
            let at = r.below(base.chars().count() + 1);
            let cut = base.char_indices().nth(at).map(|(i, _)| i).unwrap_or(base.len());
            let nbase = format!("{}{open}{}", &base[..cut], &base[cut..]);
            pat = format!("{nbase}{}", &pat[base.len()..]);
            if r.chance(1, 2) {
                pat.push_str(close);
            } else {
                // in front of the last bound's last character
                let k = pat.char_indices().last().map(|(i, _)| i).unwrap_or(pat.len());
                if k > nbase.len() && !pat[..k].ends_with(|c| c == '<' || c == '>') {
                    pat.insert_str(k, close);
                } else {
                    pat.push_str(close);
                }
            }
            let nb = bounds.len();
            if let opat::DeweyParse::Ok(d) = opat::parse_dewey(&pat) {
                // names are built from the text the reference reads
                if d.bounds.len() == nb {
                    for (i, (_, b)) in d.bounds.iter().enumerate() {
                        bounds[i] = b.clone();
                    }
                }
            }
            cx.ev.count("workload/dialect-pair");
            base_used = nbase;
        }
        if ops.is_empty() {
            // an operator-free text through Dewey::new only
            pat.push_str(&bound(&mut r));
        }
        if pat.contains('{') || pat.contains('}') {
            continue;
        }
        // candidate names
        let mut names: Vec<(String, &'static str)> = vec![];
        let k = r.range(3, 7);
        for _ in 0..k {
            let (b2, rel) = related_base(&mut r, &base_used);
            // versions near the bounds so that both verdicts occur
            let v = if cluster.is_some() && r.chance(2, 3) {
                r.pick(cluster.as_ref().unwrap()).clone()
            } else if !bounds.is_empty() && r.chance(2, 3) {
                let b = r.pick(&bounds).clone();
                match r.below(9) {
                    0..=2 => b,
                    3 => gv::pad_zeros(&mut r, &b),
                    _ => gv::neighbour(&mut r, &b, false),
                }
            } else {
                gv::v_safe(&mut r)
            };
            names.push((format!("{b2}-{v}"), rel));
        }
        // the pattern's own text as a name ("an identical string always matches"
        // holds for plain patterns only), also with a version appended
        names.push((pat.clone(), "pattern-text"));
        names.push((format!("{pat}-1.0"), "pattern-text"));
        match r.below(6) {
            0 => names.push((base_used.clone(), "no-dash")),
            1 => names.push((String::new(), "no-dash")),
            2 => names.push((format!("{base_used}{}", gv::v_safe(&mut r)), "no-dash")),
            _ => {}
        }
        for (n, rel) in names.iter_mut() {
            if !n.contains('-') {
                *rel = "no-dash";
            }
        }
        cx.check(
            || format!("pattern {pat:?} names {:?}", names.iter().map(|n| &n.0).collect::<Vec<_>>()),
            |ev| check_case(ev, &pat, &names),
        );
    }

    // Systematic operator sequences: every sequence of 0..=3 operators, and
    // adjacency forms, on a fixed base.
    if cx.shard == 0 {
        let mut seqs: Vec<Vec<Op>> = vec![vec![]];
        for a in OPS {
            seqs.push(vec![a]);
            for b in OPS {
                seqs.push(vec![a, b]);
                for c in OPS {
                    seqs.push(vec![a, b, c]);
                }
            }
        }
        for s in &seqs {
            for bounds in [["1", "2", "3"], ["", "", ""], ["1", "", "2"]] {
                let mut pat = String::from("foo");
                for (i, op) in s.iter().enumerate() {
                    pat.push_str(op.text());
                    pat.push_str(bounds[i]);
                }
                let names: Vec<(String, &'static str)> = ["foo-0", "foo-1", "foo-1.5", "foo-2", "foo-3", "foo-", "foo", "fo-1.5", "foo-x-1.5"]
                    .iter()
                    .map(|n| {
                        let rel = match *n {
                            "foo" => "no-dash",
                            "fo-1.5" => "proper-prefix",
                            "foo-x-1.5" => "extra-segment",
                            _ => "same",
                        };
                        (n.to_string(), rel)
                    })
                    .collect();
                cx.check(
                    || format!("systematic operator sequence {pat:?}"),
                    |ev| {
                        ev.count("workload/systematic-opseq");
                        check_case(ev, &pat, &names)
                    },
                );
            }
        }
    }

    // Corpus: real comparison patterns against real names sharing a prefix.
    if cx.tier != Tier::Mini {
        let pats = corpus::patterns();
        let mut names = corpus::names();
        names.sort();
        let step = cx.pick_tier(64u64, 32, 8, 1);
        let mut r = cx.stream("corpus");
        let mut i = 0u64;
        for p in &pats {
            if p.contains('{') || p.contains('}') || opat::scan_ops(p).is_empty() {
                continue;
            }
            i += 1;
            if i % step != 0 || !cx.mine(i / step) {
                continue;
            }
            let DeweyParse::Ok(d) = opat::parse_dewey(p) else { continue };
            // names whose text starts with the base (same base, extensions,
            // extra segments) plus a few random ones
            let lo = names.partition_point(|n| n.as_str() < d.base.as_str());
            let mut cand: Vec<(String, &'static str)> = vec![];
            for n in names[lo..].iter().take_while(|n| n.starts_with(&d.base)).take(12) {
                let rel = match opat::split_name(n) {
                    Some((b, _)) if b == d.base => "same",
                    Some(_) => "extension",
                    None => "no-dash",
                };
                cand.push((n.clone(), rel));
            }
            for _ in 0..3 {
                let n = r.pick(&names).clone();
                let rel = match opat::split_name(&n) {
                    Some((b, _)) if b == d.base => "same",
                    _ => "other",
                };
                cand.push((n, rel));
            }
            cx.check(
                || format!("corpus pattern {p:?} x {} names", cand.len()),
                |ev| {
                    ev.count("workload/corpus");
                    check_case(ev, p, &cand)
                },
            );
        }
    }
}
