//! C13 - digests equal the standard algorithms for every input and every
//! read pattern.
//!
//! Refuting events: `hash_str`, `hash_file`, `hash_patch` return a string
//! different from the oracle's lower-case hex digest; a read schedule changes
//! the result; an injected hard error yields `Ok`; `Interrupted` yields an
//! error or a different digest; a name variant does not parse to its
//! algorithm or prints non-canonically; a non-name parses.
//!
//! Oracle: Python `hashlib` (`oracle/digest_vectors.py`, run by the plan's
//! pre-stage hook) supplies the inputs and, per input, the six plain and the
//! six patch-filtered digests.  The harness owns the readers, so it decides
//! how every read is cut, interrupted or failed.

use crate::fw::{show, CaseResult, Cx, Ev, Tier};
use crate::gen::digest::{self as gd, Schedule};
use crate::oracle::digest::{self as od, Vector, NAMES};
use crate::rng::{hash_strs, Rng};
use pkgsrc::digest::{Digest, DigestError, DigestResult};
use std::io::Read;
use std::str::FromStr;

const ALGS: [Digest; 6] =
    [Digest::BLAKE2s, Digest::MD5, Digest::RMD160, Digest::SHA1, Digest::SHA256, Digest::SHA512];

#[derive(Clone, Copy, PartialEq, Eq)]
enum Entry {
    File,
    Patch,
}

impl Entry {
    fn name(self) -> &'static str {
        match self {
            Entry::File => "file",
            Entry::Patch => "patch",
        }
    }
}

const ENTRIES: [Entry; 2] = [Entry::File, Entry::Patch];
const FAMILIES: [&str; 7] = ["whole", "slice", "byte1", "short", "marker", "newline", "intr"];
const FAULT_CLASSES: [&str; 3] = ["first", "middle", "after-data"];

fn call<R: Read>(alg: Digest, e: Entry, rd: &mut R) -> DigestResult<String> {
    match e {
        Entry::File => alg.hash_file(rd),
        Entry::Patch => alg.hash_patch(rd),
    }
}

fn err_kind(e: &DigestError) -> String {
    match e {
        DigestError::Io(io) => format!("DigestError::Io(kind {:?})", io.kind()),
        DigestError::Unsupported(_) => "DigestError::Unsupported".to_string(),
    }
}

fn show_input(v: &Vector, data: &[u8]) -> String {
    let head = &data[..data.len().min(160)];
    format!(
        "input #{} class={} len={} bytes=\"{}\"{}",
        v.index,
        v.class,
        data.len(),
        show(head),
        if data.len() > head.len() { "... (full bytes: entry of the vectors file)" } else { "" }
    )
}

/// Compare one observation with the oracle's digest.
fn verdict(
    ai: usize,
    e: &str,
    how: &str,
    got: DigestResult<String>,
    want: &str,
) -> Result<String, String> {
    match got {
        Ok(h) if h == want => Ok(h),
        Ok(h) => Err(format!(
            "{}.hash_{e} via {how}: observed {h:?}, hashlib says {want:?}",
            NAMES[ai]
        )),
        Err(err) => Err(format!(
            "{}.hash_{e} via {how}: observed Err({}), expected Ok({want:?})",
            NAMES[ai],
            err_kind(&err)
        )),
    }
}

/// Run `scheds` through one entry point and compare every result.
fn run_schedules(
    ev: &mut Ev,
    ai: usize,
    e: Entry,
    data: &[u8],
    want: &str,
    scheds: &[Schedule],
) -> CaseResult {
    let alg = ALGS[ai];
    let mut first: Option<String> = None;
    for s in scheds {
        let mut rd = s.reader(data);
        let got = call(alg, e, &mut rd);
        ev.eval();
        let h = verdict(ai, e.name(), &s.describe(), got, want)?;
        // Results identical across schedules (implied by equality with the
        // oracle, checked explicitly because the statement says so).
        match &first {
            None => first = Some(h),
            Some(f) => {
                ev.eval();
                if *f != h {
                    return Err(format!(
                        "{}.hash_{}: schedule {} changed the result: {h:?} vs {f:?}",
                        NAMES[ai],
                        e.name(),
                        s.describe()
                    )
                    .into());
                }
            }
        }
        ev.count(&format!("cell/{}/{}/{}", NAMES[ai], e.name(), s.family));
        ev.max("max/reads-per-call", rd.reads);
    }
    Ok(())
}

fn names(cx: &mut Cx) {
    let mut i = 0u64;
    for (ai, canon) in NAMES.iter().enumerate() {
        // Display of the enum constant itself.
        i += 1;
        if cx.mine(i) {
            cx.check(
                || format!("Display of Digest::{canon}"),
                |ev| {
                    ev.eval();
                    ev.count("names/display");
                    let got = ALGS[ai].to_string();
                    if got != *canon {
                        return Err(format!("prints {got:?}, canonical spelling is {canon:?}").into());
                    }
                    Ok(())
                },
            );
        }
        for var in gd::case_variants(canon) {
            i += 1;
            if !cx.mine(i) {
                continue;
            }
            cx.check(
                || format!("Digest::from_str({var:?}), a case variant of {canon}"),
                |ev| {
                    ev.evals(2);
                    ev.count(&format!("names/variant/{canon}"));
                    let d = match Digest::from_str(&var) {
                        Ok(d) => d,
                        Err(e) => {
                            return Err(format!("rejected with {}", err_kind(&e)).into());
                        }
                    };
                    if d != ALGS[ai] {
                        return Err(format!("parsed to {d}, expected {canon}").into());
                    }
                    let printed = d.to_string();
                    if printed != *canon {
                        return Err(format!("parsed value prints {printed:?}, expected {canon:?}").into());
                    }
                    if var != *canon {
                        ev.nontrivial(hash_strs(&[b"name", var.as_bytes()]));
                    }
                    Ok(())
                },
            );
        }
    }
    let near = gd::near_names();
    for bad in gd::NOT_NAMES.iter().copied().chain(near.iter().map(|s| s.as_str())) {
        i += 1;
        if !cx.mine(i) {
            continue;
        }
        cx.check(
            || format!("Digest::from_str({bad:?}), not an algorithm name"),
            |ev| {
                ev.eval();
                ev.count("names/rejected");
                match Digest::from_str(bad) {
                    Ok(d) => Err(format!("parsed to {d}, expected DigestError::Unsupported").into()),
                    Err(DigestError::Unsupported(_)) => {
                        ev.nontrivial(hash_strs(&[b"notname", bad.as_bytes()]));
                        Ok(())
                    }
                    Err(e) => {
                        Err(format!("rejected with {}, expected DigestError::Unsupported", err_kind(&e))
                            .into())
                    }
                }
            },
        );
    }
}

pub fn run(cx: &mut Cx) {
    cx.default_budget();
    let tier = cx.tier;
    let mini = tier == Tier::Mini;
    for n in NAMES {
        cx.ev.require(&format!("cell/{n}/str/direct"));
        cx.ev.require(&format!("names/variant/{n}"));
        for e in ENTRIES {
            for f in FAMILIES {
                cx.ev.require(&format!("cell/{n}/{}/{f}", e.name()));
            }
            if !mini {
                cx.ev.require(&format!("cell/{n}/{}/stdfile", e.name()));
            }
        }
    }
    for e in ENTRIES {
        for c in FAULT_CLASSES {
            cx.ev.require(&format!("fault/{}/{c}", e.name()));
        }
        for k in gd::INTR_KINDS {
            cx.ev.require(&format!("intr/{}/{k}", e.name()));
        }
        for k in gd::BURST_KINDS {
            cx.ev.require(&format!("intr/{}/{k}", e.name()));
        }
        if !mini {
            cx.ev.require(&format!("intr/{}/each-read", e.name()));
        }
    }
    cx.ev.require("names/rejected");
    cx.ev.require("names/display");
    if !mini {
        cx.ev.require("str/lengths-0-130-all-covered");
        // a single line longer than 64 KiB with a marker beyond 64 KiB
        cx.ev.require("input/marker-beyond-64KiB-of-its-line");
        for n in gd::BURSTS {
            cx.ev.require(&format!("intr-burst-len/{n}"));
        }
    }

    // ---- oracle data (harness errors panic here, outside any case) ----
    let (shard, nshards, seed) = (cx.shard, cx.nshards, cx.seed);
    let vectors = od::load(seed, tier.name(), &|i| i % nshards == shard);
    if shard == 0 {
        // hash_str reaches every length 0..=130 (block boundaries of all six
        // algorithms) iff the file holds a valid-UTF-8 input of each length;
        // each shard hashes all of its own valid-UTF-8 inputs below.
        let all = (0..=130usize).all(|l| vectors.iter().any(|v| v.len == l && v.utf8));
        if all {
            cx.ev.count("str/lengths-0-130-all-covered");
        }
        cx.ev.add("input/total-in-vectors-file", vectors.len() as u64);
    }
    let scratch = cx.scratch.clone();
    if !mini {
        std::fs::create_dir_all(&scratch)
            .unwrap_or_else(|e| od::die!("harness: cannot create scratch directory {scratch:?}: {e}"));
    }

    for v in &vectors {
        if !cx.mine(v.index) {
            continue;
        }
        let data: &[u8] = v.data.as_deref().expect("harness: own entries are decoded");
        let len = data.len();
        let text = std::str::from_utf8(data).ok();
        if text.is_some() != v.utf8 {
            od::die!("harness: vectors entry {} disagrees with Rust about UTF-8 validity", v.index);
        }
        let markers = od::marker_offsets(data);
        let newlines = od::newline_offsets(data);
        let mut r = Rng::stream(seed, "C13/schedules", v.index, 0);
        // Step budget proportional to the input (a case hashes it under up to 20
        // read schedules, and a line reader may copy every line while it
        // grows); C13 is not about promptness, the budget only stops a runaway.
        cx.set_budget(((len as u64) * 64).max(1 << 24), ((len as u64) * 2048).max(1 << 30));

        cx.ev.count(&format!("input/class/{}", v.class));
        cx.ev.max("max/input-len", len as u64);
        if !markers.is_empty() {
            cx.ev.count("input/has-marker");
        }
        if len > 0 && data[len - 1] != b'\n' {
            cx.ev.count("input/unterminated-last-line");
        }
        if data.windows(2).any(|w| w == b"\r\n") {
            cx.ev.count("input/has-crlf");
        }
        let longest_line = {
            let mut best = 0usize;
            let mut start = 0usize;
            for &n in newlines.iter().chain(std::iter::once(&len)) {
                best = best.max(n - start);
                start = n + 1;
            }
            best
        };
        cx.ev.max("max/line-len", longest_line as u64);
        if longest_line > 65536 {
            cx.ev.count("input/line-longer-than-64KiB");
        }
        if markers.iter().any(|&m| {
            let ls = newlines.iter().rev().find(|&&n| n < m).map_or(0, |&n| n + 1);
            m - ls >= 65536
        }) {
            cx.ev.count("input/marker-beyond-64KiB-of-its-line");
        }
        if v.plain[3] == v.filtered[3] {
            cx.ev.count("input/patch-filter-is-identity");
        } else {
            cx.ev.count("input/patch-filter-changes-bytes");
        }

        let path = scratch.join(format!("in-{}", v.index));
        if !mini {
            std::fs::write(&path, data)
                .unwrap_or_else(|e| od::die!("harness: cannot write scratch file {path:?}: {e}"));
        }

        // ---- schedules shared by the six algorithms of this input ----
        let mut full: Vec<Schedule> = vec![gd::whole(), gd::byte1()];
        full.push(gd::short(&mut r, len, 7));
        full.push(gd::short(&mut r, len, (len / 2).max(2)));
        if len > 700 {
            full.push(gd::short(&mut r, len, 9000));
        }
        if len > 1 {
            // fixed-size reads: two sizes per input, all sizes over the inputs
            let c = v.index as usize % gd::READ_CAPS.len();
            full.push(gd::capped(gd::READ_CAPS[c]));
            full.push(gd::capped(gd::READ_CAPS[(c + 5) % gd::READ_CAPS.len()]));
        }
        if len > 4096 {
            full.push(gd::blocks(len, [4096, 65536, 1000, 8192, 32768][v.index as usize % 5]));
        }
        if !markers.is_empty() {
            for off in 0..=6 {
                full.push(gd::marker(&markers, off));
            }
        }
        if !newlines.is_empty() {
            for mode in 0..3 {
                full.push(gd::newline(&newlines, mode));
            }
        }
        // cuts for the interrupt / fault workloads
        let cuts: Vec<usize> = if len <= 6 {
            (1..len).collect()
        } else {
            gd::interesting_cuts(&mut r, len, &markers, &newlines, 5)
        };
        let mut intr_all: Vec<Schedule> = (0..4).map(|k| gd::interrupted(k, &cuts, len)).collect();
        if !mini && len <= 300_000 {
            intr_all.push(gd::interrupted_each_read(len));
        }
        // one very long burst on a few inputs: catches any retry limit below it
        let giant: usize = match tier {
            Tier::Mini => 0,
            Tier::Small => 100_003,
            _ => 1_000_003,
        };
        let with_giant = giant > 0 && v.index % 61 == 7;
        let kmax = if len == 0 { 0 } else { cuts.len() + 1 };

        for ai in 0..6 {
            let alg = ALGS[ai];
            let rot = (v.index as usize).wrapping_add(ai);

            // ---- hash_str ----
            if let Some(s) = text {
                let want = &v.plain[ai];
                cx.check(
                    || format!("{}.hash_str on {}", NAMES[ai], show_input(v, data)),
                    |ev| {
                        ev.eval();
                        ev.count(&format!("cell/{}/str/direct", NAMES[ai]));
                        verdict(ai, "str", "the &str", alg.hash_str(s), want)?;
                        if len > 0 {
                            ev.nontrivial(hash_strs(&[b"str", NAMES[ai].as_bytes(), data]));
                        }
                        Ok(())
                    },
                );
            }

            for e in ENTRIES {
                let want: &str = match e {
                    Entry::File => &v.plain[ai],
                    Entry::Patch => &v.filtered[ai],
                };
                let shift = if e == Entry::Patch { 3 } else { 0 };

                // ---- read schedules without faults ----
                let chosen: Vec<Schedule>;
                let (scheds, with_slice, with_file): (&[Schedule], bool, bool) = if mini {
                    // one schedule per (input, algorithm, entry), rotating
                    // over the families that exist for this input
                    let pick = (rot + shift) % (full.len() + 1);
                    if pick == full.len() {
                        (&[], true, false)
                    } else {
                        chosen = vec![full[pick].clone()];
                        (&chosen, false, false)
                    }
                } else {
                    (&full, true, true)
                };
                let mut fh = if with_file {
                    Some(std::fs::File::open(&path).unwrap_or_else(|e| {
                        od::die!("harness: cannot reopen scratch file {path:?}: {e}")
                    }))
                } else {
                    None
                };
                cx.check(
                    || {
                        format!(
                            "{}.hash_{} under {} read schedules on {}",
                            NAMES[ai],
                            e.name(),
                            scheds.len() + with_slice as usize + with_file as usize,
                            show_input(v, data)
                        )
                    },
                    |ev| {
                        run_schedules(ev, ai, e, data, want, scheds)?;
                        if with_slice {
                            let mut sl: &[u8] = data;
                            ev.eval();
                            ev.count(&format!("cell/{}/{}/slice", NAMES[ai], e.name()));
                            verdict(ai, e.name(), "std &[u8] reader", call(alg, e, &mut sl), want)?;
                        }
                        if let Some(f) = fh.as_mut() {
                            ev.eval();
                            ev.count(&format!("cell/{}/{}/stdfile", NAMES[ai], e.name()));
                            verdict(ai, e.name(), "std::fs::File", call(alg, e, f), want)?;
                        }
                        if len > 1 {
                            ev.nontrivial(hash_strs(&[
                                b"sched",
                                NAMES[ai].as_bytes(),
                                e.name().as_bytes(),
                                data,
                            ]));
                        }
                        Ok(())
                    },
                );

                // Mini: interrupts and faults for one algorithm per input.
                if mini && rot % 6 != 0 {
                    continue;
                }

                // ---- Interrupted: same digest, never an error ----
                // Bursts of consecutive Interrupted: three placements per
                // (input, algorithm, entry), the burst lengths rotating so
                // that every length meets every placement and entry point.
                let mut bursts: Vec<Schedule> = vec![];
                let intr: Vec<&Schedule> = if mini {
                    let j = v.index as usize / 6 + shift;
                    bursts.push(gd::burst(j % 3, gd::MINI_BURSTS[j % gd::MINI_BURSTS.len()], j, &cuts, len));
                    vec![&intr_all[j % 4], &bursts[0]]
                } else {
                    let nb = gd::BURSTS.len();
                    let j = (v.index as usize).wrapping_mul(6).wrapping_add(ai);
                    for kind in 0..3 {
                        // 11 and 23 are coprime to the table length 34
                        let n = gd::BURSTS[(j + kind * 11 + shift / 3 * 23) % nb];
                        bursts.push(gd::burst(kind, n, rot + kind, &cuts, len));
                    }
                    if with_giant {
                        bursts.push(gd::burst((rot + shift / 3) % 3, giant, rot, &cuts, len));
                    }
                    intr_all.iter().chain(bursts.iter()).collect()
                };
                cx.check(
                    || {
                        format!(
                            "{}.hash_{} with Interrupted injected (placements: {}; cuts at {:?}) on {}",
                            NAMES[ai],
                            e.name(),
                            intr.iter().map(|s| s.tag).collect::<Vec<_>>().join(" / "),
                            cuts,
                            show_input(v, data)
                        )
                    },
                    |ev| {
                        for s in intr.iter().copied() {
                            let mut rd = s.reader(data);
                            let got = call(alg, e, &mut rd);
                            ev.eval();
                            verdict(ai, e.name(), &s.describe(), got, want)?;
                            if rd.intr_served > 0 {
                                ev.count(&format!("cell/{}/{}/intr", NAMES[ai], e.name()));
                                ev.count(&format!("intr/{}/{}", e.name(), s.tag));
                                ev.max("max/interrupts-per-call", rd.intr_served);
                                if let Some(n) = s.burst_len() {
                                    if rd.intr_served >= n as u64 {
                                        ev.count(&format!("intr-burst-len/{n}"));
                                        ev.max("max/interrupt-burst", n as u64);
                                    }
                                }
                            }
                        }
                        ev.nontrivial(hash_strs(&[
                            b"intr",
                            NAMES[ai].as_bytes(),
                            e.name().as_bytes(),
                            data,
                        ]));
                        Ok(())
                    },
                );

                // ---- hard error at chunk k: Err, never Ok ----
                let ks: Vec<usize> = if mini {
                    let mut ks = vec![(v.index as usize / 6 + shift) % (kmax + 1), kmax];
                    ks.dedup();
                    ks
                } else {
                    (0..=kmax).collect()
                };
                cx.check(
                    || {
                        format!(
                            "{}.hash_{} with a hard read error after chunk k in {:?} (chunk ends {:?}) on {}",
                            NAMES[ai],
                            e.name(),
                            ks,
                            cuts,
                            show_input(v, data)
                        )
                    },
                    |ev| {
                        for &k in &ks {
                            let s = gd::fault(k, &cuts, len);
                            let mut rd = s.reader(data);
                            let got = call(alg, e, &mut rd);
                            ev.eval();
                            match got {
                                Ok(h) => {
                                    return Err(format!(
                                        "{}.hash_{} via {}: observed Ok({h:?}) although the reader \
                                         returned a hard error ({} served after {} bytes); expected Err",
                                        NAMES[ai],
                                        e.name(),
                                        s.describe(),
                                        rd.fail_served,
                                        rd.consumed()
                                    )
                                    .into());
                                }
                                Err(err) => {
                                    if rd.fail_served == 0 {
                                        return Err(format!(
                                            "{}.hash_{} via {}: observed Err({}) before the reader \
                                             had failed (every read so far succeeded)",
                                            NAMES[ai],
                                            e.name(),
                                            s.describe(),
                                            err_kind(&err)
                                        )
                                        .into());
                                    }
                                    match err {
                                        DigestError::Io(_) => ev.count("fault-kind/Io"),
                                        DigestError::Unsupported(_) => ev.count("fault-kind/not-Io"),
                                    }
                                }
                            }
                            ev.count(&format!(
                                "fault/{}/{}",
                                e.name(),
                                gd::fault_class(k, &cuts, len)
                            ));
                        }
                        ev.nontrivial(hash_strs(&[
                            b"fault",
                            NAMES[ai].as_bytes(),
                            e.name().as_bytes(),
                            data,
                        ]));
                        Ok(())
                    },
                );
            }
        }
        if !mini {
            let _ = std::fs::remove_file(&path);
        }
    }

    names(cx);
}
