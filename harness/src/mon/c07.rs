//! C07 - pkg_summary entries round-trip.
//!
//! Refuting events, for a model entry M (all 11 required variables, any
//! optional ones): a `Summary` built by any call history realising M prints a
//! text T != print(M) or shows a getter value != M; parsing T gives a getter
//! value != M; parsing a canonical text and printing it is not
//! byte-identical; two histories with equal final values print differently.
//!
//! This file also holds the binding between the reference model's variable
//! table and the library's getters/setters, shared with C08 and C09.

use crate::fw::{CaseResult, Cx, Fail, Tier};
use crate::gen::summary::{self as gs, Obs, ObsMode, Op, Step};
use crate::oracle::summary::{self as os, Entry, Kind, Val, NVARS, VARS};
use crate::rng::hash_strs;
use pkgsrc::summary::{MissingVariable, Summary, SummaryError, SummaryStream};
use std::str::FromStr;

// ---------------------------------------------------------------------------
// Binding: table index <-> public API
// ---------------------------------------------------------------------------

fn s(x: Option<&str>) -> Option<Val> {
    x.map(|v| Val::S(v.to_string()))
}
fn i(x: Option<i64>) -> Option<Val> {
    x.map(Val::I)
}
fn a(x: Option<&[String]>) -> Option<Val> {
    x.map(|v| Val::A(v.to_vec()))
}

/// Read one variable through its public getter.
pub fn get(sum: &Summary, var: usize) -> Option<Val> {
    match var {
        os::BUILD_DATE => s(sum.build_date()),
        os::CATEGORIES => s(sum.categories()),
        os::COMMENT => s(sum.comment()),
        os::CONFLICTS => a(sum.conflicts()),
        os::DEPENDS => a(sum.depends()),
        os::DESCRIPTION => a(sum.description()),
        os::FILE_CKSUM => s(sum.file_cksum()),
        os::FILE_NAME => s(sum.file_name()),
        os::FILE_SIZE => i(sum.file_size()),
        os::HOMEPAGE => s(sum.homepage()),
        os::LICENSE => s(sum.license()),
        os::MACHINE_ARCH => s(sum.machine_arch()),
        os::OPSYS => s(sum.opsys()),
        os::OS_VERSION => s(sum.os_version()),
        os::PKG_OPTIONS => s(sum.pkg_options()),
        os::PKGNAME => s(sum.pkgname()),
        os::PKGPATH => s(sum.pkgpath()),
        os::PKGTOOLS_VERSION => s(sum.pkgtools_version()),
        os::PREV_PKGPATH => s(sum.prev_pkgpath()),
        os::PROVIDES => a(sum.provides()),
        os::REQUIRES => a(sum.requires()),
        os::SIZE_PKG => i(sum.size_pkg()),
        os::SUPERSEDES => a(sum.supersedes()),
        _ => None,
    }
}

/// All 23 getters as a model entry.
pub fn observe(sum: &Summary) -> Entry {
    let mut e = Entry::new();
    for var in 0..NVARS {
        e.vals[var] = get(sum, var);
    }
    e
}

fn set_s(sum: &mut Summary, var: usize, v: &str) {
    match var {
        os::BUILD_DATE => sum.set_build_date(v),
        os::CATEGORIES => sum.set_categories(v),
        os::COMMENT => sum.set_comment(v),
        os::FILE_CKSUM => sum.set_file_cksum(v),
        os::FILE_NAME => sum.set_file_name(v),
        os::HOMEPAGE => sum.set_homepage(v),
        os::LICENSE => sum.set_license(v),
        os::MACHINE_ARCH => sum.set_machine_arch(v),
        os::OPSYS => sum.set_opsys(v),
        os::OS_VERSION => sum.set_os_version(v),
        os::PKG_OPTIONS => sum.set_pkg_options(v),
        os::PKGNAME => sum.set_pkgname(v),
        os::PKGPATH => sum.set_pkgpath(v),
        os::PKGTOOLS_VERSION => sum.set_pkgtools_version(v),
        os::PREV_PKGPATH => sum.set_prev_pkgpath(v),
        _ => {}
    }
}

fn set_i(sum: &mut Summary, var: usize, v: i64) {
    match var {
        os::FILE_SIZE => sum.set_file_size(v),
        os::SIZE_PKG => sum.set_size_pkg(v),
        _ => {}
    }
}

fn set_a(sum: &mut Summary, var: usize, v: &[String]) {
    match var {
        os::CONFLICTS => sum.set_conflicts(v),
        os::DEPENDS => sum.set_depends(v),
        os::DESCRIPTION => sum.set_description(v),
        os::PROVIDES => sum.set_provides(v),
        os::REQUIRES => sum.set_requires(v),
        os::SUPERSEDES => sum.set_supersedes(v),
        _ => {}
    }
}

fn push(sum: &mut Summary, var: usize, v: &str) {
    match var {
        os::CONFLICTS => sum.push_conflicts(v),
        os::DEPENDS => sum.push_depends(v),
        os::DESCRIPTION => sum.push_description(v),
        os::PROVIDES => sum.push_provides(v),
        os::REQUIRES => sum.push_requires(v),
        os::SUPERSEDES => sum.push_supersedes(v),
        _ => {}
    }
}

/// Perform one history step through the public setters.
pub fn apply(sum: &mut Summary, op: &Op) {
    match op {
        Op::Set(var, Val::S(v)) => set_s(sum, *var, v),
        Op::Set(var, Val::I(v)) => set_i(sum, *var, *v),
        Op::Set(var, Val::A(v)) => set_a(sum, *var, v),
        Op::Push(var, v) => push(sum, *var, v),
    }
}

/// Set every variable of a model entry (one set call each, table order).
pub fn build(m: &Entry) -> Summary {
    let mut sum = Summary::new();
    for var in 0..NVARS {
        if let Some(v) = m.get(var) {
            apply(&mut sum, &Op::Set(var, v.clone()));
        }
    }
    sum
}

pub fn missing_index(m: &MissingVariable) -> usize {
    match m {
        MissingVariable::BuildDate => os::BUILD_DATE,
        MissingVariable::Categories => os::CATEGORIES,
        MissingVariable::Comment => os::COMMENT,
        MissingVariable::Description => os::DESCRIPTION,
        MissingVariable::MachineArch => os::MACHINE_ARCH,
        MissingVariable::Opsys => os::OPSYS,
        MissingVariable::OsVersion => os::OS_VERSION,
        MissingVariable::Pkgname => os::PKGNAME,
        MissingVariable::Pkgpath => os::PKGPATH,
        MissingVariable::PkgtoolsVersion => os::PKGTOOLS_VERSION,
        MissingVariable::SizePkg => os::SIZE_PKG,
    }
}

/// The error kind as a reference cause (None = a kind no entry text can
/// legitimately produce, i.e. `Io`).
pub fn cause_of(e: &SummaryError) -> Option<os::Cause> {
    match e {
        SummaryError::ParseLine(_) => Some(os::Cause::Line),
        SummaryError::ParseVariable(_) => Some(os::Cause::Variable),
        SummaryError::ParseInt(_) => Some(os::Cause::Int),
        SummaryError::Incomplete(m) => Some(os::Cause::Missing(missing_index(m))),
        SummaryError::Io(_) => None,
    }
}

/// "The error identifies the cause" also for a caller that only has the
/// error's text (`to_string()`, or the `io::Error` a stream write returns):
/// the pkg_summary variable names occurring in the text of a missing-variable
/// error - as whole words - must be exactly the missing variable.
/// With `must_name == false` the name may be absent but no other may appear.
pub fn text_names_only(text: &str, var: usize, must_name: bool) -> Result<(), String> {
    let mut named: Vec<&str> = text
        .split(|c: char| !(c.is_ascii_uppercase() || c == '_'))
        .filter(|w| VARS.iter().any(|v| v.name == *w))
        .collect();
    named.sort();
    named.dedup();
    let want = VARS[var].name;
    let ok = match named.as_slice() {
        [] => !must_name,
        [one] => *one == want,
        _ => false,
    };
    if ok {
        Ok(())
    } else {
        Err(format!("the error for a missing {want} reads {text:?}, which names {named:?}"))
    }
}

/// A `fmt::Write` that accepts `left` more bytes and then fails.
pub struct BoundedSink {
    pub buf: String,
    pub left: usize,
}

impl std::fmt::Write for BoundedSink {
    fn write_str(&mut self, s: &str) -> std::fmt::Result {
        if s.len() > self.left {
            // take what fits, on a character boundary
            let mut n = self.left;
            while n > 0 && !s.is_char_boundary(n) {
                n -= 1;
            }
            self.buf.push_str(&s[..n]);
            self.left = 0;
            return Err(std::fmt::Error);
        }
        self.left -= s.len();
        self.buf.push_str(s);
        Ok(())
    }
}

pub fn show_val(v: &Option<Val>) -> String {
    match v {
        None => "unset".into(),
        Some(Val::S(x)) => format!("{x:?}"),
        Some(Val::I(x)) => format!("{x}"),
        Some(Val::A(x)) => format!("{x:?}"),
    }
}

/// Compare all 23 getters with the model.
pub fn same_values(what: &str, sum: &Summary, m: &Entry) -> CaseResult {
    let got = observe(sum);
    if let Some(var) = got.first_difference(m) {
        return Err(format!(
            "{what}: getter of {} gives {}, model has {}",
            VARS[var].name,
            show_val(&got.vals[var]),
            show_val(&m.vals[var])
        )
        .into());
    }
    Ok(())
}

/// Where two texts first differ, as lines.
pub fn text_diff(got: &str, want: &str) -> String {
    let g: Vec<&str> = got.split('\n').collect();
    let w: Vec<&str> = want.split('\n').collect();
    for k in 0..g.len().max(w.len()) {
        let (x, y) = (g.get(k), w.get(k));
        if x != y {
            return format!("line {}: observed {:?}, expected {:?}", k + 1, x, y);
        }
    }
    "texts are equal".into()
}

pub fn show_entry(m: &Entry) -> String {
    format!("{:?}", m.print())
}

// ---------------------------------------------------------------------------
// The monitor
// ---------------------------------------------------------------------------

const HISTORIES: usize = 5;

/// Where a history starts.
pub enum Start<'a> {
    /// `Summary::new()`
    New,
    /// `Summary::default()`
    Default,
    /// the result of parsing the canonical text of a complete entry
    Parsed(&'a Entry),
}

fn renders(o: Obs) -> bool {
    matches!(o, Obs::Print | Obs::PrintTwice | Obs::StreamPrint | Obs::CloneDrop)
}

/// Execute a history with interleaved observation calls on one instance.
/// Every observation is compared with the model *as it is at that point*;
/// returns the instance and the model state at the end.
pub fn run_steps(
    ev: &mut crate::fw::Ev,
    label: &str,
    start: &Start,
    steps: &[Step],
) -> Result<(Summary, Entry), Fail> {
    let (mut sum, mut cur) = match start {
        Start::New => (Summary::new(), Entry::new()),
        Start::Default => (Summary::default(), Entry::new()),
        Start::Parsed(b) => {
            let sum = Summary::from_str(&b.print())
                .map_err(|e| Fail::from(format!("{label}: the canonical start text does not parse: {e:?}")))?;
            (sum, (*b).clone())
        }
    };
    // originals left behind by clone-and-continue, with the text they must still print
    let mut kept: Vec<(Summary, String, usize)> = vec![];
    let mut prev_rendered = false;
    for (k, st) in steps.iter().enumerate() {
        match st {
            Step::Mut(op) => {
                let present = cur.is_set(op.var());
                match op {
                    Op::Set(v, val) => {
                        ev.count(&format!("var/{}/set", VARS[*v].name));
                        if prev_rendered && present {
                            ev.count("interleave/set_present_right_after_print");
                        }
                        cur.set(*v, val.clone());
                    }
                    Op::Push(v, line) => {
                        ev.count(&format!("var/{}/push", VARS[*v].name));
                        if prev_rendered {
                            ev.count(if present {
                                "interleave/push_present_right_after_print"
                            } else {
                                "interleave/push_absent_right_after_print"
                            });
                        }
                        cur.push(*v, line);
                    }
                }
                apply(&mut sum, op);
                prev_rendered = false;
            }
            Step::Obs(o) => {
                ev.count(&format!("obs/{}", o.name()));
                if renders(*o) {
                    prev_rendered = true;
                }
                let at = || format!("{label}, observation <{}> after {k} of {} steps", o.name(), steps.len());
                match o {
                    Obs::Print => {
                        // Every third print is preceded by one into a sink that
                        // fails after a few bytes (a closed pipe, a full buffer):
                        // what did get through is a prefix of the right text, and
                        // the failure leaves nothing behind for the next print.
                        if k % 3 == 0 {
                            use std::fmt::Write as _;
                            let mut sink = BoundedSink { buf: String::new(), left: (k * 7 + steps.len()) % 97 };
                            let res = write!(sink, "{}", sum);
                            ev.eval();
                            ev.count("obs/print_into_failing_sink");
                            let want = cur.print();
                            if !want.starts_with(&sink.buf) {
                                return Err(format!("{}: what a failing sink received is not a prefix of the entry's text: {:?}", at(), sink.buf).into());
                            }
                            if res.is_ok() && sink.buf != want {
                                return Err(format!("{}: printing into a sink reported success but delivered {:?}", at(), sink.buf).into());
                            }
                        }
                        let t = sum.to_string();
                        ev.eval();
                        let want = cur.print();
                        if t != want {
                            return Err(format!(
                                "{}: the text printed differs from the values set so far: {}",
                                at(),
                                text_diff(&t, &want)
                            )
                            .into());
                        }
                    }
                    Obs::PrintTwice => {
                        let t1 = format!("{}", sum);
                        let t2 = format!("{}", sum);
                        ev.evals(2);
                        let want = cur.print();
                        if t1 != want || t2 != want {
                            let bad = if t1 != want { &t1 } else { &t2 };
                            return Err(format!(
                                "{}: the text printed differs from the values set so far: {}",
                                at(),
                                text_diff(bad, &want)
                            )
                            .into());
                        }
                    }
                    Obs::Getters => {
                        ev.eval();
                        same_values(&at(), &sum, &cur)?;
                    }
                    Obs::IsCompleted => {
                        let done = sum.is_completed();
                        ev.eval();
                        if done != cur.is_complete() {
                            return Err(format!(
                                "{}: is_completed() = {done} with {} of the eleven set",
                                at(),
                                os::REQUIRED.len() - cur.missing().len()
                            )
                            .into());
                        }
                    }
                    Obs::CloneContinue if kept.len() < 3 => {
                        let c = sum.clone();
                        let old = std::mem::replace(&mut sum, c);
                        kept.push((old, cur.print(), k));
                    }
                    Obs::CloneContinue | Obs::CloneDrop => {
                        let c = sum.clone();
                        let t = c.to_string();
                        ev.eval();
                        let want = cur.print();
                        if t != want {
                            return Err(format!(
                                "{}: a clone prints a text different from the values set so far: {}",
                                at(),
                                text_diff(&t, &want)
                            )
                            .into());
                        }
                    }
                    Obs::Derived => {
                        let _ = format!("{:?}", sum);
                        let _ = sum.pkgbase();
                        let _ = sum.pkgversion();
                        let _ = sum.description_as_str();
                    }
                    Obs::StreamPrint => {
                        let mut ss = SummaryStream::new();
                        ss.entries_mut().push(std::mem::take(&mut sum));
                        let t = ss.to_string();
                        sum = ss.entries_mut().pop().unwrap_or_default();
                        // compared only for complete entries (a stream never holds others)
                        if cur.is_complete() {
                            ev.eval();
                            let want = format!("{}\n", cur.print());
                            if t != want {
                                return Err(format!(
                                    "{}: a SummaryStream holding just this entry prints differently: {}",
                                    at(),
                                    text_diff(&t, &want)
                                )
                                .into());
                            }
                        }
                    }
                }
            }
        }
    }
    for (old, want, k) in &kept {
        let t = old.to_string();
        ev.eval();
        if t != *want {
            return Err(format!(
                "{label}: the instance cloned after step {k} changed when its clone was modified: {}",
                text_diff(&t, want)
            )
            .into());
        }
    }
    Ok((sum, cur))
}

/// The end-of-history observations of one instance against the final model.
fn finish(ev: &mut crate::fw::Ev, label: &str, sum: &Summary, m: &Entry, want: &str) -> Result<String, Fail> {
    // getters after the history
    ev.eval();
    same_values(label, sum, m)?;
    // printed form depends only on the values
    let t = sum.to_string();
    ev.eval();
    if t != want {
        return Err(format!("{label} prints a text different from print(M): {}", text_diff(&t, want)).into());
    }
    // printing twice gives the same text
    let t2 = format!("{}", sum);
    ev.eval();
    if t2 != t {
        return Err(format!("{label}: two prints differ: {}", text_diff(&t2, &t)).into());
    }
    ev.eval();
    if sum.is_completed() != m.is_complete() {
        return Err(format!(
            "{label}: is_completed() is {} with {} of the eleven set",
            sum.is_completed(),
            os::REQUIRED.len() - m.missing().len()
        )
        .into());
    }
    Ok(t)
}

fn check_model(ev: &mut crate::fw::Ev, m: &Entry, hists: &[Vec<Step>]) -> CaseResult {
    let want = m.print();
    let mut texts: Vec<String> = vec![];
    for (h, steps) in hists.iter().enumerate() {
        // an independent instance: its own hash seed
        let label = format!("history {h} ({} steps)", steps.len());
        let (sum, _) = run_steps(ev, &label, if h == 4 { &Start::Default } else { &Start::New }, steps)?;
        ev.count("histories");
        ev.max("max/history_len", steps.len() as u64);
        texts.push(finish(ev, &label, &sum, m, &want)?);
    }
    // history independence, observation against observation
    for (h, t) in texts.iter().enumerate().skip(1) {
        ev.eval();
        if *t != texts[0] {
            return Err(format!(
                "histories 0 and {h} have equal final values but print differently: {}",
                text_diff(t, &texts[0])
            )
            .into());
        }
    }
    for var in 0..NVARS {
        if m.is_set(var) {
            ev.count(&format!("var/{}/print", VARS[var].name));
        }
    }
    // generate -> parse: parse the text the library printed
    let parsed = Summary::from_str(&texts[0])
        .map_err(|e| Fail::from(format!("the printed text does not parse: {e:?}")))?;
    ev.eval();
    same_values("parse(print(M))", &parsed, m)?;
    // canonical parse -> generate: parse the model's own text, print it
    let parsed2 = Summary::from_str(&want)
        .map_err(|e| Fail::from(format!("the canonical text print(M) does not parse: {e:?}")))?;
    ev.eval();
    same_values("parse(canonical text)", &parsed2, m)?;
    let back = parsed2.to_string();
    ev.eval();
    if back != want {
        return Err(format!(
            "printing the parsed canonical text is not byte-identical: {}",
            text_diff(&back, &want)
        )
        .into());
    }
    // ... and without the final newline (how SummaryStream hands entries over)
    let trimmed = &want[..want.len() - 1];
    let parsed3 = Summary::from_str(trimmed)
        .map_err(|e| Fail::from(format!("the canonical text without final newline does not parse: {e:?}")))?;
    ev.eval();
    same_values("parse(canonical text without final newline)", &parsed3, m)?;
    ev.eval();
    let back3 = parsed3.to_string();
    if back3 != want {
        return Err(format!(
            "printing the parsed canonical text (no final newline) differs: {}",
            text_diff(&back3, &want)
        )
        .into());
    }
    // a clone is the same entry
    let cl = parsed2.clone();
    ev.eval();
    if cl.to_string() != want {
        return Err("a clone of the parsed entry prints differently".to_string().into());
    }
    for var in 0..NVARS {
        if m.is_set(var) {
            ev.count(&format!("var/{}/parse", VARS[var].name));
        }
    }
    let awkward = m.vals.iter().flatten().filter(|v| gs::awkward_val(v)).count();
    ev.max("max/optional_set", m.optional_set() as u64);
    ev.max("max/entry_bytes", want.len() as u64);
    if awkward > 0 {
        ev.count("models/with_awkward_value");
    }
    if m.optional_set() > 0 && awkward > 0 {
        ev.nontrivial(hash_strs(&[want.as_bytes()]));
    }
    Ok(())
}

/// A history that starts from a *parsed* (or otherwise pre-filled) entry and
/// goes on mutating it: the end state is the start entry overlaid with the
/// calls, known from the model replay.
fn check_continued(ev: &mut crate::fw::Ev, base: &Entry, steps: &[Step], fin: &Entry) -> CaseResult {
    let want = fin.print();
    let label = format!("history of {} steps continuing a parsed entry", steps.len());
    let (sum, _) = run_steps(ev, &label, &Start::Parsed(base), steps)?;
    ev.count("histories/continued_after_parse");
    let t = finish(ev, &label, &sum, fin, &want)?;
    let parsed = Summary::from_str(&t).map_err(|e| Fail::from(format!("the printed text does not parse: {e:?}")))?;
    ev.eval();
    same_values("parse(print) after continuing a parsed entry", &parsed, fin)?;
    if fin.optional_set() > 0 {
        ev.nontrivial(hash_strs(&[want.as_bytes(), base.print().as_bytes()]));
    }
    Ok(())
}

/// HISTORIES call histories realising `m`, with observation calls
/// interleaved in all but the first.  The generator is checked against the
/// model here, outside any case body, so that a generator bug stops the
/// harness instead of being reported as a finding about the library.
fn histories(r: &mut crate::rng::Rng, m: &Entry) -> Vec<Vec<Step>> {
    // a print after every single call is expensive: one model in four
    let dense = if r.chance(1, 4) { ObsMode::Dense } else { ObsMode::None };
    let modes: [ObsMode; HISTORIES] = [ObsMode::None, ObsMode::Sparse, ObsMode::AroundLists, dense, ObsMode::Sparse];
    let mut out = vec![];
    for mode in modes {
        let h = gs::history(r, m);
        assert!(gs::replay_history(&h) == *m, "harness bug: history does not realise its model");
        out.push(gs::observed(r, &h, mode));
    }
    out
}

fn show_steps(steps: &[Step]) -> String {
    steps.iter().map(|o| o.show()).collect::<Vec<_>>().join("; ")
}

pub fn run(cx: &mut Cx) {
    cx.default_budget();
    for var in 0..NVARS {
        for what in ["set", "print", "parse"] {
            cx.ev.require(&format!("var/{}/{}", VARS[var].name, what));
        }
        if VARS[var].kind == Kind::A {
            cx.ev.require(&format!("var/{}/push", VARS[var].name));
        }
    }
    for c in ["empty", "eq", "blank", "lookalike", "multibyte"] {
        cx.ev.require(&format!("value_class/{c}"));
    }
    cx.ev.require("order/pkg_options_and_pkgname");
    for o in gs::OBS_ALL {
        cx.ev.require(&format!("obs/{}", o.name()));
    }
    for k in [
        "interleave/push_present_right_after_print",
        "interleave/push_absent_right_after_print",
        "interleave/set_present_right_after_print",
        "histories/continued_after_parse",
        "workload/typed_sweep",
        "workload/long_values",
    ] {
        cx.ev.require(k);
    }
    gs::selfcheck_dicts();

    // (a) seeded model entries, 5 histories each
    let n = cx.per_shard(16, 4_000, 64_000, 640_000);
    let mut r = cx.stream("models");
    for k in 0..n {
        // every fourth model sets all 23 variables
        let m = gs::model(&mut r, k % 4 == 0, 1, 2);
        let hists = histories(&mut r, &m);
        cx.check(
            || {
                format!(
                    "model {} with {} histories, e.g. [{}]",
                    show_entry(&m),
                    hists.len(),
                    show_steps(&hists[1])
                )
            },
            |ev| {
                ev.count("workload/random_models");
                if m.is_set(os::PKG_OPTIONS) {
                    ev.count("order/pkg_options_and_pkgname");
                }
                check_model(ev, &m, &hists)
            },
        );
    }

    // (b) one awkward value class at a time in every variable that can hold
    // it: each class reaches each string/multi-line variable by construction.
    let classes = [
        gs::VClass::Empty,
        gs::VClass::Eq,
        gs::VClass::Blank,
        gs::VClass::Lookalike,
        gs::VClass::Multibyte,
    ];
    let rounds = cx.pick_tier(1u64, 2, 8, 64);
    let mut r = cx.shared_stream("class-sweep");
    let mut case = 0u64;
    for _ in 0..rounds {
        for c in classes {
            for var in 0..NVARS {
                if VARS[var].kind == Kind::I {
                    continue;
                }
                let mut m = gs::model(&mut r, false, 1, 3);
                let special = gs::value_of_class(&mut r, c, 4);
                match VARS[var].kind {
                    Kind::S => m.set(var, Val::S(special)),
                    _ => {
                        let mut l = gs::list_for(&mut r, var);
                        let at = r.below(l.len());
                        l[at] = special;
                        m.set(var, Val::A(l));
                    }
                }
                let hists = histories(&mut r, &m);
                case += 1;
                if !cx.mine(case) {
                    continue;
                }
                cx.check(
                    || format!("{} value in {}: model {}", c.name(), VARS[var].name, show_entry(&m)),
                    |ev| {
                        ev.count("workload/class_sweep");
                        ev.count(&format!("value_class/{}", c.name()));
                        check_model(ev, &m, &hists)
                    },
                );
            }
        }
    }

    // (b2) typed values: every value of every variable's dictionary of
    // plausible real-world content (paths, package names, patterns, URLs,
    // dates, numbers ...), every generic special token and every variable
    // name, plain and decorated (BOM / "./" / "../../" prefix, ".tgz" / "/" /
    // blank suffix, case change, quotes ...), in every string and multi-line
    // variable.  Enumerated, shared out over the shards.
    {
        let rounds = cx.pick_tier(0u64, 1, 1, 6);
        let mut r = cx.stream("typed-sweep");
        let mut case = 0u64;
        let mini = cx.tier == Tier::Mini;
        for round in 0..rounds.max(1) {
            for var in 0..NVARS {
                if VARS[var].kind == Kind::I {
                    continue;
                }
                let own = gs::typed_dict(var);
                let names: Vec<String> = (0..NVARS)
                    .flat_map(|v| [VARS[v].name.to_string(), format!("{}=", VARS[v].name), VARS[v].name.to_lowercase()])
                    .collect();
                // (value, decoration) pairs
                let mut todo: Vec<(String, usize)> = vec![];
                for v in own {
                    for k in 0..gs::NDECOR {
                        todo.push((v.to_string(), k));
                    }
                }
                for v in gs::T_GENERIC.iter().map(|x| x.to_string()).chain(names) {
                    todo.push((v.clone(), 0));
                    todo.push((v, 1 + ((case as usize + round as usize * 7) % (gs::NDECOR - 1))));
                    case += 1;
                }
                // other variables' dictionaries reach this variable too, sampled
                for other in 0..NVARS {
                    let d = gs::typed_dict(other);
                    if other != var && !d.is_empty() {
                        todo.push((d[(case as usize + var) % d.len()].to_string(), 0));
                        case += 1;
                    }
                }
                for (k, (base, decor)) in todo.into_iter().enumerate() {
                    case += 1;
                    if !cx.mine(case) || (mini && k % 97 != 0) {
                        continue;
                    }
                    let special = gs::decorate(&base, decor);
                    let mut m = gs::model(&mut r, false, 1, 3);
                    match VARS[var].kind {
                        Kind::S => m.set(var, Val::S(special.clone())),
                        _ => {
                            let mut l = gs::list_for(&mut r, var);
                            let at = r.below(l.len());
                            l[at] = special.clone();
                            m.set(var, Val::A(l));
                        }
                    }
                    let hists = histories(&mut r, &m);
                    cx.check(
                        || format!("typed value {special:?} in {}: model {}", VARS[var].name, show_entry(&m)),
                        |ev| {
                            ev.count("workload/typed_sweep");
                            ev.count(&format!("typed/{}", VARS[var].name));
                            if decor != 0 {
                                ev.count("typed/decorated");
                            }
                            check_model(ev, &m, &hists)
                        },
                    );
                }
            }
        }
    }

    // (b3) long values: lengths around powers of two and other plausible
    // fixed limits, characters of one width at every byte alignment.
    {
        let n = cx.per_shard(2, 200, 3_000, 30_000);
        let mut r = cx.stream("long-values");
        for k in 0..n {
            let mut m = gs::model(&mut r, false, 1, 3);
            let svars: Vec<usize> = (0..NVARS).filter(|&v| VARS[v].kind != Kind::I).collect();
            let var = svars[(k as usize) % svars.len()];
            let width = [2usize, 3, 4, 0, 1][(k as usize / svars.len()) % 5];
            let lead = r.below(5);
            let limit = gs::LIMITS[r.below(gs::LIMITS.len())];
            let limit = if cx.tier == Tier::Mini { limit.min(256) } else { limit };
            // the value itself, or the whole line "VAR=value", is around the limit
            let len = match r.below(3) {
                0 => limit + r.below(9),
                1 => (limit + r.below(9)).saturating_sub(VARS[var].name.len() + 1 + 4).max(8),
                _ => limit.saturating_sub(r.below(9)).max(8),
            };
            let long = gs::aligned_text(&mut r, width, lead, len);
            match VARS[var].kind {
                Kind::S => m.set(var, Val::S(long)),
                _ => {
                    let mut l = gs::list_for(&mut r, var);
                    let at = r.below(l.len());
                    l[at] = long;
                    m.set(var, Val::A(l));
                }
            }
            let hists = histories(&mut r, &m);
            cx.check(
                || format!("long value ({len} bytes, {width}-byte characters after {lead}) in {}: model {}", VARS[var].name, show_entry(&m)),
                |ev| {
                    ev.count("workload/long_values");
                    ev.max("max/value_bytes", len as u64);
                    check_model(ev, &m, &hists)
                },
            );
        }
    }

    // (b4) several huge values in one entry, with ordinary lines between
    // them: values of 4 KiB, 64 KiB and more at two or more places of the same
    // entry (a printer that batches its output, writes big lines directly or
    // switches strategy by size has state that lives from one line to the next)
    if cx.tier != Tier::Mini {
        let mut r = cx.shared_stream("huge-value-patterns");
        let limits: &[usize] = cx.pick_tier(&[][..], &[4096, 65_536][..], &[4096, 65_536, 65_537, 131_072][..], &[4096, 32_768, 65_536, 65_537, 131_072, 1 << 20][..]);
        let per = cx.pick_tier(0usize, 4, 10, 24);
        let mut case = 0u64;
        for &limit in limits {
            for k in 0..per {
                let mut m = gs::model(&mut r, false, 1, 3);
                let mut huge = 0usize;
                let mk = |r: &mut crate::rng::Rng| {
                    let (w, lead, len) = ([0usize, 1, 2, 3][r.below(4)], r.below(4), limit + r.below(3) - 1);
                    gs::aligned_text(r, w, lead, len)
                };
                let svars: Vec<usize> = (0..NVARS).filter(|&v| VARS[v].kind != Kind::I).collect();
                match k % 3 {
                    0 => {
                        // one list: small, huge, small, huge
                        let lists: Vec<usize> = svars.iter().cloned().filter(|&v| VARS[v].kind != Kind::S).collect();
                        let var = *r.pick(&lists);
                        let small = gs::list_for(&mut r, var);
                        let mut l = vec![];
                        for i in 0..r.range(3, 6) {
                            if i % 2 == 1 {
                                l.push(mk(&mut r));
                                huge += 1;
                            } else {
                                l.push(small[i % small.len()].clone());
                            }
                        }
                        m.set(var, Val::A(l));
                    }
                    _ => {
                        // every variable on its own: huge with probability 1/3
                        for &var in &svars {
                            match VARS[var].kind {
                                Kind::S => {
                                    if r.chance(1, 3) {
                                        m.set(var, Val::S(mk(&mut r)));
                                        huge += 1;
                                    }
                                }
                                _ => {
                                    if r.chance(1, 2) {
                                        let mut l = gs::list_for(&mut r, var);
                                        for x in l.iter_mut() {
                                            if r.chance(1, 3) {
                                                *x = mk(&mut r);
                                                huge += 1;
                                            }
                                        }
                                        m.set(var, Val::A(l));
                                    }
                                }
                            }
                        }
                    }
                }
                let hists = histories(&mut r, &m);
                case += 1;
                if !cx.mine(case) || huge < 2 {
                    continue;
                }
                // Step budget proportional to the work the histories demand of an
                // entry of this size (every observation prints or copies all of
                // it); C07 is not about promptness, the budget only stops a runaway.
                let total = (huge * limit) as u64;
                cx.set_budget((total * 1024).max(1 << 24), (total * 65_536).max(1 << 30));
                cx.check(
                    || format!("{huge} values of about {limit} bytes in one entry: variables {:?}", (0..NVARS).filter(|&v| m.get(v).is_some()).map(|v| VARS[v].name).collect::<Vec<_>>()),
                    |ev| {
                        ev.count("workload/huge_value_patterns");
                        ev.max("max/value_bytes", limit as u64);
                        check_model(ev, &m, &hists)
                    },
                );
            }
        }
    }

    cx.default_budget();

    // (b5) the count ladder for list variables: exactly n lines for n at the
    // binary and the decimal round numbers (a printer or builder that works in
    // batches of 2^k or 10^k lines has its seam exactly there), one less, one
    // more
    if cx.tier != Tier::Mini {
        let mut r = cx.shared_stream("list-count-ladder");
        let mut counts: Vec<usize> = vec![];
        for c in [100usize, 256, 500, 1000, 1024, 2000, 4096, 5000, 10_000] {
            counts.extend([c - 1, c, c + 1]);
        }
        if cx.tier == Tier::Thorough {
            for c in [3000usize, 8192, 20_000, 65_536, 100_000] {
                counts.extend([c - 1, c, c + 1]);
            }
        }
        if cx.tier == Tier::Small {
            counts.retain(|c| *c <= 2001);
        }
        let lists: Vec<usize> = (0..NVARS).filter(|&v| VARS[v].kind == Kind::A).collect();
        for (k, &n) in counts.iter().enumerate() {
            let mut m = gs::model(&mut r, false, 1, 3);
            let var = lists[k % lists.len()];
            let l: Vec<String> = (0..n).map(|i| if i % 97 == 13 { String::new() } else { format!("line{i}") }).collect();
            m.set(var, Val::A(l));
            // (an observation after every call would cost n^2 / 2 lines printed:
            // long lists are observed at the end of two different histories)
            let hists = if n > 1100 {
                (0..2)
                    .map(|_| {
                        let h = gs::history(&mut r, &m);
                        gs::observed(&mut r, &h, ObsMode::None)
                    })
                    .collect()
            } else {
                histories(&mut r, &m)
            };
            if !cx.mine(k as u64) {
                continue;
            }
            cx.set_budget(((n as u64) << 16).max(1 << 24), ((n as u64) << 26).max(1 << 30));
            cx.check(
                || format!("{n} lines in {}", VARS[var].name),
                |ev| {
                    ev.count("workload/list_count_ladder");
                    ev.max("max/list_lines", n as u64);
                    check_model(ev, &m, &hists)
                },
            );
        }
    }

    cx.default_budget();

    // (d) histories that continue a parsed entry: parse the canonical text of
    // a complete entry B, then go on with set_*/push_* calls (and observation
    // calls in between); the end state is B overlaid with the calls.
    {
        let n = cx.per_shard(4, 600, 10_000, 100_000);
        let mut r = cx.stream("continued");
        for k in 0..n {
            let base = gs::model(&mut r, k % 4 == 0, 1, 2);
            let m = gs::model(&mut r, false, 1, 3);
            let mut ops = gs::history(&mut r, &m);
            // mostly a short continuation: a handful of calls on a parsed entry
            if k % 3 != 0 {
                let keep = r.range(1, 6.min(ops.len()));
                r.shuffle(&mut ops);
                ops.truncate(keep);
            }
            let mut fin = base.clone();
            for op in &ops {
                match op {
                    Op::Set(v, val) => fin.set(*v, val.clone()),
                    Op::Push(v, s) => fin.push(*v, s),
                }
            }
            let mode = [ObsMode::Dense, ObsMode::AroundLists, ObsMode::Sparse, ObsMode::None][(k % 4) as usize];
            let mut steps = gs::observed(&mut r, &ops, mode);
            // half of the time the parsed entry is printed before the first call
            if k % 2 == 0 {
                steps.insert(0, Step::Obs(Obs::Print));
            }
            cx.check(
                || format!("parsed entry {} continued with [{}]", show_entry(&base), show_steps(&steps)),
                |ev| {
                    ev.count("workload/continued");
                    check_continued(ev, &base, &steps, &fin)
                },
            );
        }
    }

    // (e) integers respelt in the text that is parsed: "+4321", "004321", "-0".
    // Whether such a spelling is accepted is not stated; if it is, the entry
    // holds the number, and the printed form depends only on the values - it
    // is the canonical text, whatever the parsed text looked like.
    {
        let n = cx.per_shard(4, 300, 3_000, 30_000);
        let mut r = cx.stream("respelt-integers");
        for _ in 0..n {
            let full = r.chance(1, 2);
            let mut m = gs::model(&mut r, full, 1, 3);
            let a = *r.pick(&[0i64, 1, 7, 4321, 1_000_000, 9_007_199_254_740_993, i64::MAX]);
            let var = if r.chance(1, 2) { os::FILE_SIZE } else { os::SIZE_PKG };
            m.set(var, Val::I(a));
            let canon = m.print();
            let plain = format!("{}={a}", VARS[var].name);
            let spelt = match r.below(5) {
                0 => format!("{}=+{a}", VARS[var].name),
                1 => format!("{}=0{a}", VARS[var].name),
                2 => format!("{}=000000000000000000000{a}", VARS[var].name),
                3 if a == 0 => format!("{}=-0", VARS[var].name),
                _ => format!("{}=+0{a}", VARS[var].name),
            };
            // (the whole line, not the same text inside another value)
            let mut hit = false;
            let text: String = canon
                .split_inclusive('\n')
                .map(|l| {
                    if !hit && l.trim_end_matches('\n') == plain {
                        hit = true;
                        format!("{spelt}\n")
                    } else {
                        l.to_string()
                    }
                })
                .collect();
            if !hit {
                continue;
            }
            cx.check(
                || format!("parsed text with {spelt:?} for {plain:?}"),
                |ev| {
                    ev.count("workload/respelt_integers");
                    ev.eval();
                    match Summary::from_str(&text) {
                        Err(_) => {
                            ev.count("respelt/rejected");
                            Ok(())
                        }
                        Ok(sum) => {
                            ev.count("respelt/accepted");
                            if get(&sum, var) != Some(Val::I(a)) {
                                // another number was read: not this monitor's business
                                return Ok(());
                            }
                            let printed = sum.to_string();
                            if printed != canon {
                                return Err(format!(
                                    "the entry parsed from a text with {spelt:?} holds {a} like one built by the setter, but prints differently: {}",
                                    text_diff(&printed, &canon)
                                )
                                .into());
                            }
                            Ok(())
                        }
                    }
                },
            );
        }
    }

    // (c) extreme sizes in both integer variables
    if cx.tier != Tier::Mini {
        let mut r = cx.shared_stream("sizes");
        let sizes = [0i64, 1, -1, i64::MAX, i64::MIN, i64::MAX - 1, i64::MIN + 1, 1 << 32, -(1 << 32)];
        let mut case = 0u64;
        for &a_ in &sizes {
            for &b_ in &sizes {
                let mut m = gs::model(&mut r, false, 1, 3);
                m.set(os::FILE_SIZE, Val::I(a_));
                m.set(os::SIZE_PKG, Val::I(b_));
                let hists = histories(&mut r, &m);
                case += 1;
                if !cx.mine(case) {
                    continue;
                }
                cx.check(
                    || format!("FILE_SIZE={a_} SIZE_PKG={b_}: model {}", show_entry(&m)),
                    |ev| {
                        ev.count("workload/sizes");
                        check_model(ev, &m, &hists)
                    },
                );
            }
        }
    }
}
