//! C06 - monitor not written yet.

use crate::fw::Cx;

pub fn run(_cx: &mut Cx) {}
