//! C06 - best_match returns the matching candidate with the highest version;
//! argument order and reduction order do not matter.

use crate::corpus;
use crate::fw::{CaseResult, Cx, Ev, Tier};
use crate::gen::version as gv;
use crate::oracle::dewey::{self as od, Weight};
use crate::oracle::pattern as opat;
use crate::rng::{hash_strs, Rng};
use pkgsrc::Pattern;
use std::cmp::Ordering;

const PATS: [(&str, &[&str]); 15] = [
    // a base and the same base continued by a byte that sorts below '-'
    // (gtk / gtk+): byte-wise order of the names is not order of the bases
    ("*-[0-9]*", &["gtk", "gtk+", "gtk++", "gtk,", "gtk!", "g", "g++"]),
    ("{gtk,gtk+,libsigc,libsigc++}-[0-9]*", &["gtk", "gtk+", "libsigc", "libsigc++"]),
    ("p-*", &["p"]),
    ("{foo,bar}-[0-9]*", &["foo", "bar", "baz"]),
    ("p>=1<3", &["p", "q"]),
    ("p>0", &["p", "pp"]),
    ("*-[0-9]*", &["a", "b", "p-x", "zz"]),
    ("{a,b,c}{,x}>=1", &["a", "b", "c", "ax", "cx", "d"]),
    ("?oo-*", &["foo", "boo", "Foo", "fo"]),
    ("*", &["p", "q", "foo-bar"]),
    // an empty base: the name's only '-' is its first byte
    ("-[0-9]*", &["", "x"]),
    (">0", &["", "p"]),
    ("*", &["", "p"]),
    // an empty alternative in last and in middle position
    ("foo{-bin,}-[0-9]*", &["foo", "foo-bin", "foo-bi"]),
    ("{,lib}x{,y,}-*", &["x", "libx", "xy", "libxy"]),
];

const EQUAL_SPELLINGS: [&[&str]; 5] = [
    &["1.0", "1.0.0", "1_0", "1pl0", "1.0nb0", "1.0pl", "1.0_", "1.0."],
    &["2", "2.0", "2pl", "2.", "2nb0", "02", "2_0", "0000000000000000000002", "2.000000000000000000000"],
    &["1.5rc1", "1.5pre1", "1.5RC1", "1.5Pre1"],
    &["1.0alpha", "1.0ALPHA", "1.0alpha0", "1_0alpha"],
    &["3nb1", "3.0nb1", "3nb01", "3pl0nb1", "3NB1"],
];

fn digits() -> &'static Vec<String> {
    static D: std::sync::OnceLock<Vec<String>> = std::sync::OnceLock::new();
    D.get_or_init(|| gv::digits_and_separators(5))
}

fn version(r: &mut Rng) -> String {
    match r.below(6) {
        0 | 1 => {
            let grp = EQUAL_SPELLINGS[r.below(EQUAL_SPELLINGS.len())];
            grp[r.below(grp.len())].to_string()
        }
        2 => format!("{}.{}", r.below(4), r.below(4)),
        3 => gv::v(r),
        4 if r.chance(1, 3) => {
            // a digit run padded with leading zeros beyond 18 characters
            let v = if r.chance(1, 2) { gv::v_safe(r) } else { format!("{}.{}", r.below(4), r.below(4)) };
            gv::pad_zeros(r, &v)
        }
        _ => gv::v_safe(r),
    }
}

/// Order of two versions: the reference where it is K1-free, otherwise the
/// real order observed through a comparison pattern (C01/C03 establish it).
fn vorder(a: &str, b: &str) -> Result<Ordering, crate::fw::Fail> {
    if gv::usable_padded(a) && gv::usable_padded(b) && od::k1_free(a, b) {
        return Ok(od::order(a, b, Weight::Rank));
    }
    if !gv::usable_padded(a) || !gv::usable_padded(b) {
        return Err("harness: version outside the usable domain".into());
    }
    let gt = Pattern::new(&format!("v>{b}")).map_err(|e| format!("Pattern::new failed: {e}"))?.matches(&format!("v-{a}"));
    let lt = Pattern::new(&format!("v<{b}")).map_err(|e| format!("Pattern::new failed: {e}"))?.matches(&format!("v-{a}"));
    Ok(match (gt, lt) {
        (true, false) => Ordering::Greater,
        (false, true) => Ordering::Less,
        (false, false) => Ordering::Equal,
        (true, true) => return Err(format!("real order says both {a:?} > {b:?} and {a:?} < {b:?}").into()),
    })
}

fn ver_of(name: &str) -> &str {
    match name.rfind('-') {
        Some(i) => &name[i + 1..],
        None => "",
    }
}

fn combine<'a>(p: &Pattern, a: Option<&'a str>, b: Option<&'a str>) -> Option<&'a str> {
    match (a, b) {
        (Some(x), Some(y)) => p.best_match(x, y),
        (Some(x), None) | (None, Some(x)) => p.best_match(x, x),
        (None, None) => None,
    }
}

fn permutations(n: usize) -> Vec<Vec<usize>> {
    fn go(k: usize, cur: &mut Vec<usize>, used: &mut Vec<bool>, out: &mut Vec<Vec<usize>>) {
        if cur.len() == k {
            out.push(cur.clone());
            return;
        }
        for i in 0..k {
            if !used[i] {
                used[i] = true;
                cur.push(i);
                go(k, cur, used, out);
                cur.pop();
                used[i] = false;
            }
        }
    }
    let mut out = vec![];
    go(n, &mut vec![], &mut vec![false; n], &mut out);
    out
}

/// Reduce `items` with a random bracketing described by a list of split
/// choices consumed from `splits`.
fn bracket<'a>(p: &Pattern, items: &[Option<&'a str>], splits: &mut std::slice::Iter<usize>) -> Option<&'a str> {
    if items.len() == 1 {
        // a singleton is "reduced" through best_match(x, x) so non-matching
        // candidates become None
        return combine(p, items[0], None);
    }
    let k = 1 + splits.next().copied().unwrap_or(0) % (items.len() - 1);
    let l = bracket(p, &items[..k], splits);
    let r = bracket(p, &items[k..], splits);
    combine(p, l, r)
}

/// Which candidates match: for a brace pattern the union of its expansions,
/// each compiled on its own (so that the alternation matcher is not its own
/// judge here); otherwise the pattern itself (C02 / C05 judge that).
struct Matcher {
    whole: Pattern,
    expansions: Option<Vec<Pattern>>,
}

impl Matcher {
    fn new(pt: &str) -> Result<Matcher, crate::fw::Fail> {
        let whole = Pattern::new(pt).map_err(|e| format!("Pattern::new({pt:?}) failed: {e}"))?;
        let expansions = if pt.contains('{') && opat::braces_nested(pt) && !pt.contains("{}") && opat::count_expansions(pt, 256) <= 256 {
            Some(opat::expand(pt).iter().filter_map(|e| Pattern::new(e).ok()).collect())
        } else {
            None
        };
        Ok(Matcher { whole, expansions })
    }
    fn matches(&self, name: &str) -> bool {
        match &self.expansions {
            Some(es) => es.iter().any(|e| e.matches(name)),
            None => self.whole.matches(name),
        }
    }
}

fn check_list(ev: &mut Ev, pt: &str, names: &[String], splits: &[Vec<usize>]) -> CaseResult {
    let p = Pattern::new(pt).map_err(|e| format!("Pattern::new({pt:?}) failed: {e}"))?;
    let judge = Matcher::new(pt)?;
    // expected winner
    let matching: Vec<&String> = names.iter().filter(|n| judge.matches(n)).collect();
    let mut best: Option<&String> = None;
    let mut ties = 0;
    for m in &matching {
        best = Some(match best {
            None => m,
            Some(b) => match vorder(ver_of(m), ver_of(b))? {
                Ordering::Greater => m,
                Ordering::Less => b,
                Ordering::Equal => {
                    if m.as_str() != b.as_str() {
                        ties += 1;
                    }
                    if m.as_str() < b.as_str() {
                        m
                    } else {
                        b
                    }
                }
            },
        });
    }
    let want = best.map(|s| s.as_str());
    ev.count(&format!("matching-candidates/{}", matching.len().min(4)));
    if ties > 0 {
        ev.count("lists-with-ties");
    }
    // pairwise laws on every ordered pair
    for x in names {
        for y in names {
            let got = p.best_match(x, y);
            ev.eval();
            let (mx, my) = (judge.matches(x), judge.matches(y));
            let exp: Option<&str> = match (mx, my) {
                (false, false) => None,
                (true, false) => Some(x),
                (false, true) => Some(y),
                (true, true) => Some(match vorder(ver_of(x), ver_of(y))? {
                    Ordering::Greater => x.as_str(),
                    Ordering::Less => y.as_str(),
                    Ordering::Equal => {
                        if x.as_str() <= y.as_str() {
                            x.as_str()
                        } else {
                            y.as_str()
                        }
                    }
                }),
            };
            if got != exp {
                return Err(format!(
                    "best_match({pt:?}, {x:?}, {y:?}) = {got:?}, expected {exp:?} (matches: {mx}, {my})"
                )
                .into());
            }
            let rev = p.best_match(y, x);
            if rev != got {
                return Err(format!("best_match({pt:?}, {x:?}, {y:?}) = {got:?} but with arguments swapped = {rev:?}").into());
            }
            // The same two names as slices of ONE buffer (a name and a longer
            // name that begins with it, cut from the same line): the answer is
            // about the texts, not about where they lie in memory.
            if x.len() < y.len() && y.starts_with(x.as_str()) {
                let xa: &str = &y[..x.len()];
                for (u, v) in [(xa, y.as_str()), (y.as_str(), xa)] {
                    let g = p.best_match(u, v);
                    ev.eval();
                    ev.count("aliased-slices/pairs");
                    if g != exp {
                        return Err(format!(
                            "best_match({pt:?}, {u:?}, {v:?}) = {g:?} when both names are slices of one buffer starting at the same address, {exp:?} when they are separate strings"
                        )
                        .into());
                    }
                }
            }
        }
    }
    // Boundary shift: the same characters split differently between pattern
    // and name ("lib*" + "libfoo-1.0" / "lib*lib" + "foo-1.0").  Each call is
    // judged on its own; an answer remembered under a key that runs the two
    // arguments together would be given to the wrong question.
    if let Some(x) = names.first() {
        let cuts: Vec<usize> = [1usize, 2, 3, x.len() / 2].into_iter().filter(|&k| k > 0 && k < x.len() && x.is_char_boundary(k)).collect();
        for k in cuts {
            let (p2t, x2) = (format!("{pt}{}", &x[..k]), &x[k..]);
            let Ok(p2) = Pattern::new(&p2t) else { continue };
            ev.count("boundary-shift/pairs");
            for y in names.iter().map(|s| s.as_str()).chain(std::iter::once(x2)) {
                let got = p2.best_match(x2, y);
                ev.eval();
                let (mx, my) = (p2.matches(x2), p2.matches(y));
                let exp: Option<&str> = match (mx, my) {
                    (false, false) => None,
                    (true, false) => Some(x2),
                    (false, true) => Some(y),
                    (true, true) => {
                        if !gv::usable_padded(ver_of(x2)) || !gv::usable_padded(ver_of(y)) {
                            continue;
                        }
                        Some(match vorder(ver_of(x2), ver_of(y))? {
                            Ordering::Greater => x2,
                            Ordering::Less => y,
                            Ordering::Equal => {
                                if x2 <= y {
                                    x2
                                } else {
                                    y
                                }
                            }
                        })
                    }
                };
                if got != exp {
                    return Err(format!(
                        "best_match({p2t:?}, {x2:?}, {y:?}) = {got:?}, expected {exp:?} (matches: {mx}, {my}); asked right after the same characters split as pattern {pt:?} / name {x:?}"
                    )
                    .into());
                }
            }
        }
    }
    // every permutation of the left fold
    let items: Vec<Option<&str>> = names.iter().map(|s| Some(s.as_str())).collect();
    for perm in permutations(names.len()) {
        let mut acc: Option<&str> = combine(&p, items[perm[0]], None);
        for &i in &perm[1..] {
            acc = combine(&p, acc, combine(&p, items[i], None));
        }
        ev.eval();
        ev.count("reductions/left-fold-permutations");
        if acc != want {
            return Err(format!(
                "left fold of {:?} under {pt:?} = {acc:?}, expected winner {want:?}",
                perm.iter().map(|&i| &names[i]).collect::<Vec<_>>()
            )
            .into());
        }
    }
    // random bracketings of random permutations
    for sp in splits {
        let perm_idx = sp.first().copied().unwrap_or(0);
        let perms = permutations(names.len());
        let perm = &perms[perm_idx % perms.len()];
        let its: Vec<Option<&str>> = perm.iter().map(|&i| items[i]).collect();
        let got = bracket(&p, &its, &mut sp[1..].iter());
        ev.eval();
        ev.count("reductions/bracketings");
        if got != want {
            return Err(format!(
                "bracketed reduction (shape {:?}) of {:?} under {pt:?} = {got:?}, expected winner {want:?}",
                &sp[1..],
                perm.iter().map(|&i| &names[i]).collect::<Vec<_>>()
            )
            .into());
        }
    }
    if matching.len() >= 2 {
        let mut parts: Vec<&[u8]> = vec![pt.as_bytes()];
        for n in names {
            parts.push(n.as_bytes());
        }
        ev.nontrivial(hash_strs(&parts));
    }
    Ok(())
}

/// The laws that need no reference order, for candidates outside the
/// reference's domain (digit runs of 19 and more digits, saturated numbers
/// next to negative modifiers): the result is None exactly when neither
/// matches, otherwise one of the two and a match; it does not depend on the
/// argument order; every left fold of the list gives the same winner.
fn check_laws_only(ev: &mut Ev, pt: &str, names: &[String]) -> CaseResult {
    let p = Pattern::new(pt).map_err(|e| format!("Pattern::new({pt:?}) failed: {e}"))?;
    for x in names {
        for y in names {
            let got = p.best_match(x, y);
            let rev = p.best_match(y, x);
            ev.evals(2);
            if got != rev {
                return Err(format!("best_match({pt:?}, {x:?}, {y:?}) = {got:?} but with arguments swapped = {rev:?}").into());
            }
            let (mx, my) = (p.matches(x), p.matches(y));
            match got {
                None if !mx && !my => {}
                Some(z) if (z == x.as_str() && mx) || (z == y.as_str() && my) => {}
                _ => return Err(format!("best_match({pt:?}, {x:?}, {y:?}) = {got:?} (matches: {mx}, {my})").into()),
            }
        }
    }
    let items: Vec<Option<&str>> = names.iter().map(|s| Some(s.as_str())).collect();
    let mut winner: Option<Option<&str>> = None;
    for perm in permutations(names.len().min(5)) {
        let mut acc: Option<&str> = combine(&p, items[perm[0]], None);
        for &i in &perm[1..] {
            acc = combine(&p, acc, combine(&p, items[i], None));
        }
        ev.eval();
        ev.count("laws-only/left-folds");
        match winner {
            None => winner = Some(acc),
            Some(w) if w == acc => {}
            Some(w) => {
                return Err(format!(
                    "left fold of {:?} under {pt:?} = {acc:?}, another order of the same candidates gave {w:?}",
                    perm.iter().map(|&i| &names[i]).collect::<Vec<_>>()
                )
                .into())
            }
        }
    }
    Ok(())
}

pub fn run(cx: &mut Cx) {
    cx.default_budget();
    // (0) candidates outside the reference's domain: laws only
    {
        let mut r = cx.stream("laws-only");
        let n = cx.per_shard(4, 60, 600, 6_000);
        const EXTREME: [&str; 12] = [
            "99999999999999999999", "9223372036854775807", "9223372036854775806", "9223372036854775805", "18446744073709551616",
            "alpha", "beta", "rc", "pre", "0", "1", "",
        ];
        for _ in 0..n {
            let prefix = match r.below(5) {
                0 => String::new(),
                1 => "1.".to_string(),
                2 => "2.0.".to_string(),
                3 => "1_".to_string(),
                _ => format!("{}.", r.below(3)),
            };
            let suffix = *r.pick(&["", "nb1", ".1", "rc1"]);
            let mut names: Vec<String> = (0..r.range(3, 5)).map(|_| format!("p-{prefix}{}{suffix}", r.pick(&EXTREME))).collect();
            if r.chance(1, 3) {
                names.push(format!("p-{}", gv::v(&mut r)));
            }
            let pt = *r.pick(&["p-*", "p>=0", "*", "p-[0-9a-z]*"]);
            cx.check(
                || format!("laws only: pattern {pt:?} candidates {names:?}"),
                |ev| {
                    ev.count("workload/laws-only");
                    check_laws_only(ev, pt, &names)
                },
            );
        }
    }
    for k in ["matching-candidates/0", "matching-candidates/1", "matching-candidates/2", "matching-candidates/3", "lists-with-ties", "reductions/left-fold-permutations", "reductions/bracketings"] {
        cx.ev.require(k);
    }
    cx.ev.require("boundary-shift/pairs");
    cx.ev.require("lists/revision-cluster");
    cx.ev.require("lists/neighbours");
    cx.ev.require("lists/digits-and-separators");
    cx.ev.require("aliased-slices/pairs");
    let n = cx.per_shard(30, 2_500, 96_000, 600_000);
    let mut r = cx.stream("lists");
    for _ in 0..n {
        let (pt, bases) = *r.pick(&PATS);
        let len = r.range(2, cx.pick_tier(3, 4, 5, 5));
        let mut names: Vec<String> = vec![];
        // shared version pool so that ties across bases happen
        // ... or a family of related versions: near neighbours of one version
        // (one edit apart, so that a shortcut taken for "almost equal"
        // candidates is reached), or one stem with different tails behind "nb"
        let mode = r.below(6);
        let pool: Vec<String> = match mode {
            5 => {
                // digits and separators only, up to five tokens
                // (one of them, the same with a zero-valued token respelt - equal
                // in value - and two others)
                let c = digits();
                let dotted = |v: &String| v.starts_with(|c: char| c.is_ascii_digit()) && v.bytes().all(|b| b.is_ascii_digit() || b == b'.');
                // half of the time plain dotted numbers only ("1.0.7", "1...7"):
                // what a reader that splits at dots takes for itself
                let plain = r.chance(1, 2);
                let v = loop {
                    let v = r.pick(c).clone();
                    if !plain || dotted(&v) {
                        break v;
                    }
                };
                let mut z = gv::zero_swaps(&v);
                if plain && z.iter().any(|w| dotted(w)) {
                    z.retain(|w| dotted(w));
                }
                let mut pool = vec![v];
                for _ in 0..2 {
                    if !z.is_empty() {
                        pool.push(r.pick(&z).clone());
                    }
                }
                pool.push(r.pick(c).clone());
                if dotted(&pool[0]) && pool[1..pool.len() - 1].iter().any(|w| dotted(w) && *w != pool[0]) {
                    cx.ev.count("lists/digits-and-dots-with-an-equal-valued-respelling");
                }
                pool
            }
            0 => {
                let stem = if r.chance(1, 2) { format!("{}.{}", r.below(3), r.below(3)) } else { gv::v_safe(&mut r) };
                let c = gv::revision_cluster(&stem);
                (0..4).map(|_| r.pick(&c).clone()).collect()
            }
            1 => {
                let v0 = gv::v_safe(&mut r);
                let v1 = gv::neighbour(&mut r, &v0, false);
                let from0 = r.chance(1, 2);
                let v2 = gv::neighbour(&mut r, if from0 { &v0 } else { &v1 }, false);
                vec![v0, v1, v2]
            }
            _ => (0..3).map(|_| version(&mut r)).collect(),
        };
        cx.ev.count(match mode {
            0 => "lists/revision-cluster",
            1 => "lists/neighbours",
            5 => "lists/digits-and-separators",
            _ => "lists/independent",
        });
        for _ in 0..len {
            let b = *r.pick(bases);
            let v = if mode < 2 || mode == 5 || r.chance(2, 3) { r.pick(&pool).clone() } else { version(&mut r) };
            names.push(match r.below(12) {
                0 => b.to_string(), // no '-'
                1 => format!("{b}{v}"),
                _ => format!("{b}-{v}"),
            });
        }
        let splits: Vec<Vec<usize>> = (0..4).map(|_| (0..8).map(|_| r.below(1000)).collect()).collect();
        cx.check(
            || format!("pattern {pt:?} candidates {names:?}"),
            |ev| check_list(ev, pt, &names, &splits),
        );
    }

    // Corpus: real patterns and the real names that share their prefix.
    if cx.tier != Tier::Mini {
        let pats = corpus::patterns();
        let mut names = corpus::names();
        names.sort();
        let step = cx.pick_tier(512u64, 128, 16, 2);
        let mut r = cx.stream("corpus");
        for (i, p) in pats.iter().enumerate() {
            let i = i as u64;
            if i % step != 0 || !cx.mine(i / step) {
                continue;
            }
            if p.contains("{}") || !opat::braces_nested(p) {
                continue;
            }
            let key: String = p.chars().take_while(|c| c.is_ascii_alphanumeric() || *c == '-').take(3).collect();
            let lo = names.partition_point(|n| n.as_str() < key.as_str());
            let near: Vec<&String> = names[lo..].iter().take_while(|n| n.starts_with(&key)).take(40).collect();
            let mut cand: Vec<String> = vec![];
            for _ in 0..r.range(2, 4) {
                if !near.is_empty() && r.chance(3, 4) {
                    cand.push((*r.pick(&near)).clone());
                } else {
                    cand.push(r.pick(&names).clone());
                }
            }
            // a respelt duplicate of one candidate (same version value)
            if let Some((b, v)) = opat::split_name(&cand[0].clone()) {
                cand.push(format!("{b}-{v}.0"));
            }
            if cand.iter().any(|n| !gv::usable(ver_of(n))) {
                continue;
            }
            let splits: Vec<Vec<usize>> = (0..3).map(|_| (0..8).map(|_| r.below(1000)).collect()).collect();
            cx.check(
                || format!("corpus pattern {p:?} candidates {cand:?}"),
                |ev| {
                    ev.count("workload/corpus");
                    check_list(ev, p, &cand, &splits)
                },
            );
        }
    }
}
