//! One monitor per property.

use crate::fw::Cx;

pub mod c01;
pub mod c02;
pub mod c03;
pub mod c04;
pub mod c05;
pub mod c06;
pub mod c07;
pub mod c08;
pub mod c09;
pub mod c10;
pub mod c11;
pub mod c12;
pub mod c13;
pub mod c14;
pub mod c15;
pub mod c16;
pub mod c17;
pub mod c18;
pub mod c19;
pub mod c20;

pub fn lookup(id: &str) -> Option<fn(&mut Cx)> {
    match id {
        "C01" => Some(c01::run),
        "C02" => Some(c02::run),
        "C03" => Some(c03::run),
        "C04" => Some(c04::run),
        "C05" => Some(c05::run),
        "C06" => Some(c06::run),
        "C07" => Some(c07::run),
        "C08" => Some(c08::run),
        "C09" => Some(c09::run),
        "C10" => Some(c10::run),
        "C11" => Some(c11::run),
        "C12" => Some(c12::run),
        "C13" => Some(c13::run),
        "C14" => Some(c14::run),
        "C15" => Some(c15::run),
        "C16" => Some(c16::run),
        "C17" => Some(c17::run),
        "C18" => Some(c18::run),
        "C19" => Some(c19::run),
        "C20" => Some(c20::run),
        _ => None,
    }
}
