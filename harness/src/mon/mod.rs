//! One monitor per property.

use crate::fw::Cx;

pub mod c01;

pub fn lookup(id: &str) -> Option<fn(&mut Cx)> {
    match id {
        "C01" => Some(c01::run),
        _ => None,
    }
}
