//! C03 - version order is a total preorder; the four operators are mutually
//! consistent.  No reference model: the laws relate verdicts of the real
//! code to each other, so the pool may leave every model's domain.

use crate::fw::{CaseResult, Cx, Ev};
use crate::gen::version as gv;
use crate::oracle::dewey::{Op, OPS};
use crate::rng::{hash_strs, Rng};
use pkgsrc::Pattern;

fn forbidden(c: char) -> bool {
    matches!(c, '-' | '<' | '>' | '{' | '}')
}

fn wild_char(r: &mut Rng) -> char {
    loop {
        let c = match r.below(8) {
            0..=2 => (0x20 + r.below(0x5f) as u32) as u8 as char,
            3 => char::from_u32(0xa0 + r.below(0x60) as u32).unwrap(),
            4 => char::from_u32(0x4e00 + r.below(0x100) as u32).unwrap(),
            5 => char::from_u32(0x1f600 + r.below(0x40) as u32).unwrap(),
            6 => *r.pick(&['\t', '\u{0}', '\u{7f}', '\u{85}', '\u{a0}', '\u{212a}', '\u{130}', 'ß']),
            _ => (b'0' + r.below(10) as u8) as char,
        };
        if !forbidden(c) {
            return c;
        }
    }
}

fn wild(r: &mut Rng) -> String {
    let mut s = String::new();
    match r.below(5) {
        0 => {
            // arbitrary text
            for _ in 0..r.range(0, 8) {
                s.push(wild_char(r));
            }
        }
        1 => {
            // very long digit runs (outside the 18-digit domain)
            let n = r.range(19, 40);
            for _ in 0..n {
                s.push((b'0' + r.below(10) as u8) as char);
            }
            if r.chance(1, 2) {
                s.push_str(&gv::v(r));
            }
        }
        2 => {
            // grammar version with wild characters sprinkled in
            for c in gv::v(r).chars() {
                if r.chance(1, 6) {
                    s.push(wild_char(r));
                }
                s.push(c);
            }
        }
        3 => {
            s = format!("{}nb{}", gv::v(r), "9".repeat(r.range(17, 25)));
        }
        _ => s = gv::v(r),
    }
    if s.starts_with('=') {
        s.insert(0, '0');
    }
    s
}

/// One-edit neighbour of an arbitrary string (no domain restrictions).
fn wild_neighbour(r: &mut Rng, v: &str) -> String {
    let mut c: Vec<char> = v.chars().collect();
    match r.below(6) {
        0 => c.extend(r.pick(&[".", ".0", "_", "pl", "alpha", "rc", "a", "1", "nb1", "é"]).chars()),
        1 if !c.is_empty() => {
            let i = r.below(c.len());
            c.remove(i);
        }
        2 if !c.is_empty() => {
            let i = r.below(c.len());
            let x = c[i];
            c.insert(i, x);
        }
        3 if !c.is_empty() => {
            let i = r.below(c.len());
            c[i] = wild_char(r);
        }
        4 => {
            let i = r.below(c.len() + 1);
            c.insert(i, wild_char(r));
        }
        _ => {
            let i = r.below(c.len() + 1);
            c.insert(i, (b'0' + r.below(10) as u8) as char);
        }
    }
    c.into_iter().collect()
}

/// A cluster of short versions around a representation boundary (2^k, 10^k):
/// the same prefix with the boundary number, its neighbours, small numbers,
/// and longer equal-valued spellings of each.
fn boundary_cluster(r: &mut Rng) -> Vec<String> {
    if r.chance(1, 3) {
        return sibling_boundary_cluster(r);
    }
    let prefix = match r.below(4) {
        0 => String::new(),
        1 => format!("{}.", r.below(3)),
        2 => format!("{}.{}.", r.below(3), r.below(3)),
        _ => format!("{}_", r.below(3)),
    };
    let b: i128 = gv::boundary_num(r).parse().unwrap_or(0);
    let mut out = vec![];
    for d in -3i128..=3 {
        let v = (b + d).max(0);
        if v.to_string().len() <= 18 {
            out.push(format!("{prefix}{v}"));
        }
    }
    for small in [0i128, 1, 5, 1000] {
        out.push(format!("{prefix}{small}"));
        out.push(format!("{prefix}{small}.0"));
        out.push(format!("{prefix}{small}.0.0.0.0"));
    }
    out.push(format!("{prefix}{b}.0"));
    out.push(format!("{prefix}{b}.0.0.0.0.0"));
    out.push(format!("{prefix}{b}rc1"));
    out.push(format!("{prefix}{b}nb1"));
    out
}

/// Two or three *sibling* prefixes that differ in their last token by one step
/// of the order (`1.` / `1rc` / `1beta`, `1a` / `1b`), each followed by the
/// numbers around a representation boundary and by the modifiers: a packed or
/// biased sort key whose field overflows into its neighbour is wrong exactly
/// between such siblings.
fn sibling_boundary_cluster(r: &mut Rng) -> Vec<String> {
    let head = match r.below(3) {
        0 => String::new(),
        1 => format!("{}", r.below(3)),
        _ => format!("{}.{}", r.below(3), r.below(3)),
    };
    let lasts: &[&str] = match r.below(4) {
        0 => &[".", "rc", "beta", "alpha"],
        1 => &["a", "b", "c"],
        2 => &["_", "pl", "pre"],
        _ => &[".", "rc", "a"],
    };
    // field widths a packed key is likely to use
    let b: i128 = if r.chance(2, 3) { *r.pick(&[1i128 << 8, 1 << 15, 1 << 16, 1 << 16, 1 << 21, 1 << 31, 1 << 32]) } else { gv::boundary_num(r).parse().unwrap_or(65_536) };
    let mut out = vec![];
    for l in lasts {
        for d in -3i128..=3 {
            let v = (b + d).max(0);
            if v.to_string().len() <= 18 {
                out.push(format!("{head}{l}{v}"));
            }
        }
        for m in ["alpha", "beta", "rc", "pl", "0", "1", "99999"] {
            out.push(format!("{head}{l}{m}"));
        }
        out.push(format!("{head}{l}"));
    }
    out
}

/// A small pool around the edges of the number representation: small values
/// behind 20-70 zeros, the largest 64-bit values and their neighbours, values
/// that do not fit, each as first component, as a later component and as the
/// revision, next to the ordinary versions they have to be ordered against.
/// The laws need no reference, so nothing here is out of bounds.
fn extreme_pool(r: &mut Rng) -> Vec<String> {
    const X: [&str; 9] = [
        "9223372036854775807", "9223372036854775806", "9223372036854775808", "18446744073709551616", "99999999999999999999",
        "100000000000000000000000000000000000000000", "4294967296", "7", "1",
    ];
    let zeros = *r.pick(&[19usize, 20, 37, 38, 39, 40, 64, 70]);
    let small = r.range(1, 9);
    let padded = format!("{}{small}", "0".repeat(zeros));
    let head = format!("{}", r.below(3));
    let mut out: Vec<String> = vec![
        String::new(),
        head.clone(),
        format!("{head}.5"),
        format!("{head}.5.1"),
        format!("{}", r.range(3, 5)),
        format!("{small}"),
        format!("{small}.0"),
        padded.clone(),
        format!("{padded}.0"),
        format!("{head}.{padded}"),
        format!("{head}.{small}"),
        format!("{head}.5nb{padded}"),
        format!("{head}.5nb{small}"),
    ];
    for _ in 0..3 {
        let x = *r.pick(&X);
        out.push(x.to_string());
        out.push(format!("{head}.{x}"));
        out.push(format!("{head}.5nb{x}"));
        out.push(format!("{head}.{x}.1"));
    }
    out.sort();
    out.dedup();
    out
}

/// A pool: clusters of a seed string and its near neighbours.
fn pool(r: &mut Rng, n: usize) -> Vec<String> {
    let mut out: Vec<String> = vec![String::new()];
    while out.len() < n {
        if r.chance(1, 5) {
            let mut c = boundary_cluster(r);
            c.truncate(n - out.len());
            out.extend(c);
            continue;
        }
        if r.chance(1, 6) {
            let sweep = gv::length_sweep();
            let mut c = gv::length_cluster(*r.pick(&sweep));
            c.truncate(n - out.len());
            out.extend(c);
            continue;
        }
        if r.chance(1, 6) {
            // one stem, many tails behind "nb": a second reader of the
            // revision that disagrees with the tokeniser on a few of them
            // breaks the order only across such a family
            let stem = if r.chance(1, 2) { format!("{}.{}", r.below(3), r.below(3)) } else { gv::v_safe(r) };
            let mut c = gv::revision_cluster(&stem);
            r.shuffle(&mut c);
            c.truncate(r.range(12, 40).min(n - out.len()));
            out.extend(c);
            continue;
        }
        let seed = if r.chance(1, 3) { wild(r) } else { gv::v(r) };
        let k = r.range(4, 30).min(n - out.len());
        out.push(seed.clone());
        let mut cur = seed;
        for _ in 1..k {
            let nb = if gv::usable(&cur) { gv::neighbour(r, &cur, true) } else { wild_neighbour(r, &cur) };
            let nb: String = nb.chars().filter(|c| !forbidden(*c)).collect();
            let nb = if nb.starts_with('=') { format!("0{nb}") } else { nb };
            out.push(nb.clone());
            if r.chance(1, 3) {
                cur = nb;
            }
        }
    }
    out.truncate(n);
    out
}

struct Mats {
    n: usize,
    m: [Vec<bool>; 4], // indexed like OPS: Gt, Ge, Lt, Le ; m[op][i*n+j] = S_i op S_j
}

impl Mats {
    fn get(&self, op: Op, i: usize, j: usize) -> bool {
        let k = OPS.iter().position(|o| *o == op).unwrap();
        self.m[k][i * self.n + j]
    }
}

fn observe(ev: &mut Ev, s: &[String]) -> Result<Mats, crate::fw::Fail> {
    let n = s.len();
    let names: Vec<String> = s.iter().map(|v| format!("p-{v}")).collect();
    let mut m: [Vec<bool>; 4] = [vec![false; n * n], vec![false; n * n], vec![false; n * n], vec![false; n * n]];
    for j in 0..n {
        for (k, op) in OPS.iter().enumerate() {
            let text = format!("p{}{}", op.text(), s[j]);
            let p = Pattern::new(&text).map_err(|e| format!("Pattern::new({text:?}) failed: {e}"))?;
            for i in 0..n {
                m[k][i * n + j] = p.matches(&names[i]);
            }
            ev.evals(n as u64);
        }
    }
    Ok(Mats { n, m })
}

fn check_pool(ev: &mut Ev, s: &[String], two_bound_pairs: &[(usize, usize)]) -> CaseResult {
    let mt = observe(ev, s)?;
    let n = s.len();
    let q = |i: usize| format!("{:?}", s[i]);
    for i in 0..n {
        if !mt.get(Op::Le, i, i) || !mt.get(Op::Ge, i, i) {
            return Err(format!("reflexivity: A={} : A<=A is {}, A>=A is {}", q(i), mt.get(Op::Le, i, i), mt.get(Op::Ge, i, i)).into());
        }
        ev.count("law/reflexivity");
        for j in 0..n {
            let (lt, gt, le, ge) = (mt.get(Op::Lt, i, j), mt.get(Op::Gt, i, j), mt.get(Op::Le, i, j), mt.get(Op::Ge, i, j));
            let eq = le && ge;
            if (lt as u8) + (gt as u8) + (eq as u8) != 1 {
                return Err(format!("trichotomy: A={} B={} : A<B={lt} A>B={gt} A<=B={le} A>=B={ge}", q(i), q(j)).into());
            }
            if le == gt || ge == lt {
                return Err(format!("duality: A={} B={} : A<=B={le} A>B={gt} A>=B={ge} A<B={lt}", q(i), q(j)).into());
            }
            // side swap: "A<B" asked with B in the pattern == "B>A" asked with A in the pattern
            if lt != mt.get(Op::Gt, j, i) || le != mt.get(Op::Ge, j, i) {
                return Err(format!(
                    "side-swap: A={} B={} : 'p<B' on p-A = {lt} but 'p>A' on p-B = {}; 'p<=B' on p-A = {le} but 'p>=A' on p-B = {}",
                    q(i), q(j), mt.get(Op::Gt, j, i), mt.get(Op::Ge, j, i)
                ).into());
            }
            ev.count("law/pair-laws");
            if s[i] != s[j] {
                ev.nontrivial(hash_strs(&[s[i].as_bytes(), s[j].as_bytes()]));
                if eq {
                    ev.count("pairs/equal-value-different-text");
                }
            }
        }
    }
    // transitivity of <= over all triples, on the boolean matrix
    let le = |i: usize, j: usize| mt.get(Op::Le, i, j);
    let mut premises = 0u64;
    for i in 0..n {
        for j in 0..n {
            if !le(i, j) {
                continue;
            }
            for k in 0..n {
                if le(j, k) {
                    premises += 1;
                    if !le(i, k) {
                        return Err(format!("transitivity: A={} B={} C={} : A<=B and B<=C but not A<=C", q(i), q(j), q(k)).into());
                    }
                }
            }
        }
    }
    ev.add("law/transitivity-triples-checked", (n * n * n) as u64);
    ev.add("law/transitivity-premises-true", premises);
    ev.evals((n * n * n) as u64);
    // two-bound patterns = conjunction of their halves
    let names: Vec<String> = s.iter().map(|v| format!("p-{v}")).collect();
    for &(a, c) in two_bound_pairs {
        for (lo, hi) in [(Op::Gt, Op::Lt), (Op::Gt, Op::Le), (Op::Ge, Op::Lt), (Op::Ge, Op::Le)] {
            let text = format!("p{}{}{}{}", lo.text(), s[a], hi.text(), s[c]);
            let p = Pattern::new(&text).map_err(|e| format!("Pattern::new({text:?}) failed: {e}"))?;
            for b in 0..n {
                let got = p.matches(&names[b]);
                let want = mt.get(lo, b, a) && mt.get(hi, b, c);
                ev.eval();
                if got != want {
                    return Err(format!(
                        "two-bound: {text:?} on {:?} = {got}, but its halves give {} and {}",
                        names[b], mt.get(lo, b, a), mt.get(hi, b, c)
                    ).into());
                }
                if want {
                    ev.count("law/two-bound-true");
                }
            }
            ev.count("law/two-bound-patterns");
        }
    }
    // Ranges whose two ends are equal in value but spelt differently (chosen
    // from what was just observed; the whole pool is one case).
    let mut eq_pairs: Vec<(usize, usize)> = vec![];
    'find: for a in 0..n {
        for c in 0..n {
            if a != c && s[a] != s[c] && mt.get(Op::Le, a, c) && mt.get(Op::Ge, a, c) {
                eq_pairs.push((a, c));
                if eq_pairs.len() >= 120 {
                    break 'find;
                }
            }
        }
    }
    for &(a, c) in &eq_pairs {
        for (lo, hi) in [(Op::Gt, Op::Lt), (Op::Gt, Op::Le), (Op::Ge, Op::Lt), (Op::Ge, Op::Le)] {
            let text = format!("p{}{}{}{}", lo.text(), s[a], hi.text(), s[c]);
            let p = Pattern::new(&text).map_err(|e| format!("Pattern::new({text:?}) failed: {e}"))?;
            for b in 0..n {
                let got = p.matches(&names[b]);
                let want = mt.get(lo, b, a) && mt.get(hi, b, c);
                ev.eval();
                if got != want {
                    return Err(format!(
                        "two-bound (ends equal in value): {text:?} on {:?} = {got}, but its halves give {} and {}",
                        names[b], mt.get(lo, b, a), mt.get(hi, b, c)
                    ).into());
                }
                if want {
                    ev.count("law/two-bound-equal-ends-true");
                }
            }
            ev.count("law/two-bound-equal-ends-patterns");
        }
    }
    let outside = s.iter().filter(|v| !gv::usable(v) || v.chars().any(|c| !c.is_ascii())).count();
    ev.add("pool/strings", n as u64);
    ev.add("pool/strings-outside-reference-domain", outside as u64);
    Ok(())
}

pub fn run(cx: &mut Cx) {
    cx.set_budget(1 << 26, 1 << 32);
    for k in ["law/reflexivity", "law/pair-laws", "law/transitivity-premises-true", "law/two-bound-true", "pairs/equal-value-different-text", "pool/strings-outside-reference-domain", "pool/extreme"] {
        cx.ev.require(k);
    }
    let (pools, size, tb) = cx.pick_tier((1usize, 14usize, 4usize), (2, 60, 20), (10, 160, 80), (24, 400, 300));
    let mut r = cx.stream("pools");
    for pi in 0..pools {
        let s = pool(&mut r, size);
        let pairs: Vec<(usize, usize)> = (0..tb).map(|_| (r.below(size), r.below(size))).collect();
        // Step budget proportional to the work the pool itself demands: every
        // string is parsed 4 x n times as a package version, and a parse may
        // allocate once per character (a length cluster has members of 4 KB).
        // C03 is not about promptness (C17 is); the budget only has to stop a
        // runaway.
        let total: u64 = s.iter().map(|x| x.len() as u64 + 8).sum();
        let allocs = (1u64 << 26) + 8 * s.len() as u64 * total;
        cx.set_budget(allocs, allocs.saturating_mul(256));
        cx.check(
            || {
                let mut show: Vec<&String> = s.iter().take(12).collect();
                show.dedup();
                format!("pool #{pi} of {} strings, e.g. {:?}", s.len(), show)
            },
            |ev| check_pool(ev, &s, &pairs),
        );
    }
    // small pools at the edges of the number representation, every pair of
    // members as the two ends of a range
    let mut r = cx.stream("extreme-pools");
    for pi in 0..cx.pick_tier(1usize, 2, 8, 24) {
        let s = extreme_pool(&mut r);
        let n = s.len();
        let pairs: Vec<(usize, usize)> = (0..n).flat_map(|a| (0..n).map(move |c| (a, c))).collect();
        cx.set_budget(1 << 26, 1 << 34);
        cx.check(
            || format!("extreme pool #{pi}: {s:?}"),
            |ev| {
                ev.count("pool/extreme");
                check_pool(ev, &s, &pairs)
            },
        );
    }
}
