//! C16 - pbulk-index output splits into one record per PKGNAME, fields never
//! leaking.
//!
//! Refuting events: `ScanIndex::from_reader` returns a list whose length,
//! order or any field differs from the by-construction model; returns `Ok`
//! (or a partial list) although a block lacks PKGNAME, an `ALL_DEPENDS` item
//! or `PKG_LOCATION` is invalid, or the reader failed; returns `Err` on a
//! fault-free input.

use crate::fw::{show, CaseResult, Cx, Ev, Tier};
use crate::gen::scan::{self as gs, Class, Doc, FaultReader};
use crate::oracle::scan::{self as os, ExpRec, SCALARS};
use crate::rng::hash_bytes;
use pkgsrc::{Depend, PkgName, PkgPath, ScanIndex};

fn scalars_of(g: &ScanIndex) -> [&Option<String>; 10] {
    [
        &g.pkg_skip_reason,
        &g.pkg_fail_reason,
        &g.no_bin_on_ftp,
        &g.restricted,
        &g.categories,
        &g.maintainer,
        &g.use_destdir,
        &g.bootstrap_pkg,
        &g.usergroup_phase,
        &g.pbulk_weight,
    ]
}

/// Compare one observed record with the model; every field counts as one
/// oracle comparison.
fn compare_record(ev: &mut Ev, i: usize, g: &ScanIndex, e: &ExpRec) -> Result<(), String> {
    ev.evals(15);
    if g.pkgname.pkgname() != e.pkgname {
        return Err(format!(
            "record {i}: pkgname is {:?}, the {i}-th PKGNAME= line says {:?}",
            g.pkgname.pkgname(),
            e.pkgname
        ));
    }
    if g.pkgname != PkgName::new(&e.pkgname) {
        return Err(format!("record {i}: pkgname {:?} != PkgName::new({:?})", g.pkgname, e.pkgname));
    }
    for (k, got) in scalars_of(g).iter().enumerate() {
        if **got != e.scalars[k] {
            return Err(format!(
                "record {i} ({}): field {} is {:?}, expected {:?}",
                e.pkgname, SCALARS[k], got, e.scalars[k]
            ));
        }
    }
    match (&g.pkg_location, &e.location) {
        (None, None) => {}
        (Some(got), Some(v)) => match PkgPath::new(v) {
            Ok(want) => {
                if *got != want {
                    return Err(format!(
                        "record {i} ({}): pkg_location is {got:?}, expected PkgPath::new({v:?})",
                        e.pkgname
                    ));
                }
            }
            Err(_) => {
                return Err(format!(
                    "record {i}: PkgPath::new({v:?}) failed for a location the generator made valid"
                ))
            }
        },
        (got, want) => {
            return Err(format!(
                "record {i} ({}): pkg_location is {got:?}, expected from {want:?}",
                e.pkgname
            ))
        }
    }
    if g.all_depends.len() != e.all_depends.len() {
        return Err(format!(
            "record {i} ({}): all_depends has {} items, its ALL_DEPENDS line has {}: {:?}",
            e.pkgname,
            g.all_depends.len(),
            e.all_depends.len(),
            e.all_depends
        ));
    }
    for (j, item) in e.all_depends.iter().enumerate() {
        match Depend::new(item) {
            Ok(want) => {
                if g.all_depends[j] != want {
                    return Err(format!(
                        "record {i} ({}): all_depends[{j}] is {:?}, expected Depend::new({item:?})",
                        e.pkgname, g.all_depends[j]
                    ));
                }
            }
            Err(_) => {
                return Err(format!(
                    "record {i}: Depend::new({item:?}) failed for an item the generator made valid"
                ))
            }
        }
    }
    let got_scan: Vec<&std::ffi::OsStr> = g.scan_depends.iter().map(|p| p.as_os_str()).collect();
    let want_scan: Vec<&std::ffi::OsStr> =
        e.scan_depends.iter().map(|s| std::ffi::OsStr::new(s.as_str())).collect();
    if got_scan != want_scan {
        return Err(format!(
            "record {i} ({}): scan_depends is {got_scan:?}, expected {want_scan:?}",
            e.pkgname
        ));
    }
    if g.multi_version != e.multi_version {
        return Err(format!(
            "record {i} ({}): multi_version is {:?}, expected {:?}",
            e.pkgname, g.multi_version, e.multi_version
        ));
    }
    Ok(())
}

fn compare_list(ev: &mut Ev, got: &[ScanIndex], want: &[ExpRec]) -> Result<(), String> {
    ev.eval();
    if got.len() != want.len() {
        let names: Vec<&str> = got.iter().map(|g| g.pkgname.pkgname()).collect();
        return Err(format!(
            "{} records returned for {} PKGNAME= lines (returned names: {:?})",
            got.len(),
            want.len(),
            names
        ));
    }
    for (i, (g, e)) in got.iter().zip(want).enumerate() {
        compare_record(ev, i, g, e)?;
    }
    Ok(())
}

fn judge(
    ev: &mut Ev,
    doc: &Doc,
    got: std::io::Result<Vec<ScanIndex>>,
    how: &str,
) -> CaseResult {
    let want = os::model(&doc.sems);
    match (doc.class, want, got) {
        (Class::Utf8, Ok(want), got) => {
            // Either the read fails as a whole, or the undecodable ignored
            // line is skipped; never a partial or shifted list.
            match got {
                Err(_) => {
                    ev.eval();
                    ev.count("outcome/utf8/err");
                    Ok(())
                }
                Ok(list) => {
                    ev.count("outcome/utf8/ok");
                    compare_list(ev, &list, &want).map_err(|m| format!("[{how}] {m}").into())
                }
            }
        }
        (_, Ok(want), Ok(list)) => {
            ev.count("outcome/ok");
            compare_list(ev, &list, &want).map_err(|m| format!("[{how}] {m}").into())
        }
        (_, Ok(want), Err(e)) => Err(format!(
            "[{how}] read failed ({:?}) on a fault-free input of {} records",
            e.kind(),
            want.len()
        )
        .into()),
        (_, Err(f), Err(_)) => {
            ev.eval();
            ev.count(&format!("outcome/err/{}", f.name()));
            Ok(())
        }
        (_, Err(f), Ok(list)) => Err(format!(
            "[{how}] read returned Ok with {} records although the input has fault {} at {}",
            list.len(),
            f.name(),
            doc.fault_pos
        )
        .into()),
    }
}

fn note_doc(ev: &mut Ev, doc: &Doc) {
    ev.add("records", doc.records as u64);
    ev.add("leak_probes", doc.leak_probes as u64);
    ev.add("repeated_scalar_keys", doc.repeated_keys as u64);
    ev.add("ignored_lines", doc.ignored_lines as u64);
    ev.add("duplicate_pkgname_lines", doc.dup_pkgname as u64);
    ev.count(&format!("docs/records/{}", doc.records.min(8)));
}

pub fn run(cx: &mut Cx) {
    cx.default_budget();
    for k in [
        "class/clean",
        "class/missing_pkgname",
        "class/bad_depend",
        "class/bad_location",
        "class/invalid_utf8",
        "class/io_error/err",
        "class/io_error/beyond",
        "leak_probes",
        "repeated_scalar_keys",
        "ignored_lines",
        "duplicate_pkgname_lines",
        "outcome/err/missing_pkgname",
        "outcome/err/bad_depend",
        "outcome/err/bad_location",
    ] {
        cx.ev.require(k);
    }
    let mini = cx.tier == Tier::Mini;

    // (a0) the size ladder: one value line of 2^20, 2^22 and 2^24 bytes (thorough:
    // 2^26) plus a little - a scalar, and a list of that many bytes of items -
    // in the first of two records.  A per-line limit shows one rung above it.
    if cx.mine(2) && matches!(cx.tier, Tier::Quick | Tier::Thorough) {
        let rungs: Vec<usize> = if cx.tier == Tier::Thorough { vec![1 << 20, 1 << 22, 1 << 24, 1 << 26] } else { vec![1 << 20, 1 << 22, 1 << 24] };
        cx.set_budget(1 << 30, 1 << 38);
        for rung in rungs {
            for list in [false, true] {
                let n = rung + 33;
                let (key, value, items) = if list {
                    let item = "wip/some-package";
                    let k = n / (item.len() + 1) + 1;
                    ("SCAN_DEPENDS", vec![item; k].join(" "), k)
                } else {
                    ("PKG_SKIP_REASON", "why ".repeat(n / 4 + 1), 0)
                };
                let text = format!("PKGNAME=big-1.0\nCATEGORIES=cat\n{key}={value}\nMAINTAINER=me\nPKGNAME=after-2.0\nCATEGORIES=dog\n");
                cx.check(
                    || format!("size ladder: one {key} line of {} bytes in the first of two records", value.len()),
                    |ev| {
                        ev.count("ladder/documents");
                        ev.eval();
                        let v = ScanIndex::from_reader(text.as_bytes()).map_err(|e| format!("the read failed: {e}"))?;
                        if v.len() != 2 {
                            return Err(format!("{} records, expected 2", v.len()).into());
                        }
                        let ok = if list {
                            v[0].scan_depends.len() == items && v[0].pkg_skip_reason.is_none()
                        } else {
                            v[0].pkg_skip_reason.as_deref() == Some(value.trim()) && v[0].scan_depends.is_empty()
                        };
                        if !ok || v[0].maintainer.as_deref() != Some("me") || v[1].categories.as_deref() != Some("dog") || v[1].maintainer.is_some() {
                            return Err("the long value or a field of its neighbours is not what the lines say".to_string().into());
                        }
                        ev.nontrivial(crate::rng::hash_bytes(format!("{key}{}", value.len()).as_bytes()));
                        Ok(())
                    },
                );
            }
        }
        cx.default_budget();
    }

    // (a1) the count ladder: 2^8 and 2^16 lines in one record, one less and one
    // more - the same scalar key repeated (the last line counts) among ignored lines
    if cx.mine(3) && matches!(cx.tier, Tier::Quick | Tier::Thorough) {
        cx.set_budget(1 << 28, 1 << 36);
        for k in [255usize, 256, 257, 65_535, 65_536, 65_537] {
            let mut text = String::from("PKGNAME=many-1.0\n");
            for j in 0..k - 2 {
                if j % 3 == 0 {
                    text.push_str(&format!("MAINTAINER=m{j}\n"));
                } else {
                    text.push_str(&format!("UNKNOWN_{j}=x\n"));
                }
            }
            text.push_str("MAINTAINER=the-last-one\nPKGNAME=after-2.0\nCATEGORIES=dog\n");
            cx.check(
                || format!("count ladder: a record of {k} lines"),
                |ev| {
                    ev.count("ladder/records");
                    ev.eval();
                    let v = ScanIndex::from_reader(text.as_bytes()).map_err(|e| format!("the read failed: {e}"))?;
                    if v.len() != 2 || v[0].maintainer.as_deref() != Some("the-last-one") || v[1].maintainer.is_some() || v[1].categories.as_deref() != Some("dog") {
                        return Err(format!("{} records; MAINTAINER of the first is {:?}", v.len(), v.first().and_then(|x| x.maintainer.clone())).into());
                    }
                    ev.nontrivial(crate::rng::hash_bytes(format!("lines{k}").as_bytes()));
                    Ok(())
                },
            );
        }
        cx.default_budget();
    }

    // (a) fault-free documents: slice reader and a chunked reader.
    let n = cx.per_shard(48, 3_000, 48_000, 480_000);
    let mut r = cx.stream("clean");
    for _ in 0..n {
        let doc = gs::doc(&mut r, Class::Clean, mini);
        let bufsize = r.range(1, 16);
        let chunked = r.chance(1, 2);
        cx.check(
            || format!("clean document, {} records: {}", doc.records, show(&doc.bytes)),
            |ev| {
                ev.count("class/clean");
                note_doc(ev, &doc);
                let got = ScanIndex::from_reader(&doc.bytes[..]);
                judge(ev, &doc, got, "slice reader")?;
                if chunked {
                    ev.count("reader/chunked");
                    let rd = FaultReader::new(&doc.bytes, bufsize, 0);
                    let got = ScanIndex::from_reader(rd);
                    judge(ev, &doc, got, &format!("{bufsize}-byte window reader"))?;
                }
                if doc.records >= 2 {
                    ev.nontrivial(hash_bytes(&doc.bytes));
                }
                Ok(())
            },
        );
    }

    // (a') line pools: for each of five keys, every document of three records
    // (thorough: four) whose bodies are sequences of at most two lines over a
    // pool of four fixed lines - the same byte-identical line in neighbouring
    // records, repeated, overridden, invalid-then-overridden.
    {
        let nrec = cx.pick_tier(2usize, 3, 3, 4);
        let total = gs::POOL_BODIES.pow(nrec as u32);
        let keep = cx.pick_tier(4u64, 4, 1, 1);
        let mut case = 0u64;
        for key in 0..gs::POOL_KEYS.len() {
            for code in 0..total {
                case += 1;
                if !cx.mine(case) || (keep > 1 && crate::rng::hash_bytes(&case.to_le_bytes()) % keep != 0) {
                    continue;
                }
                let mut bodies = vec![];
                let mut c = code;
                for _ in 0..nrec {
                    bodies.push(c % gs::POOL_BODIES);
                    c /= gs::POOL_BODIES;
                }
                let doc = gs::pool_doc(key, &bodies);
                cx.check(
                    || format!("line-pool document ({}), {} records: {}", gs::POOL_KEYS[key], doc.records, show(&doc.bytes)),
                    |ev| {
                        ev.count("class/line-pool");
                        ev.count(&format!("line-pool/{}", gs::POOL_KEYS[key]));
                        let got = ScanIndex::from_reader(&doc.bytes[..]);
                        judge(ev, &doc, got, "slice reader")?;
                        ev.nontrivial(hash_bytes(&doc.bytes));
                        Ok(())
                    },
                );
            }
        }
    }

    // (a'') look-alike keys: every key one bit (or one bit in each of two
    // neighbouring bytes) away from a known key is an unknown key
    {
        let keep = cx.pick_tier(97u64, 7, 1, 1);
        let mut case = 0u64;
        for k in 0..gs::KNOWN_KEYS.len() {
            for la in gs::flipped_keys(gs::KNOWN_KEYS[k].0) {
                case += 1;
                if !cx.mine(case) || case % keep != 0 {
                    continue;
                }
                let doc = gs::flipped_key_doc(k, &la);
                cx.check(
                    || format!("look-alike key {la:?} next to {}: {}", gs::KNOWN_KEYS[k].0, show(&doc.bytes)),
                    |ev| {
                        ev.count("class/look-alike-key");
                        let got = ScanIndex::from_reader(&doc.bytes[..]);
                        judge(ev, &doc, got, "slice reader")
                    },
                );
            }
        }
    }

    // (b) one content fault per document.
    let n = cx.per_shard(48, 1_500, 24_000, 240_000);
    let mut r = cx.stream("faults");
    let classes = [Class::MissingPkgname, Class::BadDepend, Class::BadLocation, Class::Utf8];
    for i in 0..n {
        let class = classes[(i % 4) as usize];
        let doc = gs::doc(&mut r, class, mini);
        cx.check(
            || {
                format!(
                    "document with fault {} at {}: {}",
                    class.name(),
                    doc.fault_pos,
                    show(&doc.bytes)
                )
            },
            |ev| {
                ev.count(&format!("class/{}", class.name()));
                ev.count(&format!("fault/{}/{}", class.name(), doc.fault_pos));
                let got = ScanIndex::from_reader(&doc.bytes[..]);
                judge(ev, &doc, got, "slice reader")?;
                ev.nontrivial(hash_bytes(&doc.bytes));
                Ok(())
            },
        );
    }

    // (c) I/O errors: a hard error at the k-th refill, for every k.
    let ndocs = cx.per_shard(8, 32, 480, 4_800);
    let mut r = cx.stream("io-faults");
    for _ in 0..ndocs {
        let doc = gs::doc(&mut r, Class::Clean, true);
        let sizes: Vec<usize> = if mini {
            vec![16]
        } else {
            vec![r.range(1, 4), r.range(5, 16)]
        };
        for bufsize in sizes {
            let need = os::fills_needed(doc.bytes.len(), bufsize);
            // every k within the input (incl. the refill that would report
            // end of input) and two beyond it
            for k in 1..=need + 2 {
                let within = k <= need;
                cx.check(
                    || {
                        format!(
                            "I/O error at refill {k} of {need} with a {bufsize}-byte window: {}",
                            show(&doc.bytes)
                        )
                    },
                    |ev| {
                        let mut rd = FaultReader::new(&doc.bytes, bufsize, k);
                        let got = ScanIndex::from_reader(&mut rd);
                        if within {
                            ev.count("class/io_error/err");
                            ev.count(&format!(
                                "io_fault/position/{}",
                                if k == 1 {
                                    "first"
                                } else if k == need {
                                    "eof"
                                } else {
                                    "inside"
                                }
                            ));
                            ev.eval();
                            if !rd.fired {
                                return Err(format!(
                                    "the reader was abandoned after {} of {need} refills; result {}",
                                    rd.refills,
                                    if got.is_ok() { "Ok" } else { "Err" }
                                )
                                .into());
                            }
                            if let Ok(list) = got {
                                return Err(format!(
                                    "reader reported an I/O error at refill {k} of {need} but the read returned Ok with {} records (fault-free input has {})",
                                    list.len(),
                                    doc.records
                                )
                                .into());
                            }
                            ev.nontrivial(hash_bytes(&doc.bytes) ^ ((k as u64) << 8) ^ bufsize as u64);
                            Ok(())
                        } else {
                            // A reader may be polled again after it signalled
                            // end of input (a last line without '\n'); an
                            // error it reports then may fail the read, but
                            // nothing else may.
                            ev.count("class/io_error/beyond");
                            if rd.fired && got.is_err() {
                                ev.eval();
                                ev.count("io_fault/reported_after_eof");
                                return Ok(());
                            }
                            judge(ev, &doc, got, "error scheduled after end of input")
                        }
                    },
                );
            }
        }
    }
}
