//! Reference data for the digest monitor (C13).
//!
//! The expected digests are NOT computed here: they come from Python's
//! `hashlib` through `/verif/oracle/digest_vectors.py`, which the plan's
//! pre-stage hook runs for (seed, tier).  This module only reads that file.
//!
//! Format (see the script):
//!
//! ```text
//! # pvh-digest-vectors v1 seed=<seed> tier=<tier> inputs=<n>
//! V <index> <class> <utf8 0|1> <hex|-> <12 digests: plain x6, filtered x6>
//! # end <n>
//! ```
//!
//! Every problem with the file is a *harness* error (panic with a message
//! starting `harness:`); the caller must load it outside any `cx.check` body.

use std::path::{Path, PathBuf};

/// Harness error: the framework's panic hook records messages instead of
/// printing them, so print first (the driver shows the shard's stderr tail
/// with its INCONCLUSIVE line), then panic.
macro_rules! die {
    ($($arg:tt)*) => {{
        let msg = format!($($arg)*);
        eprintln!("{msg}");
        panic!("{msg}")
    }};
}
pub(crate) use die;

/// Algorithm order of the digest columns; also the canonical spellings.
pub const NAMES: [&str; 6] = ["BLAKE2s", "MD5", "RMD160", "SHA1", "SHA256", "SHA512"];
/// Length of the hex digest per algorithm.
pub const HEXLEN: [usize; 6] = [64, 32, 40, 40, 64, 128];
pub const MARK: &[u8] = b"$NetBSD";

pub struct Vector {
    pub index: u64,
    pub class: String,
    /// What Python says about UTF-8 validity (cross-checked by the monitor).
    pub utf8: bool,
    pub len: usize,
    /// Decoded only for the entries this shard owns.
    pub data: Option<Vec<u8>>,
    pub plain: [String; 6],
    pub filtered: [String; 6],
}

fn unhex(s: &str, what: &str) -> Vec<u8> {
    let b = s.as_bytes();
    if b.len() % 2 != 0 {
        die!("harness: odd hex length in {what}");
    }
    let nib = |c: u8| -> u8 {
        match c {
            b'0'..=b'9' => c - b'0',
            b'a'..=b'f' => c - b'a' + 10,
            _ => die!("harness: bad hex digit in {what}"),
        }
    };
    let mut out = Vec::with_capacity(b.len() / 2);
    for p in b.chunks_exact(2) {
        out.push(nib(p[0]) << 4 | nib(p[1]));
    }
    out
}

pub fn vectors_path(tier: &str) -> PathBuf {
    let aux = std::env::var_os("PVH_AUX").unwrap_or_else(|| {
        die!(
            "harness: PVH_AUX is not set; C13 needs the hashlib vectors written by the plan's \
             pre-stage hook (oracle/digest_vectors.py <seed> {tier} $PVH_AUX/vectors-{tier}.txt)"
        )
    });
    Path::new(&aux).join(format!("vectors-{tier}.txt"))
}

/// Load the vectors of (seed, tier); `mine` selects the entries whose bytes
/// are decoded.
pub fn load(seed: u64, tier: &str, mine: &dyn Fn(u64) -> bool) -> Vec<Vector> {
    let path = vectors_path(tier);
    let text = std::fs::read_to_string(&path).unwrap_or_else(|e| {
        die!(
            "harness: cannot read the hashlib vectors {path:?}: {e} (run \
             oracle/digest_vectors.py {seed} {tier} {path:?} or use ./check, whose pre-stage hook does)"
        )
    });
    let mut lines = text.lines();
    let head = lines.next().unwrap_or("");
    let want = format!("# pvh-digest-vectors v1 seed={seed} tier={tier} inputs=");
    let Some(n) = head.strip_prefix(want.as_str()).and_then(|s| s.parse::<usize>().ok()) else {
        die!(
            "harness: {path:?} is not the vectors file of seed {seed} tier {tier}: header {head:?} \
             (regenerate: oracle/digest_vectors.py {seed} {tier} {path:?})"
        );
    };
    let mut out: Vec<Vector> = Vec::with_capacity(n);
    let mut ended = false;
    for line in lines {
        if let Some(rest) = line.strip_prefix("# end ") {
            if rest.parse::<usize>().ok() != Some(n) {
                die!("harness: {path:?}: bad trailer {line:?}");
            }
            ended = true;
            continue;
        }
        if line.is_empty() || line.starts_with('#') {
            continue;
        }
        let f: Vec<&str> = line.split(' ').collect();
        if f.len() != 17 || f[0] != "V" {
            die!("harness: {path:?}: malformed line starting {:?}", &line[..line.len().min(40)]);
        }
        let index: u64 =
            f[1].parse().unwrap_or_else(|_| die!("harness: {path:?}: bad index {:?}", f[1]));
        if index != out.len() as u64 {
            die!("harness: {path:?}: index {index} out of sequence");
        }
        let utf8 = match f[3] {
            "0" => false,
            "1" => true,
            x => die!("harness: {path:?}: bad utf8 flag {x:?}"),
        };
        let hex = if f[4] == "-" { "" } else { f[4] };
        let data = if mine(index) { Some(unhex(hex, "input bytes")) } else { None };
        let dig = |k: usize| -> String {
            let s = f[5 + k];
            if s.len() != HEXLEN[k % 6]
                || !s.bytes().all(|c| c.is_ascii_digit() || (b'a'..=b'f').contains(&c))
            {
                die!("harness: {path:?}: entry {index}: digest column {k} is not lower-case hex of the right length");
            }
            s.to_string()
        };
        out.push(Vector {
            index,
            class: f[2].to_string(),
            utf8,
            len: hex.len() / 2,
            data,
            plain: [dig(0), dig(1), dig(2), dig(3), dig(4), dig(5)],
            filtered: [dig(6), dig(7), dig(8), dig(9), dig(10), dig(11)],
        });
    }
    if !ended || out.len() != n {
        die!("harness: {path:?} is truncated: {} of {n} entries, trailer seen: {ended}", out.len());
    }
    out
}

/// Start offsets of every (possibly overlapping) occurrence of `$NetBSD`.
/// Used to place read cuts, never for a verdict.
pub fn marker_offsets(data: &[u8]) -> Vec<usize> {
    if data.len() < MARK.len() {
        return vec![];
    }
    (0..=data.len() - MARK.len()).filter(|&i| &data[i..i + MARK.len()] == MARK).collect()
}

/// Offsets of every LF.
pub fn newline_offsets(data: &[u8]) -> Vec<usize> {
    data.iter().enumerate().filter(|(_, &b)| b == b'\n').map(|(i, _)| i).collect()
}
