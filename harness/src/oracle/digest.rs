//! Reference models for the digest monitors.
