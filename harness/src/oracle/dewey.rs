//! Reference model of pkg_install's dewey version rule, written from the
//! property statement (C01) and dewey.c's mkversion/mkcomponent/vtest - not
//! from the Rust code under test.
//!
//! Two letter-weight models exist: `Rank` (a..z = 1..26, what pkg_install
//! does and the property states) and `Ascii` (the letter's ASCII code).  The
//! second one exists only to compute the signature of known finding K1.

use std::cmp::Ordering;

#[derive(Clone, Copy, Debug, PartialEq, Eq)]
pub enum Kind {
    Num,
    Dot,
    Under,
    Pl,
    Alpha,
    Beta,
    Pre,
    Rc,
    LetterZero,
    Letter,
}

impl Kind {
    pub fn name(self) -> &'static str {
        match self {
            Kind::Num => "num",
            Kind::Dot => "dot",
            Kind::Under => "under",
            Kind::Pl => "pl",
            Kind::Alpha => "alpha",
            Kind::Beta => "beta",
            Kind::Pre => "pre",
            Kind::Rc => "rc",
            Kind::LetterZero => "letter0",
            Kind::Letter => "letter",
        }
    }
}

#[derive(Clone, Copy, Debug, PartialEq, Eq)]
pub enum Weight {
    Rank,
    Ascii,
}

#[derive(Clone, Debug, PartialEq, Eq)]
pub struct RefVersion {
    pub comps: Vec<(i64, Kind)>,
    pub revision: i64,
    pub nb_count: usize,
    pub letters: usize,
    pub ignored: usize,
    /// Longest digit run seen (the model's domain is <= 18).
    pub max_digits: usize,
    /// Longest digit run not counting leading zeros.
    pub max_sig_digits: usize,
}

fn starts_with_ci(b: &[u8], pat: &[u8]) -> bool {
    b.len() >= pat.len() && b[..pat.len()].eq_ignore_ascii_case(pat)
}

const MODS: [(&[u8], i64, Kind); 7] = [
    (b"alpha", -3, Kind::Alpha),
    (b"beta", -2, Kind::Beta),
    (b"pre", -1, Kind::Pre),
    (b"rc", -1, Kind::Rc),
    (b"pl", 0, Kind::Pl),
    (b"_", 0, Kind::Under),
    (b".", 0, Kind::Dot),
];

pub fn parse(v: &str, w: Weight) -> RefVersion {
    let b = v.as_bytes();
    let mut i = 0;
    let mut out = RefVersion {
        comps: vec![],
        revision: 0,
        nb_count: 0,
        letters: 0,
        ignored: 0,
        max_digits: 0,
        max_sig_digits: 0,
    };
    'outer: while i < b.len() {
        if b[i].is_ascii_digit() {
            let mut n: i64 = 0;
            let st = i;
            while i < b.len() && b[i].is_ascii_digit() {
                n = n.saturating_mul(10).saturating_add((b[i] - b'0') as i64);
                i += 1;
            }
            out.max_digits = out.max_digits.max(i - st);
            out.max_sig_digits = out.max_sig_digits.max(b[st..i].iter().skip_while(|c| **c == b'0').count());
            out.comps.push((n, Kind::Num));
            continue;
        }
        for (pat, val, kind) in MODS.iter() {
            if starts_with_ci(&b[i..], pat) {
                out.comps.push((*val, *kind));
                i += pat.len();
                continue 'outer;
            }
        }
        if starts_with_ci(&b[i..], b"nb") {
            i += 2;
            let mut n: i64 = 0;
            let st = i;
            while i < b.len() && b[i].is_ascii_digit() {
                n = n.saturating_mul(10).saturating_add((b[i] - b'0') as i64);
                i += 1;
            }
            out.max_digits = out.max_digits.max(i - st);
            out.max_sig_digits = out.max_sig_digits.max(b[st..i].iter().skip_while(|c| **c == b'0').count());
            out.revision = n;
            out.nb_count += 1;
            continue;
        }
        if b[i].is_ascii_alphabetic() {
            let lower = b[i].to_ascii_lowercase();
            out.comps.push((0, Kind::LetterZero));
            let val = match w {
                Weight::Rank => (lower - b'a' + 1) as i64,
                Weight::Ascii => lower as i64,
            };
            out.comps.push((val, Kind::Letter));
            out.letters += 1;
            i += 1;
            continue;
        }
        out.ignored += 1;
        i += 1;
    }
    out
}

#[derive(Clone, Copy, Debug, PartialEq, Eq)]
pub enum Decided {
    /// Inside the common prefix of both component lists.
    Prefix,
    /// Left list exhausted, a non-zero component of the right decided.
    LhsShorter,
    /// Right list exhausted, a non-zero component of the left decided.
    LhsLonger,
    /// All components tie, revisions differ.
    Revision,
    Equal,
}

impl Decided {
    pub fn name(self) -> &'static str {
        match self {
            Decided::Prefix => "prefix",
            Decided::LhsShorter => "lhs_shorter",
            Decided::LhsLonger => "lhs_longer",
            Decided::Revision => "revision",
            Decided::Equal => "equal",
        }
    }
}

pub struct Cmp {
    pub ord: Ordering,
    pub decided: Decided,
    pub pos: usize,
    pub kind: Option<Kind>,
}

pub fn compare(l: &RefVersion, r: &RefVersion) -> Cmp {
    let n = l.comps.len().max(r.comps.len());
    for i in 0..n {
        let a = l.comps.get(i).map(|c| c.0).unwrap_or(0);
        let b = r.comps.get(i).map(|c| c.0).unwrap_or(0);
        if a != b {
            let decided = if i < l.comps.len() && i < r.comps.len() {
                Decided::Prefix
            } else if i >= l.comps.len() {
                Decided::LhsShorter
            } else {
                Decided::LhsLonger
            };
            let kind = l.comps.get(i).or(r.comps.get(i)).map(|c| c.1);
            return Cmp { ord: a.cmp(&b), decided, pos: i, kind };
        }
    }
    if l.revision != r.revision {
        return Cmp {
            ord: l.revision.cmp(&r.revision),
            decided: Decided::Revision,
            pos: n,
            kind: None,
        };
    }
    Cmp { ord: Ordering::Equal, decided: Decided::Equal, pos: n, kind: None }
}

#[derive(Clone, Copy, Debug, PartialEq, Eq)]
pub enum Op {
    Gt,
    Ge,
    Lt,
    Le,
}

pub const OPS: [Op; 4] = [Op::Gt, Op::Ge, Op::Lt, Op::Le];

impl Op {
    pub fn text(self) -> &'static str {
        match self {
            Op::Gt => ">",
            Op::Ge => ">=",
            Op::Lt => "<",
            Op::Le => "<=",
        }
    }
    pub fn test(self, o: Ordering) -> bool {
        match self {
            Op::Gt => o == Ordering::Greater,
            Op::Ge => o != Ordering::Less,
            Op::Lt => o == Ordering::Less,
            Op::Le => o != Ordering::Greater,
        }
    }
    pub fn is_lower(self) -> bool {
        matches!(self, Op::Gt | Op::Ge)
    }
}

/// Verdict of "version `a` satisfies `op b`" under both letter-weight models.
pub struct Both {
    pub rank: bool,
    pub ascii: bool,
    pub cmp: Cmp,
    pub in_domain: bool,
    /// As `in_domain`, but leading zeros of a digit run do not count.
    pub in_domain_padded: bool,
}

pub fn satisfies(a: &str, op: Op, b: &str) -> Both {
    let (la, lb) = (parse(a, Weight::Rank), parse(b, Weight::Rank));
    let cmp = compare(&la, &lb);
    let ca = compare(&parse(a, Weight::Ascii), &parse(b, Weight::Ascii));
    Both {
        rank: op.test(cmp.ord),
        ascii: op.test(ca.ord),
        in_domain: la.max_digits <= 18 && lb.max_digits <= 18,
        in_domain_padded: la.max_sig_digits <= 18 && lb.max_sig_digits <= 18,
        cmp,
    }
}

pub fn order(a: &str, b: &str, w: Weight) -> Ordering {
    compare(&parse(a, w), &parse(b, w)).ord
}

/// True when both letter models agree on the order of a and b, i.e. the
/// pair is outside the reach of known finding K1.
pub fn k1_free(a: &str, b: &str) -> bool {
    order(a, b, Weight::Rank) == order(a, b, Weight::Ascii)
}
