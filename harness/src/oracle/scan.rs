//! Reference models for the scan monitors.
