//! Reference model of the pbulk-index record format (C16), written from the
//! property statement.
//!
//! The generator (`gen::scan`) emits *semantic* lines together with their
//! rendered text; this model folds the semantic lines into the records the
//! statement demands: one record per `PKGNAME=` line, each built only from
//! the lines between its `PKGNAME=` line and the next, scalar fields = the
//! trimmed value of the last line for the key, list fields = the
//! whitespace-separated items in order, absent keys None / empty, everything
//! else ignored; the read fails as a whole if a block lacks PKGNAME, an
//! ALL_DEPENDS item or PKG_LOCATION is invalid.

/// The ten plain string fields, in the order of `ExpRec::scalars`.
pub const SCALARS: [&str; 10] = [
    "PKG_SKIP_REASON",
    "PKG_FAIL_REASON",
    "NO_BIN_ON_FTP",
    "RESTRICTED",
    "CATEGORIES",
    "MAINTAINER",
    "USE_DESTDIR",
    "BOOTSTRAP_PKG",
    "USERGROUP_PHASE",
    "PBULK_WEIGHT",
];

/// Meaning of one input line.
#[derive(Clone, Debug, PartialEq)]
pub enum Sem {
    /// `PKGNAME=<value>`: starts a record.
    Pkgname(String),
    /// One of `SCALARS` with its (already trimmed) value.
    Scalar(usize, String),
    /// `PKG_LOCATION=<value>`; `valid` is what the generator intended.
    Location { value: String, valid: bool },
    /// `ALL_DEPENDS=<items>`; `bad` = index of the one invalid item, if any.
    AllDepends { items: Vec<String>, bad: Option<usize> },
    ScanDepends(Vec<String>),
    MultiVersion(Vec<String>),
    /// Blank line, unknown key, or a line without `=`.
    Ignored,
}

#[derive(Clone, Debug, Default, PartialEq)]
pub struct ExpRec {
    pub pkgname: String,
    pub location: Option<String>,
    pub all_depends: Vec<String>,
    pub scalars: [Option<String>; 10],
    pub scan_depends: Vec<String>,
    pub multi_version: Vec<String>,
    loc_bad: bool,
    dep_bad: bool,
}

#[derive(Clone, Copy, Debug, PartialEq, Eq)]
pub enum Fault {
    /// A known key occurs in a block without a `PKGNAME=` line.
    MissingPkgname,
    BadDepend,
    BadLocation,
}

impl Fault {
    pub fn name(self) -> &'static str {
        match self {
            Fault::MissingPkgname => "missing_pkgname",
            Fault::BadDepend => "bad_depend",
            Fault::BadLocation => "bad_location",
        }
    }
}

/// What the statement says the reader must return for these lines.
pub fn model(lines: &[Sem]) -> Result<Vec<ExpRec>, Fault> {
    let mut out: Vec<ExpRec> = vec![];
    let mut orphan = false;
    for l in lines {
        if let Sem::Pkgname(v) = l {
            out.push(ExpRec { pkgname: v.clone(), ..Default::default() });
            continue;
        }
        if *l == Sem::Ignored {
            continue;
        }
        let Some(cur) = out.last_mut() else {
            // a field line that belongs to no PKGNAME= line
            orphan = true;
            continue;
        };
        match l {
            Sem::Scalar(k, v) => cur.scalars[*k] = Some(v.clone()),
            Sem::Location { value, valid } => {
                cur.location = Some(value.clone());
                cur.loc_bad = !*valid;
            }
            Sem::AllDepends { items, bad } => {
                cur.all_depends = items.clone();
                cur.dep_bad = bad.is_some();
            }
            Sem::ScanDepends(items) => cur.scan_depends = items.clone(),
            Sem::MultiVersion(items) => cur.multi_version = items.clone(),
            Sem::Pkgname(_) | Sem::Ignored => {}
        }
    }
    if orphan {
        return Err(Fault::MissingPkgname);
    }
    for r in &out {
        if r.dep_bad {
            return Err(Fault::BadDepend);
        }
        if r.loc_bad {
            return Err(Fault::BadLocation);
        }
    }
    Ok(out)
}

/// Number of refills a block reader with a `bufsize`-byte window needs to
/// deliver `len` bytes and then report end of input.
pub fn fills_needed(len: usize, bufsize: usize) -> usize {
    (len + bufsize - 1) / bufsize + 1
}
