//! Reference models for the pattern layer: comparison-pattern structure
//! (C02), csh-style brace expansion (C04), shell-glob subset (C05).

use super::dewey::Op;

// ---------------------------------------------------------------------------
// C02: structure of a comparison pattern
// ---------------------------------------------------------------------------

#[derive(Clone, Debug, PartialEq, Eq)]
pub struct RefDewey {
    pub base: String,
    pub bounds: Vec<(Op, String)>,
}

#[derive(Clone, Debug, PartialEq, Eq)]
pub enum DeweyParse {
    Ok(RefDewey),
    NoOperator,
    TooMany(usize),
    BadOrder,
}

/// Scan operators left to right: `>`/`<`, each optionally followed by `=`.
pub fn scan_ops(p: &str) -> Vec<(usize, usize, Op)> {
    let b = p.as_bytes();
    let mut ops = vec![];
    let mut i = 0;
    while i < b.len() {
        if b[i] == b'>' || b[i] == b'<' {
            let eq = i + 1 < b.len() && b[i + 1] == b'=';
            let op = match (b[i], eq) {
                (b'>', true) => Op::Ge,
                (b'>', false) => Op::Gt,
                (b'<', true) => Op::Le,
                _ => Op::Lt,
            };
            let end = if eq { i + 2 } else { i + 1 };
            ops.push((i, end, op));
            // Note: the '=' is part of this operator, scanning continues
            // after the '<'/'>' itself (a following '=' is never an operator
            // start anyway).
            i += 1;
        } else {
            i += 1;
        }
    }
    ops
}

pub fn parse_dewey(p: &str) -> DeweyParse {
    let ops = scan_ops(p);
    match ops.len() {
        0 => DeweyParse::NoOperator,
        1 => DeweyParse::Ok(RefDewey {
            base: p[..ops[0].0].to_string(),
            bounds: vec![(ops[0].2, p[ops[0].1..].to_string())],
        }),
        2 => {
            if !(ops[0].2.is_lower() && !ops[1].2.is_lower()) {
                return DeweyParse::BadOrder;
            }
            DeweyParse::Ok(RefDewey {
                base: p[..ops[0].0].to_string(),
                bounds: vec![
                    (ops[0].2, p[ops[0].1..ops[1].0].to_string()),
                    (ops[1].2, p[ops[1].1..].to_string()),
                ],
            })
        }
        n => DeweyParse::TooMany(n),
    }
}

/// Split a package name at its last '-'.
pub fn split_name(name: &str) -> Option<(&str, &str)> {
    name.rfind('-').map(|i| (&name[..i], &name[i + 1..]))
}

// ---------------------------------------------------------------------------
// C04: csh-style brace expansion
// ---------------------------------------------------------------------------

pub fn braces_nested(p: &str) -> bool {
    let mut depth: i64 = 0;
    for c in p.chars() {
        if c == '{' {
            depth += 1;
        } else if c == '}' {
            depth -= 1;
            if depth < 0 {
                return false;
            }
        }
    }
    depth == 0
}

/// Number of expansions (saturating at `cap`+1) without materialising them.
pub fn count_expansions(p: &str, cap: usize) -> usize {
    fn go(p: &[char], cap: usize) -> usize {
        // product over top-level groups of (sum over alternatives)
        let mut total: usize = 1;
        let mut i = 0;
        while i < p.len() {
            if p[i] == '{' {
                let mut depth = 0;
                let mut j = i;
                let mut start = i + 1;
                let mut sum = 0usize;
                loop {
                    if p[j] == '{' {
                        depth += 1;
                    } else if p[j] == '}' {
                        depth -= 1;
                        if depth == 0 {
                            sum = sum.saturating_add(go(&p[start..j], cap));
                            break;
                        }
                    } else if p[j] == ',' && depth == 1 {
                        sum = sum.saturating_add(go(&p[start..j], cap));
                        start = j + 1;
                    }
                    j += 1;
                }
                total = total.saturating_mul(sum);
                if total > cap {
                    return cap + 1;
                }
                i = j + 1;
            } else {
                i += 1;
            }
        }
        total
    }
    let v: Vec<char> = p.chars().collect();
    go(&v, cap).min(cap + 1)
}

/// The csh-style expansion: expand the first (left-most) group of each
/// partially expanded string until none is left, first alternative first.
/// Requires properly nested braces.  (Iterative, so that the reference itself
/// has no depth limit on patterns with thousands of groups.)
pub fn expand(p: &str) -> Vec<String> {
    // Braces and commas are ASCII, so the scan can work on bytes and slice the
    // string at the positions found (they are character boundaries).
    let mut out = vec![];
    let mut work = vec![p.to_string()];
    while let Some(p) = work.pop() {
        let b = p.as_bytes();
        let Some(open) = b.iter().position(|&c| c == b'{') else {
            out.push(p);
            continue;
        };
        let mut depth = 0;
        let mut alts: Vec<&str> = vec![];
        let mut start = open + 1;
        let mut close = None;
        for (j, &c) in b.iter().enumerate().skip(open) {
            if c == b'{' {
                depth += 1;
            } else if c == b'}' {
                depth -= 1;
                if depth == 0 {
                    alts.push(&p[start..j]);
                    close = Some(j);
                    break;
                }
            } else if c == b',' && depth == 1 {
                alts.push(&p[start..j]);
                start = j + 1;
            }
        }
        let close = close.expect("expand() needs properly nested braces");
        let (prefix, suffix) = (&p[..open], &p[close + 1..]);
        let next: Vec<String> = alts.iter().rev().map(|a| format!("{prefix}{a}{suffix}")).collect();
        work.extend(next);
    }
    out
}

// ---------------------------------------------------------------------------
// C05: shell glob subset
// ---------------------------------------------------------------------------

#[derive(Clone, Debug, PartialEq, Eq)]
pub enum GTok {
    Lit(char),
    Any,
    Star,
    Set { neg: bool, items: Vec<(char, char)> },
}

#[derive(Clone, Debug, PartialEq, Eq)]
pub enum GlobParse {
    Ok(Vec<GTok>),
    /// `[` without a closing `]`.
    Unclosed,
    /// Syntax outside the subset the reference implements.
    OutOfSubset,
}

pub fn parse_glob(p: &str) -> GlobParse {
    let c: Vec<char> = p.chars().collect();
    let mut out = vec![];
    let mut i = 0;
    while i < c.len() {
        match c[i] {
            '*' => {
                if i + 1 < c.len() && c[i + 1] == '*' {
                    return GlobParse::OutOfSubset;
                }
                out.push(GTok::Star);
                i += 1;
            }
            '?' => {
                out.push(GTok::Any);
                i += 1;
            }
            '[' => {
                let mut j = i + 1;
                let neg = j < c.len() && c[j] == '!';
                if neg {
                    j += 1;
                }
                let start = j;
                // A ']' directly after '[' or '[!' is the first member of the
                // set, not its end (POSIX fnmatch, sh, and the glob crate agree).
                if j < c.len() && c[j] == ']' {
                    j += 1;
                }
                while j < c.len() && c[j] != ']' {
                    j += 1;
                }
                if j >= c.len() {
                    // No ']' at all after the '['.
                    if c[i + 1..].iter().any(|&x| x == ']') {
                        return GlobParse::OutOfSubset;
                    }
                    return GlobParse::Unclosed;
                }
                let body = &c[start..j];
                if body.is_empty() {
                    // "[]" / "[!]": outside the subset.
                    return GlobParse::OutOfSubset;
                }
                let mut items = vec![];
                let mut k = 0;
                while k < body.len() {
                    if k + 2 < body.len() && body[k + 1] == '-' {
                        if body[k] > body[k + 2] {
                            return GlobParse::OutOfSubset;
                        }
                        items.push((body[k], body[k + 2]));
                        k += 3;
                    } else {
                        // a '-' standing first or last in the set is a literal
                        // member (sh, fnmatch and the glob crate agree); anywhere
                        // else a lone '-' is outside the subset
                        let edge = k == 0 || k + 1 == body.len();
                        if (body[k] == '-' && !edge) || body[k] == '[' || body[k] == '!' {
                            return GlobParse::OutOfSubset;
                        }
                        items.push((body[k], body[k]));
                        k += 1;
                    }
                }
                out.push(GTok::Set { neg, items });
                i = j + 1;
            }
            ch => {
                out.push(GTok::Lit(ch));
                i += 1;
            }
        }
    }
    GlobParse::Ok(out)
}

pub fn glob_match(toks: &[GTok], name: &[char]) -> bool {
    // Iterative wildcard matching with backtracking on the last star.
    let (mut t, mut n) = (0usize, 0usize);
    let mut star: Option<(usize, usize)> = None;
    loop {
        if t < toks.len() {
            match &toks[t] {
                GTok::Star => {
                    star = Some((t, n));
                    t += 1;
                    continue;
                }
                tok if n < name.len() && one(tok, name[n]) => {
                    t += 1;
                    n += 1;
                    continue;
                }
                _ => {}
            }
        } else if n == name.len() {
            return true;
        }
        match star {
            Some((st, sn)) if sn < name.len() => {
                star = Some((st, sn + 1));
                t = st + 1;
                n = sn + 1;
            }
            _ => return false,
        }
    }
}

fn one(tok: &GTok, c: char) -> bool {
    match tok {
        GTok::Lit(l) => *l == c,
        GTok::Any => true,
        GTok::Set { neg, items } => items.iter().any(|(a, b)| *a <= c && c <= *b) != *neg,
        GTok::Star => unreachable!(),
    }
}

pub fn has_glob_meta(p: &str) -> bool {
    p.contains(|c| matches!(c, '*' | '?' | '[' | ']'))
}

/// Names made from what stands *around* the brace groups of a pattern: the
/// text before the first '{' joined to the text after the last '}', as it is
/// and with the characters the two share at the joint counted once
/// ("foo-" + "-1.0" -> "foo--1.0", "foo-1.0"), and the same around each single
/// group.  Such a name begins and ends like every expansion yet is shorter
/// than any of them.
pub fn joint_names(p: &str) -> Vec<String> {
    let mut out = vec![];
    let join = |a: &str, b: &str, out: &mut Vec<String>| {
        out.push(format!("{a}{b}"));
        let ac: Vec<char> = a.chars().collect();
        let bc: Vec<char> = b.chars().collect();
        for k in 1..=ac.len().min(bc.len()).min(4) {
            if ac[ac.len() - k..] == bc[..k] {
                out.push(ac.iter().chain(bc[k..].iter()).collect());
            }
            // also without the k characters on either side of the joint
            out.push(ac[..ac.len() - k].iter().chain(bc.iter()).collect());
            out.push(ac.iter().chain(bc[k..].iter()).collect());
        }
    };
    if let (Some(i), Some(j)) = (p.find('{'), p.rfind('}')) {
        if i < j {
            join(&p[..i], &p[j + 1..], &mut out);
        }
    }
    // around each top-level group
    let b = p.as_bytes();
    let mut depth = 0i32;
    let mut open = 0usize;
    for (k, &c) in b.iter().enumerate() {
        if c == b'{' {
            if depth == 0 {
                open = k;
            }
            depth += 1;
        } else if c == b'}' {
            depth -= 1;
            if depth == 0 && out.len() < 64 {
                let strip = |s: &str| -> String { s.chars().filter(|c| !matches!(c, '{' | '}' | ',')).collect() };
                join(&strip(&p[..open]), &strip(&p[k + 1..]), &mut out);
            }
            if depth < 0 {
                break;
            }
        }
    }
    out.sort();
    out.dedup();
    out
}
