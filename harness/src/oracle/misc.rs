//! Reference models for the misc monitors.
