//! Reference models for C18 (PKGNAME decomposition), C19 (PKGPATH rule) and
//! C20 (metadata file-name table), written from the property statements.

// ---------------------------------------------------------------------------
// C18
// ---------------------------------------------------------------------------

/// Split at the last '-': (base, version); the whole string and an empty
/// version when there is none.  (Own byte scan; '-' is ASCII so the cut is
/// always on a character boundary.)
pub fn split_last_dash(name: &str) -> (&str, &str) {
    let b = name.as_bytes();
    let mut i = b.len();
    while i > 0 {
        i -= 1;
        if b[i] == b'-' {
            return (&name[..i], &name[i + 1..]);
        }
    }
    (name, "")
}

#[derive(Clone, Copy, Debug, PartialEq, Eq)]
pub enum Revision {
    /// The version ends in `nb<digits>` (1..=18 digits): that number.
    Ends(i64),
    /// The version contains no `nb` in any letter case: none.
    NoNb,
    /// Anything else (`1nb3alpha`, `1.0nb`, `1.0NB3`, more than 18 digits):
    /// the statement does not say.
    Unspecified,
}

pub fn revision(version: &str) -> Revision {
    let b = version.as_bytes();
    let mut i = b.len();
    while i > 0 && b[i - 1].is_ascii_digit() {
        i -= 1;
    }
    let ndigits = b.len() - i;
    if ndigits >= 1 && i >= 2 && &b[i - 2..i] == b"nb" {
        if ndigits > 18 {
            return Revision::Unspecified;
        }
        let mut n: i64 = 0;
        for &d in &b[i..] {
            n = n * 10 + (d - b'0') as i64;
        }
        return Revision::Ends(n);
    }
    let has_nb_any_case = b.windows(2).any(|w| w.eq_ignore_ascii_case(b"nb"));
    if has_nb_any_case {
        Revision::Unspecified
    } else {
        Revision::NoNb
    }
}

pub fn count_nb(s: &str) -> usize {
    s.as_bytes().windows(2).filter(|w| w == b"nb").count()
}

pub fn count_dashes(s: &str) -> usize {
    s.bytes().filter(|&b| b == b'-').count()
}

// ---------------------------------------------------------------------------
// C19
// ---------------------------------------------------------------------------

#[derive(Clone, Debug, PartialEq, Eq)]
pub struct Norm<'a> {
    pub absolute: bool,
    pub segs: Vec<&'a str>,
}

/// Segment normaliser: split on '/'; a leading '/' makes the path absolute;
/// empty segments (repeated and trailing slashes) are dropped; '.' segments
/// are dropped except a leading one.  Deliberately not `std::path`.
pub fn normalise(s: &str) -> Norm<'_> {
    let absolute = s.as_bytes().first() == Some(&b'/');
    let mut segs: Vec<&str> = vec![];
    for seg in s.split('/') {
        if seg.is_empty() {
            continue;
        }
        if seg == "." && (!segs.is_empty() || absolute) {
            continue;
        }
        segs.push(seg);
    }
    Norm { absolute, segs }
}

fn ordinary(seg: &str) -> bool {
    !seg.is_empty() && seg != "." && seg != ".."
}

/// `Some((category, package))` iff the statement's rule accepts the string.
pub fn pkgpath_rule(s: &str) -> Option<(&str, &str)> {
    let n = normalise(s);
    if n.absolute {
        return None;
    }
    match n.segs.as_slice() {
        [c, p] if ordinary(c) && ordinary(p) => Some((c, p)),
        ["..", "..", c, p] if ordinary(c) && ordinary(p) => Some((c, p)),
        _ => None,
    }
}

/// Component-shape class for the evidence histogram: `P` = `..`, `D` = a
/// leading `.`, `N` = name; more than six components collapse to `long`.
pub fn shape(s: &str) -> String {
    let n = normalise(s);
    let mut out = String::new();
    if n.absolute {
        out.push_str("abs:");
    }
    if n.segs.len() > 6 {
        out.push_str("long");
        return out;
    }
    if n.segs.is_empty() {
        out.push_str("empty");
    }
    for seg in &n.segs {
        out.push(match *seg {
            ".." => 'P',
            "." => 'D',
            _ => 'N',
        });
    }
    out
}

// ---------------------------------------------------------------------------
// C20
// ---------------------------------------------------------------------------

/// The 14 '+' files of a package, in the order of `pkgsrc::MetadataEntry`'s
/// variants (names from the pkg_install documentation).
pub const META_FILES: [&str; 14] = [
    "+BUILD_INFO",
    "+BUILD_VERSION",
    "+COMMENT",
    "+CONTENTS",
    "+DEINSTALL",
    "+DESC",
    "+DISPLAY",
    "+INSTALL",
    "+INSTALLED_INFO",
    "+MTREE_DIRS",
    "+PRESERVE",
    "+REQUIRED_BY",
    "+SIZE_ALL",
    "+SIZE_PKG",
];

/// Indices of the three mandatory files in `META_FILES`.
pub const MANDATORY: [usize; 3] = [2, 3, 5];
