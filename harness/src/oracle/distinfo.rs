//! Reference models for the distinfo monitors.
