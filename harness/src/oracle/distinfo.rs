//! Reference models for the distinfo properties C10, C11 and C12.
//!
//! Everything in here is written from the property statements and is
//! independent of `pkgsrc::distinfo` / `pkgsrc::digest`:
//!
//! * the document model (files in first-appearance order per kind, checksums
//!   in line order, size) and its canonical rendering (C10, C11);
//! * the patch / distfile classification rule with all the readings the
//!   statement admits - a name on which two readings differ is *ambiguous* and
//!   is never generated for comparison (DESIGN section 4);
//! * digests computed with the RustCrypto crates called directly, and the
//!   harness's own `$NetBSD` line filter (C12);
//! * "shortest recorded trailing sub-path" resolution (C12).
//!
//! `compare_structure` observes a parsed `Distinfo` through its public
//! accessors and compares it with a model; it must be called inside a
//! `cx.check` body.

use pkgsrc::digest::Digest as LibDigest;
use pkgsrc::distinfo::{Distinfo, Entry, EntryType};
use std::ffi::OsStr;
use std::os::unix::ffi::OsStrExt;

#[derive(Clone, Copy, Debug, PartialEq, Eq, Hash)]
pub enum Alg {
    Blake2s,
    Md5,
    Rmd160,
    Sha1,
    Sha256,
    Sha512,
}

pub const ALGS: [Alg; 6] =
    [Alg::Blake2s, Alg::Md5, Alg::Rmd160, Alg::Sha1, Alg::Sha256, Alg::Sha512];

impl Alg {
    /// Spelling of the keyword in a distinfo file.
    pub fn keyword(self) -> &'static str {
        match self {
            Alg::Blake2s => "BLAKE2s",
            Alg::Md5 => "MD5",
            Alg::Rmd160 => "RMD160",
            Alg::Sha1 => "SHA1",
            Alg::Sha256 => "SHA256",
            Alg::Sha512 => "SHA512",
        }
    }
    /// Number of hex digits of the digest.
    pub fn hexlen(self) -> usize {
        match self {
            Alg::Blake2s => 64,
            Alg::Md5 => 32,
            Alg::Rmd160 => 40,
            Alg::Sha1 => 40,
            Alg::Sha256 => 64,
            Alg::Sha512 => 128,
        }
    }
    /// The library's name for the same algorithm (public enum variant).
    pub fn lib(self) -> LibDigest {
        match self {
            Alg::Blake2s => LibDigest::BLAKE2s,
            Alg::Md5 => LibDigest::MD5,
            Alg::Rmd160 => LibDigest::RMD160,
            Alg::Sha1 => LibDigest::SHA1,
            Alg::Sha256 => LibDigest::SHA256,
            Alg::Sha512 => LibDigest::SHA512,
        }
    }
    pub fn from_lib(d: LibDigest) -> Alg {
        match d {
            LibDigest::BLAKE2s => Alg::Blake2s,
            LibDigest::MD5 => Alg::Md5,
            LibDigest::RMD160 => Alg::Rmd160,
            LibDigest::SHA1 => Alg::Sha1,
            LibDigest::SHA256 => Alg::Sha256,
            LibDigest::SHA512 => Alg::Sha512,
        }
    }
    /// Is `word` one of the keywords a distinfo line may start with, in any
    /// letter case?  (Case variants are an excluded zone: generators use this
    /// to keep "garbage" first fields away from them.)
    pub fn is_keyword_any_case(word: &[u8]) -> bool {
        let Ok(s) = std::str::from_utf8(word) else { return false };
        let l = s.to_lowercase();
        l == "size" || ALGS.iter().any(|a| a.keyword().to_lowercase() == l)
    }
}

#[derive(Clone, Copy, Debug, PartialEq, Eq, Hash)]
pub enum Kind {
    Dist,
    Patch,
}

impl Kind {
    pub fn name(self) -> &'static str {
        match self {
            Kind::Dist => "distfile",
            Kind::Patch => "patch",
        }
    }
}

// ---------------------------------------------------------------------------
// Classification: "patch files (patch-* and emul-*-patch-*, except
// patch-local-*, *.orig, *.rej, *~ and names containing .tar.)"
// ---------------------------------------------------------------------------

fn find(h: &[u8], n: &[u8], from: usize) -> Option<usize> {
    if n.is_empty() || h.len() < n.len() {
        return None;
    }
    (from..=h.len() - n.len()).find(|&i| &h[i..i + n.len()] == n)
}

pub fn contains(h: &[u8], n: &[u8]) -> bool {
    find(h, n, 0).is_some()
}

/// One reading of the rule.  `glob_emul`: `emul-*-patch-*` read as a glob (the
/// `-patch-` must start after the `emul-` prefix) instead of "starts with
/// emul- and contains -patch-".  `tar_needle`: `.tar.` or, if the final dot is
/// read as punctuation, `.tar`.
fn rule(s: &[u8], glob_emul: bool, tar_needle: &[u8]) -> Kind {
    if s.starts_with(b"patch-local-")
        || s.ends_with(b".orig")
        || s.ends_with(b".rej")
        || s.ends_with(b"~")
        || contains(s, tar_needle)
    {
        return Kind::Dist;
    }
    if s.starts_with(b"patch-") {
        return Kind::Patch;
    }
    if s.starts_with(b"emul-") {
        let from = if glob_emul { 5 } else { 0 };
        if find(s, b"-patch-", from).is_some() {
            return Kind::Patch;
        }
    }
    Kind::Dist
}

pub fn last_component(name: &[u8]) -> &[u8] {
    match name.iter().rposition(|&b| b == b'/') {
        Some(i) => &name[i + 1..],
        None => name,
    }
}

/// The kind of a name if every reading of the statement agrees (whole name
/// vs last path component, glob vs substring for `emul-*-patch-*`, `.tar.` vs
/// `.tar`), otherwise `None` (the name is in an excluded zone).
pub fn classify(name: &[u8]) -> Option<Kind> {
    let mut seen: Option<Kind> = None;
    for subject in [name, last_component(name)] {
        for glob in [false, true] {
            for needle in [&b".tar."[..], &b".tar"[..]] {
                let k = rule(subject, glob, needle);
                match seen {
                    None => seen = Some(k),
                    Some(p) if p != k => return None,
                    _ => {}
                }
            }
        }
    }
    seen
}

/// Is the name free of everything on which `PathBuf` normalisation could
/// matter?  Non-empty components separated by single slashes, no `.` / `..`
/// component, no leading or trailing slash.  For such names `Path` equality
/// coincides with byte equality (known finding K2 needs the opposite).
pub fn path_plain(name: &[u8]) -> bool {
    !name.is_empty()
        && name.split(|&b| b == b'/').all(|c| !c.is_empty() && c != b"." && c != b"..")
}

// ---------------------------------------------------------------------------
// Document model
// ---------------------------------------------------------------------------

#[derive(Clone, Debug, PartialEq, Eq)]
pub struct FileModel {
    pub name: Vec<u8>,
    pub kind: Kind,
    pub sums: Vec<(Alg, String)>,
    pub size: Option<u64>,
}

#[derive(Clone, Debug, Default, PartialEq, Eq)]
pub struct DocModel {
    pub rcsid: Option<Vec<u8>>,
    pub dist: Vec<FileModel>,
    pub patch: Vec<FileModel>,
}

pub enum Rec<'a> {
    Sum(Alg, &'a str),
    Size(u64),
}

impl DocModel {
    fn slot(&mut self, name: &[u8], kind: Kind) -> &mut FileModel {
        let v = match kind {
            Kind::Dist => &mut self.dist,
            Kind::Patch => &mut self.patch,
        };
        if let Some(i) = v.iter().position(|f| f.name == name) {
            return &mut v[i];
        }
        v.push(FileModel { name: name.to_vec(), kind, sums: vec![], size: None });
        v.last_mut().unwrap()
    }
    /// The effect of one well-formed line: names in first-appearance order per
    /// kind, checksums in line order, the size under exactly that name.
    pub fn apply(&mut self, name: &[u8], kind: Kind, rec: Rec) {
        let f = self.slot(name, kind);
        match rec {
            Rec::Sum(a, h) => f.sums.push((a, h.to_string())),
            Rec::Size(n) => f.size = Some(n),
        }
    }
    pub fn files(&self) -> impl Iterator<Item = &FileModel> {
        self.dist.iter().chain(self.patch.iter())
    }
}

pub fn sum_line(alg: Alg, name: &[u8], hash: &str) -> Vec<u8> {
    let mut l = Vec::with_capacity(name.len() + hash.len() + 16);
    l.extend_from_slice(alg.keyword().as_bytes());
    l.extend_from_slice(b" (");
    l.extend_from_slice(name);
    l.extend_from_slice(b") = ");
    l.extend_from_slice(hash.as_bytes());
    l.push(b'\n');
    l
}

pub fn size_line(name: &[u8], size: u64) -> Vec<u8> {
    let mut l = Vec::with_capacity(name.len() + 40);
    l.extend_from_slice(b"Size (");
    l.extend_from_slice(name);
    l.extend_from_slice(b") = ");
    l.extend_from_slice(size.to_string().as_bytes());
    l.extend_from_slice(b" bytes\n");
    l
}

/// The lines of one file in canonical layout: checksum lines, then the size
/// line if `with_size`.
pub fn render_file(f: &FileModel, with_size: bool) -> Vec<u8> {
    let mut t = vec![];
    for (a, h) in &f.sums {
        t.extend_from_slice(&sum_line(*a, &f.name, h));
    }
    if with_size {
        if let Some(n) = f.size {
            t.extend_from_slice(&size_line(&f.name, n));
        }
    }
    t
}

/// Canonical layout: RCS Id line, blank line, then for each distfile its
/// checksum lines and size line, then for each patch its checksum lines.
pub fn render_canonical(m: &DocModel) -> Vec<u8> {
    let mut t = vec![];
    match &m.rcsid {
        Some(r) => t.extend_from_slice(r),
        None => t.extend_from_slice(b"$NetBSD$"),
    }
    t.extend_from_slice(b"\n\n");
    for f in &m.dist {
        t.extend_from_slice(&render_file(f, true));
    }
    for f in &m.patch {
        t.extend_from_slice(&render_file(f, false));
    }
    t
}

fn show(b: &[u8]) -> String {
    crate::fw::show(b)
}

fn entry_name(e: &Entry) -> &[u8] {
    e.filename.as_os_str().as_bytes()
}

fn compare_entry(e: &Entry, m: &FileModel) -> Result<(), String> {
    let n = show(&m.name);
    if entry_name(e) != &m.name[..] {
        return Err(format!("entry filename {:?}, expected {:?}", show(entry_name(e)), n));
    }
    let want_type = match m.kind {
        Kind::Dist => EntryType::Distfile,
        Kind::Patch => EntryType::Patchfile,
    };
    if e.filetype != want_type {
        return Err(format!("entry {n:?} has filetype {:?}, expected {}", e.filetype, m.kind.name()));
    }
    if e.size != m.size {
        return Err(format!("entry {n:?} has size {:?}, expected {:?}", e.size, m.size));
    }
    let got: Vec<(Alg, &str)> =
        e.checksums.iter().map(|c| (Alg::from_lib(c.digest), c.hash.as_str())).collect();
    let want: Vec<(Alg, &str)> = m.sums.iter().map(|(a, h)| (*a, h.as_str())).collect();
    if got != want {
        return Err(format!("entry {n:?} has checksums {got:?}, expected {want:?}"));
    }
    Ok(())
}

fn compare_list(what: &str, got: &[&Entry], want: &[FileModel]) -> Result<(), String> {
    let gn: Vec<String> = got.iter().map(|e| show(entry_name(e))).collect();
    let wn: Vec<String> = want.iter().map(|f| show(&f.name)).collect();
    if gn != wn {
        return Err(format!("{what} are {gn:?}, expected {wn:?} (first-appearance order)"));
    }
    for (e, m) in got.iter().zip(want) {
        compare_entry(e, m).map_err(|s| format!("{what}: {s}"))?;
    }
    Ok(())
}

/// Observe `di` through `distfiles()`, `patchfiles()` and (if `lookups`)
/// `get_distfile`/`get_patchfile`, and compare with the model.  Returns the
/// number of comparisons made.
pub fn compare_structure(di: &Distinfo, m: &DocModel, lookups: bool) -> Result<u64, String> {
    let d = di.distfiles();
    let p = di.patchfiles();
    compare_list("distfiles", &d, &m.dist)?;
    compare_list("patchfiles", &p, &m.patch)?;
    let mut n = 2 + (m.dist.len() + m.patch.len()) as u64;
    if lookups {
        for f in m.files() {
            let key = OsStr::from_bytes(&f.name);
            let (same, other) = match f.kind {
                Kind::Dist => (di.get_distfile(key), di.get_patchfile(key)),
                Kind::Patch => (di.get_patchfile(key), di.get_distfile(key)),
            };
            n += 2;
            match same {
                None => {
                    return Err(format!(
                        "lookup of {} {:?} by name finds nothing",
                        f.kind.name(),
                        show(&f.name)
                    ))
                }
                Some(e) => compare_entry(e, f).map_err(|s| format!("lookup by name: {s}"))?,
            }
            if let Some(e) = other {
                return Err(format!(
                    "{} {:?} is also found among the other kind (as {:?})",
                    f.kind.name(),
                    show(&f.name),
                    show(entry_name(e))
                ));
            }
        }
    }
    Ok(n)
}

pub fn compare_rcsid(di: &Distinfo, want: &Option<Vec<u8>>) -> Result<(), String> {
    let got = di.rcsid().map(|s| s.as_bytes().to_vec());
    if &got != want {
        return Err(format!(
            "rcsid is {:?}, expected {:?}",
            got.as_deref().map(show),
            want.as_deref().map(show)
        ));
    }
    Ok(())
}

// ---------------------------------------------------------------------------
// C12: digests (RustCrypto called directly), $NetBSD filter, tail resolution
// ---------------------------------------------------------------------------

fn hex(b: &[u8]) -> String {
    crate::fw::hex(b)
}

pub fn digest_hex(alg: Alg, data: &[u8]) -> String {
    use digest::Digest as _;
    match alg {
        Alg::Blake2s => hex(&blake2::Blake2s256::digest(data)),
        Alg::Md5 => hex(&md5::Md5::digest(data)),
        Alg::Rmd160 => hex(&ripemd::Ripemd160::digest(data)),
        Alg::Sha1 => hex(&sha1::Sha1::digest(data)),
        Alg::Sha256 => hex(&sha2::Sha256::digest(data)),
        Alg::Sha512 => hex(&sha2::Sha512::digest(data)),
    }
}

const TOKEN: &[u8] = b"$NetBSD";

/// The harness's own `$NetBSD` filter: split on LF, drop the final empty
/// piece, drop lines containing `$NetBSD`, re-terminate every kept line.
pub fn netbsd_filter(data: &[u8]) -> Vec<u8> {
    let mut pieces: Vec<&[u8]> = data.split(|&b| b == b'\n').collect();
    if pieces.last().map(|p| p.is_empty()).unwrap_or(false) {
        pieces.pop();
    }
    let mut out = Vec::with_capacity(data.len() + 1);
    for p in pieces {
        if contains(p, TOKEN) {
            continue;
        }
        out.extend_from_slice(p);
        out.push(b'\n');
    }
    out
}

/// "The file with every line containing `$NetBSD` removed" is unambiguous
/// only when no kept line lacks its terminator: empty content, content that
/// ends with LF, or content whose unterminated last line is itself removed.
/// (Whether an unterminated kept last line gains an LF differs between sed
/// implementations; that zone is not compared.)
pub fn patch_sound(data: &[u8]) -> bool {
    if data.is_empty() || data.ends_with(b"\n") {
        return true;
    }
    let last = match data.iter().rposition(|&b| b == b'\n') {
        Some(i) => &data[i + 1..],
        None => data,
    };
    contains(last, TOKEN)
}

/// What is hashed for a file of the given kind.
pub fn hashed_bytes(kind: Kind, data: &[u8]) -> Vec<u8> {
    match kind {
        Kind::Dist => data.to_vec(),
        Kind::Patch => netbsd_filter(data),
    }
}

pub fn file_digest(alg: Alg, kind: Kind, data: &[u8]) -> String {
    digest_hex(alg, &hashed_bytes(kind, data))
}

/// Index of the recorded name (among `names`) that is the shortest trailing
/// sub-path of `full` (whole components only).
pub fn resolve_tail(names: &[&[u8]], full: &[u8]) -> Option<usize> {
    let mut best: Option<(usize, usize)> = None;
    for (i, n) in names.iter().enumerate() {
        let is_tail = full == *n
            || (full.len() > n.len()
                && full.ends_with(n)
                && full[full.len() - n.len() - 1] == b'/');
        if !is_tail {
            continue;
        }
        let comps = n.split(|&b| b == b'/').count();
        if best.map(|(c, _)| comps < c).unwrap_or(true) {
            best = Some((comps, i));
        }
    }
    best.map(|(_, i)| i)
}
