pub mod dewey;
pub mod pattern;
