pub mod dewey;
pub mod digest;
pub mod distinfo;
pub mod misc;
pub mod pattern;
pub mod plist;
pub mod scan;
pub mod summary;
