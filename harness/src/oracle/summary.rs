//! Reference models for the summary monitors.
