//! Reference model of a pkg_summary(5) entry, written from the statements of
//! C07/C08/C09 and the manual page - not from the Rust code under test.
//!
//! * 23 variables in the fixed pkg_summary order (note `PKG_OPTIONS` comes
//!   before `PKGNAME`, which is neither ASCII nor enum-name order);
//! * kinds: single string (S), integer (I), multi-line (A);
//! * eleven required variables;
//! * printed form: one `VAR=value` line per value, variables in table order;
//! * accepted text: every line `VAR=value` (value = everything after the
//!   first `=`), S keeps the last value, A accumulates in input order, I is a
//!   decimal i64; all eleven required variables present.
//!
//! Nothing in this file calls the library.

#[derive(Clone, Copy, Debug, PartialEq, Eq)]
pub enum Kind {
    S,
    I,
    A,
}

pub struct VarInfo {
    pub name: &'static str,
    pub kind: Kind,
    pub required: bool,
}

const fn v(name: &'static str, kind: Kind, required: bool) -> VarInfo {
    VarInfo { name, kind, required }
}

pub const NVARS: usize = 23;

/// The table, in printing order.
pub const VARS: [VarInfo; NVARS] = [
    v("BUILD_DATE", Kind::S, true),
    v("CATEGORIES", Kind::S, true),
    v("COMMENT", Kind::S, true),
    v("CONFLICTS", Kind::A, false),
    v("DEPENDS", Kind::A, false),
    v("DESCRIPTION", Kind::A, true),
    v("FILE_CKSUM", Kind::S, false),
    v("FILE_NAME", Kind::S, false),
    v("FILE_SIZE", Kind::I, false),
    v("HOMEPAGE", Kind::S, false),
    v("LICENSE", Kind::S, false),
    v("MACHINE_ARCH", Kind::S, true),
    v("OPSYS", Kind::S, true),
    v("OS_VERSION", Kind::S, true),
    v("PKG_OPTIONS", Kind::S, false),
    v("PKGNAME", Kind::S, true),
    v("PKGPATH", Kind::S, true),
    v("PKGTOOLS_VERSION", Kind::S, true),
    v("PREV_PKGPATH", Kind::S, false),
    v("PROVIDES", Kind::A, false),
    v("REQUIRES", Kind::A, false),
    v("SIZE_PKG", Kind::I, true),
    v("SUPERSEDES", Kind::A, false),
];

pub const BUILD_DATE: usize = 0;
pub const CATEGORIES: usize = 1;
pub const COMMENT: usize = 2;
pub const CONFLICTS: usize = 3;
pub const DEPENDS: usize = 4;
pub const DESCRIPTION: usize = 5;
pub const FILE_CKSUM: usize = 6;
pub const FILE_NAME: usize = 7;
pub const FILE_SIZE: usize = 8;
pub const HOMEPAGE: usize = 9;
pub const LICENSE: usize = 10;
pub const MACHINE_ARCH: usize = 11;
pub const OPSYS: usize = 12;
pub const OS_VERSION: usize = 13;
pub const PKG_OPTIONS: usize = 14;
pub const PKGNAME: usize = 15;
pub const PKGPATH: usize = 16;
pub const PKGTOOLS_VERSION: usize = 17;
pub const PREV_PKGPATH: usize = 18;
pub const PROVIDES: usize = 19;
pub const REQUIRES: usize = 20;
pub const SIZE_PKG: usize = 21;
pub const SUPERSEDES: usize = 22;

/// The eleven required variables, in table order.
pub const REQUIRED: [usize; 11] = [
    BUILD_DATE,
    CATEGORIES,
    COMMENT,
    DESCRIPTION,
    MACHINE_ARCH,
    OPSYS,
    OS_VERSION,
    PKGNAME,
    PKGPATH,
    PKGTOOLS_VERSION,
    SIZE_PKG,
];

pub fn optional() -> Vec<usize> {
    (0..NVARS).filter(|&i| !VARS[i].required).collect()
}

pub fn multi() -> Vec<usize> {
    (0..NVARS).filter(|&i| VARS[i].kind == Kind::A).collect()
}

pub fn index_of(name: &str) -> Option<usize> {
    VARS.iter().position(|x| x.name == name)
}

#[derive(Clone, Debug, PartialEq, Eq)]
pub enum Val {
    S(String),
    I(i64),
    A(Vec<String>),
}

impl Val {
    pub fn kind(&self) -> Kind {
        match self {
            Val::S(_) => Kind::S,
            Val::I(_) => Kind::I,
            Val::A(_) => Kind::A,
        }
    }
    /// The value texts, one per printed line.
    pub fn texts(&self) -> Vec<String> {
        match self {
            Val::S(s) => vec![s.clone()],
            Val::I(i) => vec![i.to_string()],
            Val::A(a) => a.clone(),
        }
    }
}

/// The current value of each variable (None = unset).
#[derive(Clone, Debug, PartialEq, Eq)]
pub struct Entry {
    pub vals: Vec<Option<Val>>,
}

impl Default for Entry {
    fn default() -> Self {
        Entry { vals: vec![None; NVARS] }
    }
}

impl Entry {
    pub fn new() -> Entry {
        Entry::default()
    }

    /// `set_*`: replaces whatever was there.
    pub fn set(&mut self, var: usize, val: Val) {
        debug_assert!(val.kind() == VARS[var].kind);
        self.vals[var] = Some(val);
    }

    /// `push_*`: appends one line to a multi-line variable (creating it).
    pub fn push(&mut self, var: usize, line: &str) {
        debug_assert!(VARS[var].kind == Kind::A);
        match &mut self.vals[var] {
            Some(Val::A(a)) => a.push(line.to_string()),
            _ => self.vals[var] = Some(Val::A(vec![line.to_string()])),
        }
    }

    pub fn get(&self, var: usize) -> Option<&Val> {
        self.vals[var].as_ref()
    }

    pub fn is_set(&self, var: usize) -> bool {
        self.vals[var].is_some()
    }

    /// Required variables that are not set, in table order.
    pub fn missing(&self) -> Vec<usize> {
        REQUIRED.iter().copied().filter(|&i| self.vals[i].is_none()).collect()
    }

    pub fn is_complete(&self) -> bool {
        self.missing().is_empty()
    }

    pub fn optional_set(&self) -> usize {
        (0..NVARS).filter(|&i| !VARS[i].required && self.vals[i].is_some()).count()
    }

    /// Canonical text: one `VAR=value` line per value, table order, every
    /// line terminated by `\n`.
    pub fn print(&self) -> String {
        let mut out = String::new();
        for (i, val) in self.vals.iter().enumerate() {
            let Some(val) = val else { continue };
            for t in val.texts() {
                out.push_str(VARS[i].name);
                out.push('=');
                out.push_str(&t);
                out.push('\n');
            }
        }
        out
    }

    /// The variable that owns the last printed line (None for an empty entry).
    pub fn last_printed(&self) -> Option<usize> {
        (0..NVARS).rev().find(|&i| match &self.vals[i] {
            Some(Val::A(a)) => !a.is_empty(),
            Some(_) => true,
            None => false,
        })
    }

    /// First variable on which two entries differ.
    pub fn first_difference(&self, other: &Entry) -> Option<usize> {
        (0..NVARS).find(|&i| self.vals[i] != other.vals[i])
    }
}

/// Strict decimal i64: optional `-`, one or more ASCII digits, in range.
/// (`+5` is deliberately not classified - the generators never produce it.)
pub fn parse_int(s: &str) -> Option<i64> {
    let (neg, digits) = match s.strip_prefix('-') {
        Some(d) => (true, d),
        None => (false, s),
    };
    if digits.is_empty() || !digits.bytes().all(|b| b.is_ascii_digit()) {
        return None;
    }
    let mut acc: i128 = 0;
    for b in digits.bytes() {
        acc = acc * 10 + (b - b'0') as i128;
        if acc > (1i128 << 64) {
            return None;
        }
    }
    if neg {
        acc = -acc;
    }
    if acc < i64::MIN as i128 || acc > i64::MAX as i128 {
        return None;
    }
    Some(acc as i64)
}

/// Why a text is not an acceptable entry.
#[derive(Clone, Copy, Debug, PartialEq, Eq, PartialOrd, Ord)]
pub enum Cause {
    /// a line without `=`
    Line,
    /// `NAME=...` with NAME not one of the 23
    Variable,
    /// FILE_SIZE / SIZE_PKG value that is not an integer
    Int,
    /// required variable (table index) absent
    Missing(usize),
}

impl Cause {
    pub fn name(&self) -> String {
        match self {
            Cause::Line => "ParseLine".into(),
            Cause::Variable => "ParseVariable".into(),
            Cause::Int => "ParseInt".into(),
            Cause::Missing(i) => format!("Incomplete({})", VARS[*i].name),
        }
    }
    pub fn class(&self) -> &'static str {
        match self {
            Cause::Line => "line",
            Cause::Variable => "variable",
            Cause::Int => "int",
            Cause::Missing(_) => "missing",
        }
    }
}

/// A well-formed line as the generator made it.
#[derive(Clone, Debug, PartialEq, Eq)]
pub struct Line {
    pub var: usize,
    pub text: String,
}

impl Line {
    pub fn render(&self) -> String {
        format!("{}={}", VARS[self.var].name, self.text)
    }
}

/// Fold well-formed lines into the entry they denote: single-valued
/// variables keep the last value, multi-line ones accumulate in input order.
/// Returns None if an integer line is not a strict decimal i64 (the
/// generators never do that for lines they call well-formed).
pub fn fold(lines: &[Line]) -> Option<Entry> {
    let mut e = Entry::new();
    for l in lines {
        match VARS[l.var].kind {
            Kind::S => e.set(l.var, Val::S(l.text.clone())),
            Kind::I => e.set(l.var, Val::I(parse_int(&l.text)?)),
            Kind::A => e.push(l.var, &l.text),
        }
    }
    Some(e)
}

/// Reference reading of an arbitrary entry text (used to cross-check the
/// generators' by-construction expectations): returns the entry denoted by
/// the well-formed lines and every cause of rejection present.
pub fn read(text: &str) -> (Entry, Vec<Cause>) {
    let mut e = Entry::new();
    let mut causes = vec![];
    let body = text.strip_suffix('\n').unwrap_or(text);
    if !text.is_empty() {
        for line in body.split('\n') {
            let Some(eq) = line.find('=') else {
                causes.push(Cause::Line);
                continue;
            };
            let (name, value) = (&line[..eq], &line[eq + 1..]);
            let Some(var) = index_of(name) else {
                causes.push(Cause::Variable);
                continue;
            };
            match VARS[var].kind {
                Kind::S => e.set(var, Val::S(value.to_string())),
                Kind::A => e.push(var, value),
                Kind::I => match parse_int(value) {
                    Some(i) => e.set(var, Val::I(i)),
                    None => causes.push(Cause::Int),
                },
            }
        }
    }
    for m in e.missing() {
        causes.push(Cause::Missing(m));
    }
    causes.sort();
    causes.dedup();
    (e, causes)
}
