//! Reference models for the plist monitors.
