//! Reference models for the plist monitors.
//!
//! `views` is the reference for C15: ONE fold over the entry sequence,
//! written from the statement of C15 (not from the library's four separately
//! written state machines):
//!
//! * a file entry is *kept* unless an `@ignore` occurs somewhere between it
//!   and the preceding file entry (or the start); kept files, in order, are
//!   `files()`;
//! * `files_prefixed()` holds the same files, each prefixed with the most
//!   recent `@cwd` directory (empty if none yet) plus `/` unless the
//!   directory already ends in one;
//! * `install_cmds()` = kept files + every @cwd/@exec/@mode/@owner/@group/
//!   @pkgdir entry, `uninstall_cmds()` = kept files + every @cwd/@unexec/
//!   @mode/@owner/@group/@pkgdir/@dirrm entry, in original order;
//! * depends / build_depends / conflicts / pkgdirs / pkgrmdirs: every entry
//!   of the kind in order; pkgname / display: the first; is_preserve: an
//!   `@option preserve` exists.
//!
//! `key` is an independent notion of entry equality (kind tag + payload
//! bytes) so that the monitors need not trust the library's `PartialEq`
//! when deciding what *they* consider equal.

use pkgsrc::plist::{PlistEntry, PlistOption};
use std::ffi::OsStr;
use std::os::unix::ffi::OsStrExt;

/// (kind tag, payload bytes or None).
pub type Key = (u8, Option<Vec<u8>>);

pub fn key(e: &PlistEntry) -> Key {
    use PlistEntry as E;
    let o = |s: &OsStr| Some(s.as_bytes().to_vec());
    let s = |s: &str| Some(s.as_bytes().to_vec());
    #[allow(unreachable_patterns)]
    match e {
        E::File(a) => (0, o(a)),
        E::Cwd(a) => (1, o(a)),
        E::Exec(a) => (2, o(a)),
        E::UnExec(a) => (3, o(a)),
        E::Mode(a) => (4, a.as_deref().and_then(s)),
        E::PkgOpt(PlistOption::Preserve) => (5, None),
        E::Owner(a) => (6, a.as_deref().and_then(s)),
        E::Group(a) => (7, a.as_deref().and_then(s)),
        E::Comment(a) => (8, a.as_deref().and_then(o)),
        E::Ignore => (9, None),
        E::Name(a) => (10, s(a)),
        E::PkgDir(a) => (11, o(a)),
        E::DirRm(a) => (12, o(a)),
        E::Display(a) => (13, o(a)),
        E::PkgDep(a) => (14, s(a)),
        E::BldDep(a) => (15, s(a)),
        E::PkgCfl(a) => (16, s(a)),
        _ => (255, None),
    }
}

pub fn keys<'a, I: IntoIterator<Item = &'a PlistEntry>>(es: I) -> Vec<Key> {
    es.into_iter().map(key).collect()
}

/// Reference views of an entry sequence.
#[derive(Debug, Default, PartialEq, Eq)]
pub struct Views {
    pub files: Vec<Vec<u8>>,
    pub files_prefixed: Vec<Vec<u8>>,
    /// indices into the entry sequence
    pub install: Vec<usize>,
    pub uninstall: Vec<usize>,
    pub depends: Vec<String>,
    pub build_depends: Vec<String>,
    pub conflicts: Vec<String>,
    pub pkgdirs: Vec<Vec<u8>>,
    pub pkgrmdirs: Vec<Vec<u8>>,
    pub pkgname: Option<String>,
    pub display: Option<Vec<u8>>,
    pub preserve: bool,
    // statistics for the evidence (not compared)
    pub ignored_files: usize,
    pub cwd_changes: usize,
}

pub fn views(entries: &[&PlistEntry]) -> Views {
    use PlistEntry as E;
    let mut v = Views::default();
    // an @ignore has been seen since the preceding file entry (or the start)
    let mut ignore_pending = false;
    // most recent @cwd directory, empty if none yet
    let mut prefix: Vec<u8> = vec![];
    for (i, e) in entries.iter().enumerate() {
        #[allow(unreachable_patterns)]
        match *e {
            E::File(f) => {
                if ignore_pending {
                    v.ignored_files += 1;
                } else {
                    v.files.push(f.as_bytes().to_vec());
                    let mut p = prefix.clone();
                    if p.last() != Some(&b'/') {
                        p.push(b'/');
                    }
                    p.extend_from_slice(f.as_bytes());
                    v.files_prefixed.push(p);
                    v.install.push(i);
                    v.uninstall.push(i);
                }
                ignore_pending = false;
            }
            E::Ignore => ignore_pending = true,
            E::Cwd(d) => {
                if d.as_bytes() != &prefix[..] {
                    v.cwd_changes += 1;
                }
                prefix = d.as_bytes().to_vec();
                v.install.push(i);
                v.uninstall.push(i);
            }
            E::Exec(_) => v.install.push(i),
            E::UnExec(_) => v.uninstall.push(i),
            E::Mode(_) | E::Owner(_) | E::Group(_) => {
                v.install.push(i);
                v.uninstall.push(i);
            }
            E::PkgDir(d) => {
                v.pkgdirs.push(d.as_bytes().to_vec());
                v.install.push(i);
                v.uninstall.push(i);
            }
            E::DirRm(d) => {
                v.pkgrmdirs.push(d.as_bytes().to_vec());
                v.uninstall.push(i);
            }
            E::PkgDep(s) => v.depends.push(s.clone()),
            E::BldDep(s) => v.build_depends.push(s.clone()),
            E::PkgCfl(s) => v.conflicts.push(s.clone()),
            E::Name(s) => {
                if v.pkgname.is_none() {
                    v.pkgname = Some(s.clone());
                }
            }
            E::Display(d) => {
                if v.display.is_none() {
                    v.display = Some(d.as_bytes().to_vec());
                }
            }
            E::PkgOpt(PlistOption::Preserve) => v.preserve = true,
            E::Comment(_) => {}
            _ => {}
        }
    }
    v
}
