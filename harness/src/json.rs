//! Minimal JSON writer (no serde_json in the harness: fewer moving parts).

pub struct J {
    buf: String,
    first: bool,
}

pub fn esc(s: &str) -> String {
    let mut o = String::with_capacity(s.len() + 2);
    o.push('"');
    for c in s.chars() {
        match c {
            '"' => o.push_str("\\\""),
            '\\' => o.push_str("\\\\"),
            '\n' => o.push_str("\\n"),
            '\r' => o.push_str("\\r"),
            '\t' => o.push_str("\\t"),
            c if (c as u32) < 0x20 => o.push_str(&format!("\\u{:04x}", c as u32)),
            c => o.push(c),
        }
    }
    o.push('"');
    o
}

impl J {
    pub fn obj() -> J {
        J { buf: String::from("{"), first: true }
    }
    fn key(&mut self, k: &str) {
        if !self.first {
            self.buf.push(',');
        }
        self.first = false;
        self.buf.push_str(&esc(k));
        self.buf.push(':');
    }
    pub fn s(&mut self, k: &str, v: &str) {
        self.key(k);
        self.buf.push_str(&esc(v));
    }
    pub fn u(&mut self, k: &str, v: u64) {
        self.key(k);
        self.buf.push_str(&v.to_string());
    }
    pub fn f(&mut self, k: &str, v: f64) {
        self.key(k);
        self.buf.push_str(&format!("{v:.3}"));
    }
    pub fn b(&mut self, k: &str, v: bool) {
        self.key(k);
        self.buf.push_str(if v { "true" } else { "false" });
    }
    pub fn raw(&mut self, k: &str, v: &str) {
        self.key(k);
        self.buf.push_str(v);
    }
    pub fn finish(mut self) -> String {
        self.buf.push('}');
        self.buf
    }
    pub fn str_array(xs: &[String]) -> String {
        let v: Vec<String> = xs.iter().map(|s| esc(s)).collect();
        format!("[{}]", v.join(","))
    }
}
