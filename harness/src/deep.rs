//! Deep-structure probes (C17): inputs whose *structure* is large - thousands
//! of brace groups, wildcards, components, lines, records, directory entries -
//! handed to one entry point each, in a child process.
//!
//! A stack overflow cannot be caught in-process (the runtime aborts), and it
//! takes the whole shard with it; so each probe runs as `pvh deep <kind> <n>`:
//! the child builds the input, arms the step budget, makes the library call on
//! a thread with Rust's default stack for spawned threads (2 MiB) and exits 0.
//! The parent (the C17 monitor, inside a monitored case) reads the exit
//! status: signal = abort (stack overflow / crash), 97 = step budget, 101 =
//! panic.

use crate::fw;
use pkgsrc::distinfo::Distinfo;
use pkgsrc::plist::Plist;
use pkgsrc::summary::{Summary, SummaryStream};
use pkgsrc::{Depend, Dewey, Pattern, PkgName, PkgPath, ScanIndex};
use std::io::Write;
use std::str::FromStr;

/// (kind, largest n used in quick runs, largest n used in thorough runs).
/// Kinds whose cost is quadratic in n by specification (each expansion round
/// copies the pattern) stay at 30 000.
pub const KINDS: [(&str, usize, usize); 20] = [
    ("alt-flat", 30_000, 30_000),
    ("alt-nested", 30_000, 30_000),
    ("alt-nested-alternatives", 10_000, 30_000),
    ("glob-stars", 150_000, 150_000),
    ("glob-questions", 100_000, 150_000),
    ("glob-sets", 50_000, 100_000),
    ("dewey-components", 100_000, 150_000),
    ("dewey-letters", 100_000, 150_000),
    ("best-match-long", 100_000, 150_000),
    ("pkgname-dashes", 100_000, 150_000),
    ("pkgpath-segments", 100_000, 150_000),
    ("depend-nested", 30_000, 30_000),
    ("summary-lines", 100_000, 150_000),
    ("summary-stream-entries", 30_000, 100_000),
    ("summary-pushes", 100_000, 150_000),
    ("plist-lines", 100_000, 150_000),
    ("plist-ignores", 100_000, 150_000),
    ("distinfo-files", 30_000, 100_000),
    ("distinfo-lines-one-file", 30_000, 100_000),
    ("scanindex-records", 30_000, 100_000),
];

/// The known finding K3: one stack frame of the glob crate's matcher per '*'.
pub const K3: &str = "glob-star-recursion";

fn dotted(n: usize) -> String {
    let mut s = String::with_capacity(2 * n);
    for i in 0..n {
        if i > 0 {
            s.push('.');
        }
        s.push((b'1' + (i % 9) as u8) as char);
    }
    s
}

/// Run one probe; returns a short description of what came back.
fn probe(kind: &str, n: usize) -> Result<String, String> {
    let arm = |len: usize| {
        // C17's per-call budget: proportional to the input.
        let a = 400_000 + 400 * len as u64;
        fw::arm_budget(a, a.saturating_mul(len as u64 + 256));
    };
    Ok(match kind {
        "alt-flat" => {
            let p = format!("{}-1.0", "{a}".repeat(n));
            let name = format!("{}-1.0", "a".repeat(n));
            arm(p.len() * 8);
            let pat = Pattern::new(&p).map_err(|e| e.to_string())?;
            format!("{} {}", pat.matches(&name), pat.matches("b-1.0"))
        }
        "alt-nested" => {
            let p = format!("{}a{}-1.0", "{".repeat(n), "}".repeat(n));
            arm(p.len() * 8);
            let pat = Pattern::new(&p).map_err(|e| e.to_string())?;
            format!("{} {}", pat.matches("a-1.0"), pat.matches("b-1.0"))
        }
        "alt-nested-alternatives" => {
            let p = format!("{}y{}-1.0", "{x,".repeat(n), "}".repeat(n));
            arm(p.len() * 16);
            let pat = Pattern::new(&p).map_err(|e| e.to_string())?;
            format!("{} {}", pat.matches("y-1.0"), pat.matches("z-1.0"))
        }
        "glob-stars" => {
            let p = format!("{}-1.0", "*a".repeat(n));
            let name = format!("{}-1.0", "a".repeat(n));
            arm(p.len());
            let pat = Pattern::new(&p).map_err(|e| e.to_string())?;
            format!("{}", pat.matches(&name))
        }
        "glob-questions" => {
            let p = format!("{}-[0-9]*", "?".repeat(n));
            let name = format!("{}-1.0", "a".repeat(n));
            arm(p.len());
            let pat = Pattern::new(&p).map_err(|e| e.to_string())?;
            format!("{} {}", pat.matches(&name), pat.matches("a-1.0"))
        }
        "glob-sets" => {
            let p = format!("{}-[0-9]*", "[a-c]".repeat(n));
            let name = format!("{}-1.0", "b".repeat(n));
            arm(p.len());
            let pat = Pattern::new(&p).map_err(|e| e.to_string())?;
            format!("{} {}", pat.matches(&name), pat.matches("a-1.0"))
        }
        "dewey-components" => {
            let v = dotted(n);
            let p = format!("p>={v}");
            arm(p.len() * 2);
            let pat = Pattern::new(&p).map_err(|e| e.to_string())?;
            let dw = Dewey::new(&format!("p>{v}<{v}.1")).map_err(|e| e.to_string())?;
            format!("{} {}", pat.matches(&format!("p-{v}")), dw.matches(&format!("p-{v}.0.1")))
        }
        "dewey-letters" => {
            let v = "a".repeat(n);
            let p = format!("p<={v}nb3");
            arm(p.len() * 2);
            let pat = Pattern::new(&p).map_err(|e| e.to_string())?;
            format!("{}", pat.matches(&format!("p-{v}nb2")))
        }
        "best-match-long" => {
            let v = dotted(n);
            arm(v.len() * 4);
            let pat = Pattern::new("p-[0-9]*").map_err(|e| e.to_string())?;
            let (a, b) = (format!("p-{v}"), format!("p-{v}.1"));
            format!("{:?}", pat.best_match(&a, &b).map(|s| s.len()))
        }
        "pkgname-dashes" => {
            let s = format!("{}1.0nb3", "a-".repeat(n));
            arm(s.len());
            let p = PkgName::new(&s);
            format!("{} {:?}", p.pkgbase().len(), p.pkgrevision())
        }
        "pkgpath-segments" => {
            let s = format!("{}cat/pkg", "./".repeat(n));
            let t = format!("{}pkg", "cat/".repeat(n));
            arm(s.len() + t.len());
            format!("{} {}", PkgPath::new(&s).is_ok(), PkgPath::new(&t).is_ok())
        }
        "depend-nested" => {
            let s = format!("{}a{}-[0-9]*:../../cat/pkg", "{".repeat(n), "}".repeat(n));
            arm(s.len() * 8);
            let d = Depend::new(&s).map_err(|e| e.to_string())?;
            format!("{}", d.pattern().matches("a-1"))
        }
        "summary-lines" => {
            let mut t = String::from(crate::mon::c17::SUMMARY_SEED);
            for i in 0..n {
                t.push_str("DESCRIPTION=line ");
                t.push_str(&i.to_string());
                t.push('\n');
            }
            arm(t.len());
            let s = Summary::from_str(&t).map_err(|e| e.to_string())?;
            format!("{}", s.to_string().len())
        }
        "summary-stream-entries" => {
            let mut t = String::new();
            for _ in 0..n {
                t.push_str(crate::mon::c17::SUMMARY_SEED);
                t.push('\n');
            }
            arm(t.len());
            let mut st = SummaryStream::new();
            for chunk in t.as_bytes().chunks(8192) {
                st.write_all(chunk).map_err(|e| e.to_string())?;
            }
            format!("{} {}", st.entries().len(), st.to_string().len())
        }
        "summary-pushes" => {
            arm(64 * n);
            let mut s = Summary::new();
            for i in 0..n {
                s.push_description(&format!("line {i}"));
                s.push_depends("dep-[0-9]*");
            }
            format!("{} {}", s.description().map(|d| d.len()).unwrap_or(0), s.to_string().len())
        }
        "plist-lines" => {
            let mut t = Vec::new();
            t.extend_from_slice(b"@name pkg-1.0\n@cwd /opt/pkg\n");
            for i in 0..n {
                t.extend_from_slice(format!("bin/file{i}\n@mode 0{}\n", i % 8).as_bytes());
            }
            arm(t.len());
            let p = Plist::from_bytes(&t).map_err(|e| e.to_string())?;
            format!("{} {} {}", p.files().len(), p.files_prefixed().len(), p.install_cmds().len())
        }
        "plist-ignores" => {
            let mut t = Vec::new();
            for _ in 0..n {
                t.extend_from_slice(b"@ignore\n");
            }
            t.extend_from_slice(b"+CONTENTS\nbin/foo\n");
            arm(t.len());
            let p = Plist::from_bytes(&t).map_err(|e| e.to_string())?;
            format!("{} {}", p.files().len(), p.uninstall_cmds().len())
        }
        "distinfo-files" => {
            let mut t = b"$NetBSD$\n\n".to_vec();
            for i in 0..n {
                t.extend_from_slice(format!("SHA1 (d{}/f{i}.tgz) = 00{i:038x}\nSize (d{}/f{i}.tgz) = {i} bytes\n", i % 7, i % 7).as_bytes());
            }
            arm(t.len());
            let d = Distinfo::from_bytes(&t);
            format!("{} {}", d.distfiles().len(), d.as_bytes().len())
        }
        "distinfo-lines-one-file" => {
            let mut t = b"$NetBSD$\n\n".to_vec();
            for i in 0..n {
                t.extend_from_slice(format!("SHA1 (patch-aa) = 00{i:038x}\n").as_bytes());
            }
            arm(t.len());
            let d = Distinfo::from_bytes(&t);
            format!("{} {}", d.patchfiles().len(), d.as_bytes().len())
        }
        "scanindex-records" => {
            let mut t = String::new();
            for i in 0..n {
                t.push_str(&format!("PKGNAME=pkg{i}-1.0\nALL_DEPENDS=a-[0-9]*:../../cat/a b>=1:../../cat/b\nPKG_LOCATION=cat/pkg{i}\nCATEGORIES=cat\n"));
            }
            arm(t.len());
            let v = ScanIndex::from_reader(t.as_bytes()).map_err(|e| e.to_string())?;
            format!("{}", v.len())
        }
        _ => return Err(format!("unknown deep kind {kind}")),
    })
}

/// Entry point of `pvh deep <kind> <n>`.
pub fn child_main(kind: &str, n: usize) -> ! {
    let kind = kind.to_string();
    let h = std::thread::Builder::new()
        .name("deep".into())
        .stack_size(2 << 20)
        .spawn(move || probe(&kind, n))
        .expect("pvh deep: cannot start the probe thread");
    match h.join() {
        Ok(Ok(s)) => {
            fw::disarm_budget();
            println!("DEEP-OK {s}");
            std::process::exit(0);
        }
        Ok(Err(e)) => {
            fw::disarm_budget();
            // an error value is a normal return (C17: "reporting malformed
            // input through its error type")
            println!("DEEP-OK error value: {e}");
            std::process::exit(0);
        }
        Err(_) => std::process::exit(101),
    }
}

pub struct Outcome {
    pub ok: bool,
    /// Died by a signal with the runtime's stack-overflow message.
    pub stack_overflow: bool,
    pub text: String,
}

/// Run a probe in a child process (parent side).
pub fn run_child(kind: &str, n: usize) -> Result<Outcome, String> {
    let exe = std::env::current_exe().map_err(|e| format!("harness: current_exe: {e}"))?;
    let out = std::process::Command::new(exe)
        .args(["deep", kind, &n.to_string()])
        .env("PVH_NO_WATCHDOG", "1")
        .output()
        .map_err(|e| format!("harness: cannot start the probe process: {e}"))?;
    let so = String::from_utf8_lossy(&out.stdout).to_string();
    let se = String::from_utf8_lossy(&out.stderr).to_string();
    let tail: String = se.lines().rev().take(4).collect::<Vec<_>>().into_iter().rev().collect::<Vec<_>>().join(" | ");
    Ok(match out.status.code() {
        Some(0) if so.contains("DEEP-OK") => Outcome { ok: true, stack_overflow: false, text: so.trim().to_string() },
        Some(97) => Outcome { ok: false, stack_overflow: false, text: format!("step budget exceeded (not prompt): {tail}") },
        Some(101) => Outcome { ok: false, stack_overflow: false, text: format!("panicked: {tail}") },
        Some(c) => Outcome { ok: false, stack_overflow: false, text: format!("probe process ended with status {c}: {tail}") },
        None => Outcome {
            ok: false,
            stack_overflow: se.contains("has overflowed its stack"),
            text: format!("probe process was killed by a signal ({}): {tail}", out.status),
        },
    })
}
