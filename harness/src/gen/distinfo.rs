//! Generators for the distinfo properties C10 (canonical documents, API
//! assembled documents), C11 (interleaved well-formed / must-ignore lines,
//! classification table, alias pairs) and C12 (file contents, corruptions).
//!
//! Soundness (DESIGN section 4): file names are made of bytes outside
//! {09,0a,0b,0c,0d,20}; they are `path_plain` (so `Path` equality is byte
//! equality) except in the alias workload; their patch/distfile kind is the
//! same under every reading of the rule (`classify` returns `Some`); hashes
//! are non-empty lower-case hex; sizes are plain decimal `u64`; no near-miss
//! lines, no case variants of keywords, at most one Size line and at most one
//! line per algorithm for a file.
//!
//! Workload shape (C10 / C11): besides the small random documents, every
//! n-th document is large (`big_count`: 17-300 files), the API direction
//! inserts in fixed adversarial orders (`API_SHAPES`) and may start from a
//! parsed text, and names come from `fresh_name_rich`: assembled from the
//! clauses of the classification rule (`clause_name`), derived from another
//! name of the document (`related_name`: shared trailing components, shared
//! prefix, letter case, lossy-UTF-8 twins) or long.

use crate::oracle::distinfo::{
    classify, contains, path_plain, Alg, DocModel, FileModel, Kind, Rec, ALGS,
};
use crate::rng::Rng;

// ---------------------------------------------------------------------------
// Names
// ---------------------------------------------------------------------------

/// The dangerous byte sequences of DESIGN C10, with the evidence class name.
pub const DANGER: [(&str, &[u8]); 11] = [
    ("85", b"\x85"),
    ("a0", b"\xa0"),
    ("e9", b"\xe9"),
    ("c3a0", b"\xc3\xa0"),
    ("c385", b"\xc3\x85"),
    ("ff", b"\xff"),
    ("01", b"\x01"),
    ("7f", b"\x7f"),
    ("lparen", b"("),
    ("rparen", b")"),
    ("eq", b"="),
];

/// Evidence classes of a name: which dangerous sequences it contains.
pub fn danger_classes(name: &[u8]) -> Vec<&'static str> {
    DANGER.iter().filter(|(_, seq)| contains(name, seq)).map(|(k, _)| *k).collect()
}

const ASCII_POOL: &[u8] = b"abcdefgxyzABXYZ0123456789.-_+,@%~#:;!*[]{}<>'\"\\&|^`$?";

/// A byte that may occur inside a file name: not ASCII white space, not 0x0b
/// (classified differently by `char::is_whitespace`), not `/`.
pub fn name_byte_ok(b: u8) -> bool {
    !matches!(b, 0x09..=0x0d | 0x20 | b'/')
}

fn any_name_byte(r: &mut Rng, fs_safe: bool) -> u8 {
    loop {
        let b = r.byte();
        if name_byte_ok(b) && !(fs_safe && b == 0) {
            return b;
        }
    }
}

/// `lo..=hi` bytes weighted towards the dangerous ones; never `.` or `..`.
pub fn raw_name(r: &mut Rng, lo: usize, hi: usize, fs_safe: bool) -> Vec<u8> {
    let n = r.range(lo, hi);
    let mut v = Vec::with_capacity(n + 2);
    while v.len() < n {
        match r.below(8) {
            0..=3 => v.extend_from_slice(DANGER[r.below(DANGER.len())].1),
            4 | 5 => v.push(*r.pick(ASCII_POOL)),
            _ => v.push(any_name_byte(r, fs_safe)),
        }
    }
    v.truncate(n);
    if v == b"." || v == b".." {
        v[0] = b'x';
    }
    v
}

const DIRS: [&[u8]; 8] =
    [b"sub", b"go-mod", b"dist-1.0", b"\xc3\xa9", b"d\xe9", b"a", b"b", b"c\xa0d"];
const DIST_SUFFIX: [&[u8]; 6] = [b".tar.gz", b".tgz", b".zip", b"-1.0.tar.xz", b".patch-1", b".c"];
/// Distfile names that look like patches (classification table rows).
pub const DIST_LOOKALIKES: [&[u8]; 12] = [
    b"emul-foo",
    b"patch-local-x",
    b"patch-aa.orig",
    b"patch-aa.rej",
    b"patch-aa~",
    b"patch-2.7.6.tar.xz",
    b"foo.patch-1",
    b"mypatch-aa",
    b"pkgin-23.8.1.tar.gz",
    b"emul-linux-patch-x.orig",
    b"patch",
    b"foo-patch-x",
];
pub const PATCH_NAMES: [&[u8]; 7] = [
    b"patch-aa",
    b"patch-",
    b"emul-linux-patch-x",
    b"patch-Makefile",
    b"patch-src_main.c",
    b"patch-configure.ac",
    b"emul-netbsd32-patch-ab",
];

fn dir_component(r: &mut Rng, fs_safe: bool) -> Vec<u8> {
    if r.chance(1, 2) {
        r.pick(&DIRS).to_vec()
    } else {
        raw_name(r, 1, 5, fs_safe)
    }
}

fn dist_intent(r: &mut Rng, subdir: bool, fs_safe: bool) -> Vec<u8> {
    let mut base = match r.below(8) {
        0..=3 => raw_name(r, 1, 12, fs_safe),
        4 | 5 => {
            let mut b = raw_name(r, 1, 6, fs_safe);
            b.extend_from_slice(DIST_SUFFIX[r.below(DIST_SUFFIX.len())]);
            b
        }
        6 => r.pick(&DIST_LOOKALIKES).to_vec(),
        _ => {
            let mut b = r.pick(&DIST_LOOKALIKES).to_vec();
            b.extend_from_slice(&raw_name(r, 1, 3, fs_safe));
            b
        }
    };
    if subdir && r.chance(1, 3) {
        let depth = r.range(1, 3);
        let mut p = vec![];
        for _ in 0..depth {
            p.extend_from_slice(&dir_component(r, fs_safe));
            p.push(b'/');
        }
        p.extend_from_slice(&base);
        base = p;
    }
    base
}

fn patch_intent(r: &mut Rng, fs_safe: bool) -> Vec<u8> {
    match r.below(4) {
        0 | 1 => {
            let mut b = b"patch-".to_vec();
            b.extend_from_slice(&raw_name(r, 0, 8, fs_safe));
            b
        }
        2 => {
            let mut b = b"emul-".to_vec();
            b.extend_from_slice(&raw_name(r, 1, 5, fs_safe));
            b.extend_from_slice(b"-patch-");
            b.extend_from_slice(&raw_name(r, 0, 5, fs_safe));
            b
        }
        _ => r.pick(&PATCH_NAMES).to_vec(),
    }
}

/// A fresh name of the requested kind: unambiguous under every reading of the
/// classification rule, `path_plain`, and not in `used` (then added to it).
pub fn fresh_name(
    r: &mut Rng,
    kind: Kind,
    subdir: bool,
    fs_safe: bool,
    used: &mut Vec<Vec<u8>>,
) -> Vec<u8> {
    for _ in 0..64 {
        let n = match kind {
            Kind::Dist => dist_intent(r, subdir, fs_safe),
            Kind::Patch => patch_intent(r, fs_safe),
        };
        if n.len() <= 200
            && classify(&n) == Some(kind)
            && path_plain(&n)
            && !used.iter().any(|u| *u == n)
        {
            used.push(n.clone());
            return n;
        }
    }
    // Deterministic fallback (practically unreachable).
    let n = match kind {
        Kind::Dist => format!("distfile-{}.tgz", used.len()).into_bytes(),
        Kind::Patch => format!("patch-z{}", used.len()).into_bytes(),
    };
    used.push(n.clone());
    n
}

// ---------------------------------------------------------------------------
// Names built from the clauses of the classification rule, names related to
// names already in the document, long names (C10 / C11 only; C12 keeps
// `fresh_name`)
// ---------------------------------------------------------------------------

/// Heads: the rule's own prefixes, alone and stacked, their near misses and
/// letter-case variants, and the same text preceded by something else.
const CLAUSE_HEADS: [&[u8]; 40] = [
    b"patch-",
    b"patch-local-",
    b"emul-linux-patch-",
    b"emul-linux-patch-local-",
    b"emul-netbsd32-patch-",
    b"emul-netbsd32-patch-local-",
    b"emul-sunos-5.11-patch-",
    b"emul--patch-",
    b"emul--patch-local-",
    b"emul-linux-",
    b"emul-linux-local-",
    b"emul-",
    b"emul-linux-patch",
    b"emul-linux-patch_",
    b"emul-linux-patch-local",
    b"emul_linux-patch-",
    b"emullinux-patch-",
    b"foo-patch-",
    b"foo-patch-local-",
    b"foo-emul-linux-patch-",
    b"xpatch-",
    b"mypatch-local-",
    b"patch",
    b"patch_",
    b"patch.",
    b"patch-local",
    b"patch-local_",
    b"patch-locale-",
    b"patch-patch-",
    b"patch-patch-local-",
    b"patch-local-patch-",
    b"patch-emul-linux-patch-",
    b"Patch-",
    b"PATCH-",
    b"Patch-local-",
    b"patch-Local-",
    b"patch-LOCAL-",
    b"Emul-linux-patch-",
    b"EMUL-linux-patch-",
    b"emul-linux-Patch-",
];

const CLAUSE_BODIES: [&[u8]; 18] = [
    b"",
    b"x",
    b"aa",
    b"ab",
    b"Makefile",
    b"src_main.c",
    b"paths.c",
    b"configure",
    b"2.7.6",
    b"1",
    b"local",
    b"local-x",
    b"patch-aa",
    b"patch-local-x",
    b"-patch-x",
    b"orig",
    b"tar",
    b"\xc3\xa9",
];

/// Tails: the rule's exceptions, stacked, near misses, letter-case variants,
/// and harmless suffixes (so that an exception ends up in the middle).
const CLAUSE_TAILS: [&[u8]; 30] = [
    b".orig",
    b".rej",
    b"~",
    b".tar.gz",
    b".tar.xz",
    b".tar.bz2",
    b".tar.",
    b".tar",
    b".tgz",
    b".original",
    b".origin",
    b".ori",
    b"orig",
    b"_orig",
    b".rejected",
    b".re",
    b"rej",
    b"~1",
    b"~~",
    b".ORIG",
    b".Orig",
    b".REJ",
    b".TAR.gz",
    b".Tar.xz",
    b".c",
    b".gz",
    b".1",
    b"-",
    b".",
    b"\xe9",
];

/// Free tokens for the unstructured mode: fragments of the rule's patterns
/// and of the line syntax.
const CLAUSE_SOUP: [&[u8]; 44] = [
    b"patch-",
    b"patch",
    b"-patch-",
    b"-patch",
    b"patch-local-",
    b"local-",
    b"-local-",
    b"local",
    b"emul-",
    b"emul",
    b"-emul-",
    b"linux",
    b"netbsd32",
    b"-",
    b"--",
    b".",
    b"_",
    b".orig",
    b".rej",
    b"~",
    b".tar.",
    b".tar",
    b"tar.",
    b".gz",
    b"orig",
    b"rej",
    b"x",
    b"aa",
    b"1",
    b"Size",
    b"SHA1",
    b"SHA512",
    b"MD5",
    b"bytes",
    b"=",
    b"(",
    b")",
    b"$NetBSD$",
    b"$NetBSD:",
    b"$NetBSD",
    b"#",
    b"Patch-",
    b"EMUL-",
    b".ORIG",
];

/// A name assembled from the clauses of the classification rule (head, body,
/// zero to three tails) or from a free mixture of their fragments.  The
/// caller asks the oracle for its kind; names on which two readings of the
/// rule differ are discarded there.
pub fn clause_name(r: &mut Rng) -> Vec<u8> {
    let mut v: Vec<u8> = vec![];
    if r.chance(3, 4) {
        v.extend_from_slice(*r.pick(&CLAUSE_HEADS[..]));
        match r.below(6) {
            0 => v.extend_from_slice(&raw_name(r, 1, 4, false)),
            _ => v.extend_from_slice(*r.pick(&CLAUSE_BODIES[..])),
        }
        let nt = match r.below(8) {
            0..=2 => 0,
            3..=5 => 1,
            6 => 2,
            _ => 3,
        };
        for _ in 0..nt {
            v.extend_from_slice(*r.pick(&CLAUSE_TAILS[..]));
        }
    } else {
        for _ in 0..r.range(1, 6) {
            if r.chance(1, 8) {
                v.extend_from_slice(&raw_name(r, 1, 3, false));
            } else {
                v.extend_from_slice(*r.pick(&CLAUSE_SOUP[..]));
            }
        }
    }
    if v.is_empty() || v == b"." || v == b".." {
        v.insert(0, b'x');
    }
    v
}

pub const CLAUSE_CLASSES: [&str; 10] = [
    "emul-head+patch-local-inside",
    "emul-head+exception",
    "patch-local-head+exception",
    "patch-head+patch-local-inside",
    "other-head+clause-inside",
    "other-head+exception",
    "upper-case-head",
    "upper-case-exception",
    "two-exceptions",
    "exception-text-not-at-end",
];

/// Evidence classes of a name with respect to combinations of the rule's
/// clauses (only meaningful for names with a definite kind).
pub fn clause_classes(name: &[u8]) -> Vec<&'static str> {
    let last = crate::oracle::distinfo::last_component(name);
    let mut c = vec![];
    let emul = last.starts_with(b"emul-") && contains(&last[5..], b"-patch-");
    let patch = last.starts_with(b"patch-");
    let exception = last.ends_with(b".orig")
        || last.ends_with(b".rej")
        || last.ends_with(b"~")
        || contains(last, b".tar.");
    if emul && contains(last, b"-patch-local-") {
        c.push("emul-head+patch-local-inside");
    }
    if emul && exception {
        c.push("emul-head+exception");
    }
    if patch && last.starts_with(b"patch-local-") && exception {
        c.push("patch-local-head+exception");
    }
    if patch && !last.starts_with(b"patch-local-") && contains(last, b"patch-local-") {
        c.push("patch-head+patch-local-inside");
    }
    if !emul && !patch && (contains(last, b"-patch-") || contains(last, b"patch-local-")) {
        c.push("other-head+clause-inside");
    }
    if !emul && !patch && exception {
        c.push("other-head+exception");
    }
    let lower = last.to_ascii_lowercase();
    if lower != last
        && (lower.starts_with(b"patch-") || lower.starts_with(b"emul-"))
        && !(emul || patch)
    {
        c.push("upper-case-head");
    }
    if lower != last
        && (emul || patch)
        && !exception
        && (lower.ends_with(b".orig") || lower.ends_with(b".rej") || contains(&lower, b".tar."))
    {
        c.push("upper-case-exception");
    }
    let stacked = [&b".orig"[..], b".rej", b"~", b".tar."]
        .iter()
        .filter(|t| contains(last, t))
        .count();
    if (emul || patch) && stacked >= 2 {
        c.push("two-exceptions");
    }
    if (emul || patch)
        && !exception
        && [&b".orig"[..], b".rej", b"~"].iter().any(|t| contains(last, t))
    {
        c.push("exception-text-not-at-end");
    }
    c
}

/// Is `short` a proper trailing sub-path (whole components) of `long`?
pub fn is_tail_of(short: &[u8], long: &[u8]) -> bool {
    long.len() > short.len()
        && long.ends_with(short)
        && long[long.len() - short.len() - 1] == b'/'
}

/// A directory component that keeps a name of the given kind of that kind
/// under every reading (for a patch the whole name must look like a patch
/// too, so the directory is called `patch-...`).
fn related_dir(r: &mut Rng, kind: Kind) -> Vec<u8> {
    match kind {
        Kind::Dist => dir_component(r, false),
        Kind::Patch => {
            let mut d = b"patch-".to_vec();
            d.extend_from_slice(&raw_name(r, 0, 3, false));
            d
        }
    }
}

/// A name derived from one already in the document: sharing its trailing
/// components (`foo.tgz` / `sub/foo.tgz`, `a/b/f` / `b/f`), sharing a prefix,
/// differing in letter case only, or differing only in bytes that a lossy
/// UTF-8 conversion maps to the same replacement character.
fn related_name(r: &mut Rng, kind: Kind, base: &[u8]) -> Vec<u8> {
    let mut v = base.to_vec();
    match r.below(8) {
        // longer: directory components in front
        0..=2 => {
            let mut p = vec![];
            for _ in 0..r.range(1, 2) {
                p.extend_from_slice(&related_dir(r, kind));
                p.push(b'/');
            }
            p.extend_from_slice(&v);
            v = p;
        }
        // shorter: leading component(s) removed (else a directory is added)
        3 | 4 => match v.iter().position(|&b| b == b'/') {
            Some(i) => v = v[i + 1..].to_vec(),
            None => {
                let mut p = related_dir(r, kind);
                p.push(b'/');
                p.extend_from_slice(&v);
                v = p;
            }
        },
        // shared prefix: something appended, or the last byte removed
        5 => {
            if v.len() > 1 && r.chance(1, 3) {
                v.pop();
            } else if r.chance(1, 2) {
                v.extend_from_slice(*r.pick(&CLAUSE_TAILS[..]));
            } else {
                v.extend_from_slice(&raw_name(r, 1, 3, false));
            }
        }
        // letter case of one ASCII letter
        6 => {
            let letters: Vec<usize> =
                (0..v.len()).filter(|&i| v[i].is_ascii_alphabetic()).collect();
            if letters.is_empty() {
                v.push(b'A');
            } else {
                let i = *r.pick(&letters);
                v[i] ^= 0x20;
            }
        }
        // lossy twin: one byte that is not valid UTF-8 replaced by another
        _ => {
            const BAD: [u8; 6] = [0xe9, 0xff, 0xfe, 0xc0, 0x80, 0xf8];
            match v.iter().position(|b| BAD.contains(b)) {
                Some(i) => {
                    let old = v[i];
                    v[i] = loop {
                        let b = *r.pick(&BAD);
                        if b != old {
                            break b;
                        }
                    };
                }
                None => v.push(*r.pick(&BAD)),
            }
        }
    }
    v
}

/// Relations between the names of one kind list (in first-appearance order):
/// evidence class names.
pub fn relation_classes(names: &[&[u8]]) -> Vec<&'static str> {
    let mut c = vec![];
    if names.len() > 24 {
        // only the trailing-component relation for large documents
        for (i, a) in names.iter().enumerate() {
            if !a.contains(&b'/') {
                continue;
            }
            for (j, b) in names.iter().enumerate() {
                if is_tail_of(b, a) {
                    c.push(if j < i { "shared-tail/shorter-first" } else { "shared-tail/longer-first" });
                }
            }
        }
        return c;
    }
    for i in 0..names.len() {
        for j in i + 1..names.len() {
            let (a, b) = (names[i], names[j]);
            if is_tail_of(a, b) {
                c.push("shared-tail/shorter-first");
            } else if is_tail_of(b, a) {
                c.push("shared-tail/longer-first");
            }
            if a != b && (a.starts_with(b) || b.starts_with(a)) {
                c.push("related/one-name-prefix-of-other");
            }
            if a != b && a.eq_ignore_ascii_case(b) {
                c.push("related/letter-case-twins");
            }
            if a != b
                && a.len() == b.len()
                && String::from_utf8_lossy(a) == String::from_utf8_lossy(b)
            {
                c.push("related/lossy-utf8-twins");
            }
        }
    }
    c
}

/// Like `fresh_name`, but a share of the names are built from the clauses of
/// the classification rule, derived from a name already in the document, or
/// long (30-200 bytes).  Same guarantees: definite kind under every reading,
/// `path_plain`, not in `used`.
pub fn fresh_name_rich(
    r: &mut Rng,
    kind: Kind,
    subdir: bool,
    used: &mut Vec<Vec<u8>>,
) -> Vec<u8> {
    let mode = r.below(16);
    if mode < 6 {
        for _ in 0..24 {
            let n = match mode {
                0..=2 => clause_name(r),
                3 | 4 => {
                    // a name of the same kind already in the document
                    if used.is_empty() {
                        break;
                    }
                    let base = used[r.below(used.len())].clone();
                    if classify(&base) != Some(kind) {
                        continue;
                    }
                    related_name(r, kind, &base)
                }
                _ => {
                    let mut n = match kind {
                        Kind::Dist => vec![],
                        Kind::Patch => b"patch-".to_vec(),
                    };
                    n.extend_from_slice(&raw_name(r, 30, 190, false));
                    n
                }
            };
            if n.len() <= 200
                && classify(&n) == Some(kind)
                && path_plain(&n)
                && !used.iter().any(|u| *u == n)
            {
                used.push(n.clone());
                return n;
            }
        }
    }
    fresh_name(r, kind, subdir, false, used)
}

/// Like `fresh_name` with `fs_safe`, but one time in three a name built from
/// the clauses of the classification rule or a row of the classification
/// table (the names on which a second implementation of the rule is most
/// likely to differ), as far as it can be the name of a file.
pub fn fresh_name_fs(r: &mut Rng, kind: Kind, used: &mut Vec<Vec<u8>>) -> Vec<u8> {
    if r.chance(1, 3) {
        for _ in 0..24 {
            let n = if r.chance(1, 2) { clause_name(r) } else { CLASS_TABLE[r.below(CLASS_TABLE.len())].0.to_vec() };
            if n.len() <= 200
                && !n.contains(&0)
                && !n.contains(&b'/')
                && classify(&n) == Some(kind)
                && path_plain(&n)
                && !used.iter().any(|u| *u == n)
            {
                used.push(n.clone());
                return n;
            }
        }
    }
    fresh_name(r, kind, false, true, used)
}

/// Number of files of an occasional large document: above the sizes where
/// small-input strategies (insertion sort below 21 elements, inline storage,
/// linear scans) give way to the general ones.
pub fn big_count(r: &mut Rng, cap: usize) -> usize {
    let n = match r.below(8) {
        0..=4 => r.range(21, 80),
        5 => *r.pick(&[17usize, 20, 21, 22, 31, 32, 33, 63, 64, 65]),
        6 => r.range(81, 160),
        _ => r.range(161, 300),
    };
    n.min(cap)
}

// ---------------------------------------------------------------------------
// Hashes, sizes, RCS Ids
// ---------------------------------------------------------------------------

const HEX: &[u8; 16] = b"0123456789abcdef";

/// The hash text with serial number `n` and `len` hex digits: the serial in
/// the first 8 digits, the rest a fixed function of it (so the text of an
/// earlier line can be produced again).
fn hash_text(n: u32, len: usize) -> String {
    let mut s = format!("{:08x}", n);
    let mut x = Rng::new(0x9e37_79b9_7f4a_7c15 ^ n as u64);
    while s.len() < len {
        s.push(HEX[x.below(16)] as char);
    }
    s
}

/// Lower-case hex of the algorithm's length whose first 8 digits are the
/// serial number: unique per line by construction.
pub fn unique_hash(_r: &mut Rng, alg: Alg, serial: &mut u32) -> String {
    *serial += 1;
    hash_text(*serial, alg.hexlen())
}

/// A hash as it may stand in a distinfo document: `unique_hash`; one time in
/// six with its hex letters (partly) in upper case; one time in ten the text
/// of one of the three preceding lines again (the same text under another
/// algorithm of that length - SHA1 / RMD160, SHA256 / BLAKE2s - or under
/// another file, or a proper prefix / extension of it under an algorithm of
/// another length).  What is recorded and written back is the text of the
/// line, whatever it is (C10, C11); C12, where the value of a recorded hash
/// matters, does not use this.
pub fn doc_hash(r: &mut Rng, alg: Alg, serial: &mut u32) -> String {
    if *serial > 0 && r.chance(1, 10) {
        let back = r.range(1, 3).min(*serial as usize) as u32;
        return hash_text(*serial + 1 - back, alg.hexlen());
    }
    let h = unique_hash(r, alg, serial);
    match r.below(12) {
        0 => h.to_ascii_uppercase(),
        1 => h.chars().map(|c| if r.chance(1, 2) { c.to_ascii_uppercase() } else { c }).collect(),
        _ => h,
    }
}

pub fn gen_size(r: &mut Rng) -> u64 {
    match r.below(10) {
        0 => 0,
        1 => u64::MAX,
        2 => (1u64 << 32).wrapping_add(r.below(5) as u64).wrapping_sub(2),
        3 => r.next(),
        4 => r.next() >> r.below(64),
        5 => u64::MAX - r.below(10) as u64,
        _ => r.below(50_000_000) as u64,
    }
}

fn bytes_no_lf(r: &mut Rng, n: usize) -> Vec<u8> {
    (0..n)
        .map(|_| loop {
            let b = r.byte();
            if b != b'\n' {
                return b;
            }
        })
        .collect()
}

const USERS: [&[u8]; 7] =
    [b"jperkin", b"riastradh", b"wiz", b"j\xf6rg", b"t\xe9l\xe9", b"\xc3\xa9ric", b"u\xff\xfe"];

/// `$NetBSD: ` + arbitrary bytes without LF.
pub fn expanded_rcsid(r: &mut Rng) -> Vec<u8> {
    let mut v = b"$NetBSD: ".to_vec();
    match r.below(4) {
        0 | 1 => {
            v.extend_from_slice(
                format!(
                    "distinfo,v 1.{} 20{:02}/{:02}/{:02} {:02}:{:02}:{:02} ",
                    r.below(300),
                    r.below(30),
                    r.range(1, 12),
                    r.range(1, 28),
                    r.below(24),
                    r.below(60),
                    r.below(60)
                )
                .as_bytes(),
            );
            v.extend_from_slice(USERS[r.below(USERS.len())]);
            v.extend_from_slice(b" Exp $");
            if r.chance(1, 4) {
                for _ in 0..r.range(1, 3) {
                    v.push(*r.pick(b" \t"));
                }
            }
        }
        2 => {
            let n = r.below(40);
            v.extend_from_slice(&bytes_no_lf(r, n));
        }
        _ => {
            let n = r.below(12);
            v.extend_from_slice(&bytes_no_lf(r, n));
            v.extend_from_slice(b" $");
        }
    }
    v
}

fn alg_subset(r: &mut Rng, allow_empty: bool) -> Vec<Alg> {
    let mut a = ALGS.to_vec();
    r.shuffle(&mut a);
    let n = if allow_empty { r.below(7) } else { r.range(1, 6) };
    a.truncate(n);
    a
}

// ---------------------------------------------------------------------------
// C10 documents
// ---------------------------------------------------------------------------

/// RCS Id of a generated document: usually `expanded_rcsid`, now and then a
/// long one (200-400 bytes).
fn doc_rcsid(r: &mut Rng) -> Vec<u8> {
    let mut v = expanded_rcsid(r);
    if r.chance(1, 40) {
        let n = r.range(200, 400);
        v.extend_from_slice(&bytes_no_lf(r, n));
    }
    v
}

fn file_model(r: &mut Rng, name: Vec<u8>, kind: Kind, serial: &mut u32, size: Option<u64>, allow_empty: bool) -> FileModel {
    let sums =
        alg_subset(r, allow_empty).into_iter().map(|a| (a, doc_hash(r, a, serial))).collect();
    FileModel { name, kind, sums, size }
}

/// How many distfiles and patches a document has.  `big` = a large document
/// (`big_count` files in total, split anywhere including all of one kind).
fn doc_counts(r: &mut Rng, big: Option<usize>) -> (usize, usize) {
    match big {
        None => (r.below(6), r.below(5)),
        Some(cap) => {
            let n = big_count(r, cap);
            let nd = match r.below(6) {
                0 => n,
                1 => 0,
                2 => n - 1,
                3 => 1,
                _ => r.range(0, n),
            };
            (nd, n - nd)
        }
    }
}

/// A canonical document: RCS Id (or unexpanded), 0-5 distfiles each with a
/// non-empty subset/order of algorithms and a size, 0-4 patches without size;
/// with `big`, up to that many files in total.
pub fn canonical_doc(r: &mut Rng, big: Option<usize>) -> DocModel {
    let mut m = DocModel::default();
    m.rcsid = if r.chance(1, 6) { None } else { Some(doc_rcsid(r)) };
    let mut used = vec![];
    let mut serial = 0u32;
    let (nd, np) = doc_counts(r, big);
    for _ in 0..nd {
        let name = fresh_name_rich(r, Kind::Dist, true, &mut used);
        let size = Some(gen_size(r));
        m.dist.push(file_model(r, name, Kind::Dist, &mut serial, size, false));
    }
    for _ in 0..np {
        let name = fresh_name_rich(r, Kind::Patch, false, &mut used);
        m.patch.push(file_model(r, name, Kind::Patch, &mut serial, None, false));
    }
    m
}

pub const API_SHAPES: [&str; 7] = [
    "random-interleaving",
    "patches-then-distfiles",
    "distfiles-then-patches",
    "alternating",
    "blocks",
    "lone-patch-among-distfiles",
    "lone-distfile-among-patches",
];

/// A document to be assembled through the API.
pub struct ApiDoc {
    /// What the finished object must contain (per-kind order = order of
    /// arrival: the parsed base first, then the insertions).
    pub model: DocModel,
    /// Canonical text parsed first with `from_bytes` (then extended with
    /// `insert`), or `None` for `Distinfo::new()`.
    pub base: Option<DocModel>,
    /// The `insert()` sequence.
    pub order: Vec<FileModel>,
    /// `set_rcsid(value)` is called before the insertion with this index
    /// (`order.len()` = after the last one).
    pub set_rcsid: Option<(usize, Vec<u8>)>,
    /// Write + parse + compare also before the insertion with this index.
    pub probe_at: Option<usize>,
    pub shape: &'static str,
}

/// The kinds of the inserted entries, in insertion order.
fn api_kinds(r: &mut Rng, n: usize, shape: usize) -> Vec<Kind> {
    use Kind::{Dist, Patch};
    let np = if n < 2 { r.below(n + 1) } else { r.range(1, n - 1) };
    match shape {
        1 => (0..n).map(|i| if i < np { Patch } else { Dist }).collect(),
        2 => (0..n).map(|i| if i < n - np { Dist } else { Patch }).collect(),
        3 => {
            let first = r.below(2);
            (0..n).map(|i| if (i + first) % 2 == 0 { Patch } else { Dist }).collect()
        }
        4 => {
            let mut v = vec![];
            let mut k = if r.chance(1, 2) { Patch } else { Dist };
            while v.len() < n {
                for _ in 0..r.range(1, 9) {
                    v.push(k);
                }
                k = if k == Patch { Dist } else { Patch };
            }
            v.truncate(n);
            v
        }
        5 | 6 => {
            let (many, lone) = if shape == 5 { (Dist, Patch) } else { (Patch, Dist) };
            let mut v = vec![many; n];
            if n >= 2 {
                // anywhere but the "already partitioned" end
                let at = if shape == 5 { r.below(n - 1) } else { r.range(1, n - 1) };
                v[at] = lone;
            }
            v
        }
        _ => (0..n).map(|_| if r.chance(2, 5) { Patch } else { Dist }).collect(),
    }
}

/// Every entry has at least one line; patch entries have no size.  With
/// `big`, the finished document has up to that many files.
pub fn api_doc(r: &mut Rng, big: Option<usize>) -> ApiDoc {
    let mut used = vec![];
    let mut serial = 0u32;
    let total = match big {
        None => r.range(1, 8),
        Some(cap) => big_count(r, cap),
    };
    // a parsed base document in a quarter of the cases
    let mut base: Option<DocModel> = None;
    let mut n = total;
    if r.chance(1, 4) {
        let mut b = DocModel::default();
        b.rcsid = if r.chance(1, 3) { None } else { Some(doc_rcsid(r)) };
        let nb = r.range(0, total.saturating_sub(1));
        let nd = match r.below(4) {
            0 => nb,
            1 => 0,
            _ => r.range(0, nb),
        };
        for i in 0..nb {
            let kind = if i < nd { Kind::Dist } else { Kind::Patch };
            let name = fresh_name_rich(r, kind, kind == Kind::Dist, &mut used);
            let size = if kind == Kind::Dist { Some(gen_size(r)) } else { None };
            let f = file_model(r, name, kind, &mut serial, size, false);
            match kind {
                Kind::Dist => b.dist.push(f),
                Kind::Patch => b.patch.push(f),
            }
        }
        n = total - nb;
        base = Some(b);
    }
    let shape = if n >= 3 && (big.is_some() || r.chance(1, 2)) { r.below(API_SHAPES.len()) } else { 0 };
    let kinds = api_kinds(r, n, shape);
    let mut order = vec![];
    for kind in kinds {
        let name = fresh_name_rich(r, kind, kind == Kind::Dist, &mut used);
        let (allow_empty, size) = match kind {
            Kind::Patch => (false, None),
            Kind::Dist => match r.below(6) {
                0 => (false, None),
                1 => (true, Some(gen_size(r))),
                _ => (false, Some(gen_size(r))),
            },
        };
        order.push(file_model(r, name, kind, &mut serial, size, allow_empty));
    }
    let set_rcsid = if r.chance(1, 4) {
        None
    } else {
        let at = match r.below(4) {
            0 | 1 => 0,
            2 => order.len(),
            _ => r.below(order.len() + 1),
        };
        Some((at, doc_rcsid(r)))
    };
    let probe_at = if r.chance(1, 5) { Some(r.below(order.len() + 1)) } else { None };
    let mut m = base.clone().unwrap_or_default();
    if let Some((_, v)) = &set_rcsid {
        m.rcsid = Some(v.clone());
    }
    for f in &order {
        match f.kind {
            Kind::Dist => m.dist.push(f.clone()),
            Kind::Patch => m.patch.push(f.clone()),
        }
    }
    ApiDoc { model: m, base, order, set_rcsid, probe_at, shape: API_SHAPES[shape] }
}

// ---------------------------------------------------------------------------
// C11 documents
// ---------------------------------------------------------------------------

#[derive(Clone, Copy, Debug, PartialEq, Eq)]
pub enum LineClass {
    WSum,
    WSize,
    Comment,
    CommentedW,
    Blank,
    UnknownAlg,
    BadSize,
    GarbageFirst,
    GarbageParen,
    Unexpanded,
    RcsId,
}

pub const LINE_CLASSES: [LineClass; 11] = [
    LineClass::WSum,
    LineClass::WSize,
    LineClass::Comment,
    LineClass::CommentedW,
    LineClass::Blank,
    LineClass::UnknownAlg,
    LineClass::BadSize,
    LineClass::GarbageFirst,
    LineClass::GarbageParen,
    LineClass::Unexpanded,
    LineClass::RcsId,
];

impl LineClass {
    pub fn name(self) -> &'static str {
        match self {
            LineClass::WSum => "W-checksum",
            LineClass::WSize => "W-size",
            LineClass::Comment => "I-comment",
            LineClass::CommentedW => "I-commented-out-line",
            LineClass::Blank => "I-blank",
            LineClass::UnknownAlg => "I-unknown-algorithm",
            LineClass::BadSize => "I-unparsable-size",
            LineClass::GarbageFirst => "I-garbage-first-field",
            LineClass::GarbageParen => "I-garbage-name-not-parenthesised",
            LineClass::Unexpanded => "I-unexpanded-rcsid",
            LineClass::RcsId => "N-rcsid",
        }
    }
}

/// One or more blanks/tabs.
fn gap(r: &mut Rng) -> Vec<u8> {
    match r.below(4) {
        0 | 1 => b" ".to_vec(),
        2 => b"\t".to_vec(),
        _ => (0..r.range(2, 4)).map(|_| *r.pick(b" \t")).collect(),
    }
}

/// Zero or more leading blanks/tabs.
fn lead(r: &mut Rng) -> Vec<u8> {
    if r.chance(3, 4) {
        vec![]
    } else {
        (0..r.range(1, 4)).map(|_| *r.pick(b" \t")).collect()
    }
}

fn fields(r: &mut Rng, fs: &[&[u8]]) -> Vec<u8> {
    let mut l = lead(r);
    for (i, f) in fs.iter().enumerate() {
        if i > 0 {
            l.extend_from_slice(&gap(r));
        }
        l.extend_from_slice(f);
    }
    l
}

fn paren(name: &[u8]) -> Vec<u8> {
    let mut v = Vec::with_capacity(name.len() + 2);
    v.push(b'(');
    v.extend_from_slice(name);
    v.push(b')');
    v
}

/// A well-formed checksum line (without LF) with free spacing.
pub fn w_sum_line(r: &mut Rng, alg: Alg, name: &[u8], hash: &str) -> Vec<u8> {
    fields(r, &[alg.keyword().as_bytes(), &paren(name), b"=", hash.as_bytes()])
}

/// A well-formed size line (without LF) with free spacing.
pub fn w_size_line(r: &mut Rng, name: &[u8], size: u64) -> Vec<u8> {
    fields(r, &[b"Size", &paren(name), b"=", size.to_string().as_bytes(), b"bytes"])
}

const UNKNOWN_ALGS: [&[u8]; 18] = [
    b"SHA3",
    b"CRC32",
    b"SHA-1",
    b"SHA384",
    b"SHA224",
    b"MD4",
    b"WHIRLPOOL",
    b"TIGER",
    b"BLAKE2b",
    b"BLAKE3",
    b"SHA3-256",
    b"RMD128",
    b"SHA5120",
    b"SHA11",
    b"XSHA1",
    b"SHA",
    b"MD",
    b"BLAKE2",
];
const BAD_SIZES: [&[u8]; 18] = [
    // what is left of a number when its digits are taken away, and signs in
    // the wrong place (a hand-written digit fold accepts some of them)
    b"+",
    b"++5",
    b"+-5",
    b"5+",
    b"+x",
    b"\xef\xbc\x95",
    b"abc",
    b"-1",
    b"1.5",
    b"18446744073709551616",
    b"99999999999999999999999999",
    b"1e3",
    b"0x10",
    b"1,000",
    b"12abc",
    b"1_000",
    b"ten",
    b"-",
];
const WORDS: [&[u8]; 12] = [
    b"hello",
    b"world",
    b"=",
    b"checksum",
    b"file:",
    b"<<<<<<<",
    b"=======",
    b"\xff\xfe",
    b"SHA1\xff",
    b"Size\xe9",
    b"S\xc3\xa0",
    b"--",
];

/// A must-ignore line (without LF).  `names` are names that carry (or will
/// carry) well-formed lines in the same document, `ghost` is a name that has
/// none: an ignored line that is wrongly honoured changes an existing entry
/// or creates the ghost.
pub fn ignore_line(
    r: &mut Rng,
    names: &[Vec<u8>],
    ghost: &[u8],
    serial: &mut u32,
) -> (Vec<u8>, LineClass) {
    let name: &[u8] = if names.is_empty() || r.chance(1, 4) { ghost } else { &names[r.below(names.len())][..] };
    let alg = *r.pick(&ALGS);
    match r.below(12) {
        0 => {
            let mut l = lead(r);
            l.push(b'#');
            match r.below(3) {
                0 => {}
                1 => l.extend_from_slice(b" a comment about (something) = else"),
                _ => {
                    let n = r.below(20);
                    l.extend_from_slice(&bytes_no_lf(r, n));
                }
            }
            (l, LineClass::Comment)
        }
        1 | 2 => {
            let mut l = lead(r);
            l.push(b'#');
            if r.chance(1, 2) {
                l.push(b' ');
            }
            if r.chance(1, 4) {
                let n = gen_size(r);
                l.extend_from_slice(&w_size_line(r, name, n));
            } else {
                let h = doc_hash(r, alg, serial);
                l.extend_from_slice(&w_sum_line(r, alg, name, &h));
            }
            (l, LineClass::CommentedW)
        }
        3 => {
            let l = match r.below(4) {
                0 | 1 => vec![],
                _ => (0..r.range(1, 4)).map(|_| *r.pick(b" \t")).collect(),
            };
            (l, LineClass::Blank)
        }
        4 | 5 => {
            let h = doc_hash(r, alg, serial);
            if r.chance(1, 3) {
                // a byte-level near miss of a supported keyword (one bit of one
                // byte flipped, e.g. a digit turned into the control byte that
                // `c | 0x20` folds back onto it)
                static NEAR: std::sync::OnceLock<Vec<Vec<u8>>> = std::sync::OnceLock::new();
                let near = NEAR.get_or_init(|| {
                    crate::gen::digest::near_names()
                        .into_iter()
                        .map(|s| s.into_bytes())
                        .filter(|b| {
                            !b.is_empty()
                                && b.iter().all(|c| name_byte_ok(*c) && *c != 0)
                                && !Alg::is_keyword_any_case(b)
                                && !b.eq_ignore_ascii_case(b"size")
                                && b[0] != b'#'
                                && !b.starts_with(b"$NetBSD")
                        })
                        .collect()
                });
                let a = r.pick(near);
                return (fields(r, &[a, &paren(name), b"=", h.as_bytes()]), LineClass::UnknownAlg);
            }
            let a = r.pick(&UNKNOWN_ALGS);
            (fields(r, &[a, &paren(name), b"=", h.as_bytes()]), LineClass::UnknownAlg)
        }
        6 | 7 => {
            if r.chance(1, 3) {
                // a Size line cut short after any of its fields: there is no
                // size to parse (whatever an earlier line's fields were)
                let l = match r.below(4) {
                    0 => fields(r, &[b"Size", &paren(name), b"="]),
                    1 => fields(r, &[b"Size", &paren(name)]),
                    2 => fields(r, &[b"Size"]),
                    _ => fields(r, &[b"Size", &paren(name), b"=", b"", b"bytes"]),
                };
                return (l, LineClass::BadSize);
            }
            let v = r.pick(&BAD_SIZES);
            (fields(r, &[b"Size", &paren(name), b"=", v, b"bytes"]), LineClass::BadSize)
        }
        8 | 9 => {
            // first field is not a keyword (in any letter case), not a
            // comment, not an RCS Id
            let mut first: Vec<u8> = match r.below(3) {
                0 => r.pick(&WORDS).to_vec(),
                1 => paren(name),
                _ => raw_name(r, 1, 8, false),
            };
            if Alg::is_keyword_any_case(&first)
                || first.starts_with(b"#")
                || first.starts_with(b"$NetBSD")
            {
                first.insert(0, b'x');
            }
            let h = doc_hash(r, alg, serial);
            let word: &[u8] = WORDS[r.below(WORDS.len())];
            let l = match r.below(3) {
                0 => fields(r, &[&first, &paren(name), b"=", h.as_bytes()]),
                1 => fields(r, &[&first, alg.keyword().as_bytes(), &paren(name), b"=", h.as_bytes()]),
                _ => fields(r, &[&first, word]),
            };
            (l, LineClass::GarbageFirst)
        }
        10 => {
            // keyword, then a second field that is not parenthesised
            let second: Vec<u8> = match r.below(3) {
                0 => name.to_vec(),
                1 => {
                    let mut v = vec![b'('];
                    v.extend_from_slice(name);
                    v
                }
                _ => {
                    let mut v = name.to_vec();
                    v.push(b')');
                    v
                }
            };
            if second.first() == Some(&b'(') && second.last() == Some(&b')') {
                // would be a parenthesised field after all
                return (vec![], LineClass::Blank);
            }
            let l = if r.chance(1, 4) {
                fields(r, &[b"Size", &second, b"=", b"5", b"bytes"])
            } else {
                let h = doc_hash(r, alg, serial);
                fields(r, &[alg.keyword().as_bytes(), &second, b"=", h.as_bytes()])
            };
            (l, LineClass::GarbageParen)
        }
        _ => (fields(r, &[b"$NetBSD$"]), LineClass::Unexpanded),
    }
}

pub struct C11Doc {
    pub text: Vec<u8>,
    pub model: DocModel,
    pub classes: Vec<LineClass>,
    pub nfiles: usize,
    /// some file's well-formed lines are separated by another file's
    pub interleaved: bool,
    pub ignored: usize,
    pub high_byte_name: bool,
}

struct WLine {
    file: usize,
    size: Option<u64>,
    sum: Option<(Alg, String)>,
}

/// 1-6 files (with `big`: up to that many); their well-formed lines
/// interleaved arbitrarily; must-ignore lines inserted at every position.
pub fn c11_doc(r: &mut Rng, big: Option<usize>) -> C11Doc {
    let nfiles = match big {
        None => r.range(1, 6),
        Some(cap) => big_count(r, cap),
    };
    let mut used = vec![];
    let mut names: Vec<(Vec<u8>, Kind)> = vec![];
    for _ in 0..nfiles {
        let kind = if r.chance(2, 5) { Kind::Patch } else { Kind::Dist };
        let n = fresh_name_rich(r, kind, kind == Kind::Dist, &mut used);
        names.push((n, kind));
    }
    c11_build(r, names, used)
}

/// The shared-tail class: a chain of 2-4 names each of which is a trailing
/// sub-path of the next (`foo.tgz`, `sub/foo.tgz`, `a/sub/foo.tgz`; `b/f`,
/// `a/b/f`), optionally a sibling (`other/foo.tgz`) and up to two unrelated
/// files, in random order of first appearance; each line must land on exactly
/// its own entry.  (All names of a chain have the same last component, so
/// they are of the same kind under every reading that looks at it; a patch
/// chain uses directories called `patch-...` so that the whole-name reading
/// agrees.)
pub fn shared_tail_doc(r: &mut Rng) -> C11Doc {
    let mut used: Vec<Vec<u8>> = vec![];
    let kind = if r.chance(1, 3) { Kind::Patch } else { Kind::Dist };
    let mut chain: Vec<Vec<u8>> = vec![];
    let with_dir = kind == Kind::Dist && r.chance(1, 3);
    let base = fresh_name(r, kind, with_dir, false, &mut used);
    chain.push(base);
    let links = match r.below(6) {
        0..=2 => 1,
        3 | 4 => 2,
        _ => 3,
    };
    for _ in 0..links {
        let prev = chain[chain.len() - 1].clone();
        let mut next = None;
        for _ in 0..32 {
            let mut p = vec![];
            for _ in 0..r.range(1, 2) {
                p.extend_from_slice(&related_dir(r, kind));
                p.push(b'/');
            }
            p.extend_from_slice(&prev);
            if p.len() <= 200 && classify(&p) == Some(kind) && path_plain(&p) && !used.contains(&p) {
                next = Some(p);
                break;
            }
        }
        let Some(p) = next else { break };
        used.push(p.clone());
        chain.push(p);
    }
    if r.chance(1, 3) {
        // a sibling: another directory over some member of the chain
        let under = chain[r.below(chain.len())].clone();
        for _ in 0..32 {
            let mut p = related_dir(r, kind);
            p.push(b'/');
            p.extend_from_slice(&under);
            if p.len() <= 200 && classify(&p) == Some(kind) && path_plain(&p) && !used.contains(&p) {
                used.push(p.clone());
                chain.push(p);
                break;
            }
        }
    }
    let mut names: Vec<(Vec<u8>, Kind)> = chain.into_iter().map(|n| (n, kind)).collect();
    for _ in 0..r.below(3) {
        let k = if r.chance(2, 5) { Kind::Patch } else { Kind::Dist };
        let n = fresh_name_rich(r, k, k == Kind::Dist, &mut used);
        names.push((n, k));
    }
    r.shuffle(&mut names);
    c11_build(r, names, used)
}

fn c11_build(r: &mut Rng, names: Vec<(Vec<u8>, Kind)>, mut used: Vec<Vec<u8>>) -> C11Doc {
    let nfiles = names.len();
    let mut serial = 0u32;
    let ghost_kind = if r.chance(1, 3) { Kind::Patch } else { Kind::Dist };
    let ghost = fresh_name(r, ghost_kind, false, false, &mut used);
    let mut lines: Vec<WLine> = vec![];
    for (i, _) in names.iter().enumerate() {
        let with_size = r.chance(3, 5);
        let algs = alg_subset(r, with_size);
        let mut own: Vec<WLine> = algs
            .into_iter()
            .map(|a| WLine { file: i, size: None, sum: Some((a, doc_hash(r, a, &mut serial))) })
            .collect();
        // Sometimes an algorithm occurs twice (or three times) for one file:
        // the statement records *each* recognised line, in line order.
        if !own.is_empty() && r.chance(1, 4) {
            for _ in 0..r.range(1, 2) {
                let k = r.below(own.len());
                if let Some((a, _)) = own[k].sum.clone() {
                    own.push(WLine { file: i, size: None, sum: Some((a, doc_hash(r, a, &mut serial))) });
                }
            }
        }
        if with_size {
            let pos = r.below(own.len() + 1);
            own.insert(pos, WLine { file: i, size: Some(gen_size(r)), sum: None });
        }
        lines.extend(own);
    }
    // Arbitrary interleaving: most documents fully shuffled, some grouped
    // (files in order), some with only neighbouring swaps.
    match r.below(4) {
        0 => {}
        1 => {
            for i in 1..lines.len() {
                if r.chance(1, 3) {
                    lines.swap(i - 1, i);
                }
            }
        }
        _ => r.shuffle(&mut lines),
    }
    let mut interleaved = false;
    for i in 0..nfiles {
        let pos: Vec<usize> =
            lines.iter().enumerate().filter(|(_, l)| l.file == i).map(|(k, _)| k).collect();
        if let (Some(a), Some(b)) = (pos.first(), pos.last()) {
            if b - a + 1 != pos.len() {
                interleaved = true;
            }
        }
    }
    let plain_names: Vec<Vec<u8>> = names.iter().map(|(n, _)| n.clone()).collect();
    let ignore_rate = r.range(0, 3); // 0: none, else p = rate/3 per slot (repeated)
    let mut text = vec![];
    let mut classes = vec![];
    let mut model = DocModel::default();
    let mut ignored = 0;
    let mut rcs_done = false;
    let mut slot = |r: &mut Rng,
                    text: &mut Vec<u8>,
                    classes: &mut Vec<LineClass>,
                    serial: &mut u32,
                    ignored: &mut usize| {
        let mut k = 0;
        while k < 3 && r.below(3) < ignore_rate {
            k += 1;
            if !rcs_done && r.chance(1, 12) {
                rcs_done = true;
                text.extend_from_slice(&expanded_rcsid(r));
                text.push(b'\n');
                classes.push(LineClass::RcsId);
                continue;
            }
            let (l, c) = ignore_line(r, &plain_names, &ghost, serial);
            text.extend_from_slice(&l);
            text.push(b'\n');
            classes.push(c);
            *ignored += 1;
        }
    };
    for l in &lines {
        slot(r, &mut text, &mut classes, &mut serial, &mut ignored);
        let (name, kind) = &names[l.file];
        if let Some(n) = l.size {
            text.extend_from_slice(&w_size_line(r, name, n));
            model.apply(name, *kind, Rec::Size(n));
            classes.push(LineClass::WSize);
        } else if let Some((a, h)) = &l.sum {
            text.extend_from_slice(&w_sum_line(r, *a, name, h));
            model.apply(name, *kind, Rec::Sum(*a, h));
            classes.push(LineClass::WSum);
        }
        text.push(b'\n');
    }
    slot(r, &mut text, &mut classes, &mut serial, &mut ignored);
    let high_byte_name = names.iter().any(|(n, _)| n.iter().any(|&b| b >= 0x80));
    C11Doc { text, model, classes, nfiles, interleaved, ignored, high_byte_name }
}

/// Classification table of DESIGN C11 (name, expected kind, row label).
pub const CLASS_TABLE: [(&[u8], Kind, &str); 48] = [
    (b"patch-aa", Kind::Patch, "patch-aa"),
    (b"patch-", Kind::Patch, "patch-"),
    (b"emul-linux-patch-x", Kind::Patch, "emul-linux-patch-x"),
    (b"emul-foo", Kind::Dist, "emul-foo"),
    (b"patch-local-x", Kind::Dist, "patch-local-x"),
    (b"patch-aa.orig", Kind::Dist, "patch-aa.orig"),
    (b"patch-aa.rej", Kind::Dist, "patch-aa.rej"),
    (b"patch-aa~", Kind::Dist, "patch-aa~"),
    (b"patch-2.7.6.tar.xz", Kind::Dist, "patch-2.7.6.tar.xz"),
    (b"foo.patch-1", Kind::Dist, "foo.patch-1"),
    (b"mypatch-aa", Kind::Dist, "mypatch-aa"),
    (b"patch-local-", Kind::Dist, "patch-local-"),
    (b"emul-linux-patch-x.orig", Kind::Dist, "emul-linux-patch-x.orig"),
    (b"emul-linux-patch-x.rej", Kind::Dist, "emul-linux-patch-x.rej"),
    (b"emul-linux-patch-x~", Kind::Dist, "emul-linux-patch-x~"),
    (b"emul-linux-patch-2.tar.gz", Kind::Dist, "emul-linux-patch-2.tar.gz"),
    (b"foo-patch-x", Kind::Dist, "foo-patch-x"),
    (b"patch", Kind::Dist, "patch"),
    (b"patch_aa", Kind::Dist, "patch_aa"),
    (b"emul-linux-patchx", Kind::Dist, "emul-linux-patchx"),
    (b"patch-aa.original", Kind::Patch, "patch-aa.original"),
    (b"patch-localx", Kind::Patch, "patch-localx"),
    (b"emul-linux-patch-local-x", Kind::Patch, "emul-linux-patch-local-x"),
    (b"emul-netbsd32-patch-local-paths.c", Kind::Patch, "emul-netbsd32-patch-local-paths.c"),
    (b"emul-linux-patch-local-", Kind::Patch, "emul-linux-patch-local-"),
    (b"emul-linux-patch-", Kind::Patch, "emul-linux-patch-"),
    (b"emul-linux-patch-local-x.orig", Kind::Dist, "emul-linux-patch-local-x.orig"),
    (b"emul-linux-patch-local-x.tar.gz", Kind::Dist, "emul-linux-patch-local-x.tar.gz"),
    (b"emul-linux-patch-1.tar.gz", Kind::Dist, "emul-linux-patch-1.tar.gz"),
    (b"emul-linux-patch-x.tar.gz.orig", Kind::Dist, "emul-linux-patch-x.tar.gz.orig"),
    (b"patch-local-x.orig", Kind::Dist, "patch-local-x.orig"),
    (b"patch-local-x.rej", Kind::Dist, "patch-local-x.rej"),
    (b"patch-local-x~", Kind::Dist, "patch-local-x~"),
    (b"patch-local-1.tar.gz", Kind::Dist, "patch-local-1.tar.gz"),
    (b"patch-aa.tar.gz.orig", Kind::Dist, "patch-aa.tar.gz.orig"),
    (b"patch-aa.orig.rej", Kind::Dist, "patch-aa.orig.rej"),
    (b"patch-aa.orig~", Kind::Dist, "patch-aa.orig~"),
    (b"patch-aa.orig.c", Kind::Patch, "patch-aa.orig.c"),
    (b"patch-aa~1", Kind::Patch, "patch-aa~1"),
    (b"patch-patch-local-x", Kind::Patch, "patch-patch-local-x"),
    (b"foo-patch-local-x", Kind::Dist, "foo-patch-local-x"),
    (b"foo-emul-linux-patch-x", Kind::Dist, "foo-emul-linux-patch-x"),
    (b"mypatch-local-x", Kind::Dist, "mypatch-local-x"),
    (b"Patch-aa", Kind::Dist, "Patch-aa"),
    (b"PATCH-aa", Kind::Dist, "PATCH-aa"),
    (b"Emul-linux-patch-x", Kind::Dist, "Emul-linux-patch-x"),
    (b"emul-linux-Patch-x", Kind::Dist, "emul-linux-Patch-x"),
    (b"patch-Local-x", Kind::Patch, "patch-Local-x"),
];

/// A variant of a table row: 1-4 name bytes inserted at an inner position.
/// The expectation is the oracle's; variants that are ambiguous under some
/// reading of the rule are not produced.
pub fn table_variant(r: &mut Rng, row: usize) -> Option<(Vec<u8>, Kind)> {
    let mut v = CLASS_TABLE[row].0.to_vec();
    let ins = raw_name(r, 1, 4, false);
    let at = r.range(1, v.len() - 1);
    let tail = v.split_off(at);
    v.extend_from_slice(&ins);
    v.extend_from_slice(&tail);
    match classify(&v) {
        Some(k) if path_plain(&v) => Some((v, k)),
        _ => None,
    }
}

pub struct AliasDoc {
    pub text: Vec<u8>,
    pub first: Vec<u8>,
    pub second: Vec<u8>,
    /// what the statement promises: two entries
    pub separate: DocModel,
    /// known finding K2: the second name's lines appended to the first's entry
    pub merged: DocModel,
    pub form: &'static str,
}

const ALIAS_FORMS: [&str; 6] = ["plain", "double-slash", "dot", "trailing-slash", "trailing-dot", "triple-slash"];

fn alias_form(form: usize, dirs: &[Vec<u8>], base: &[u8]) -> Vec<u8> {
    let mut v = vec![];
    for (i, d) in dirs.iter().enumerate() {
        v.extend_from_slice(d);
        // the variation is applied at the last separator
        if i + 1 == dirs.len() {
            match form {
                1 => v.extend_from_slice(b"//"),
                2 => v.extend_from_slice(b"/./"),
                5 => v.extend_from_slice(b"///"),
                _ => v.push(b'/'),
            }
        } else {
            v.push(b'/');
        }
    }
    v.extend_from_slice(base);
    match form {
        3 => v.push(b'/'),
        4 => v.extend_from_slice(b"/."),
        _ => {}
    }
    v
}

/// The alias workload of known finding K2: two byte-distinct names that
/// `Path` considers equal, all lines of the first before all lines of the
/// second, other files' lines anywhere.
pub fn alias_doc(r: &mut Rng) -> AliasDoc {
    let mut used = vec![];
    let mut serial = 0u32;
    let ndirs = r.range(1, 2);
    let dirs: Vec<Vec<u8>> = (0..ndirs)
        .map(|_| {
            if r.chance(1, 2) {
                r.pick(&DIRS).to_vec()
            } else {
                let mut d = raw_name(r, 1, 4, false);
                d.insert(0, b'd');
                d
            }
        })
        .collect();
    let mut base = b"f".to_vec();
    base.extend_from_slice(&raw_name(r, 1, 5, false));
    base.extend_from_slice(b".tgz");
    let fa = r.below(ALIAS_FORMS.len());
    let mut fb = r.below(ALIAS_FORMS.len() - 1);
    if fb >= fa {
        fb += 1;
    }
    let first = alias_form(fa, &dirs, &base);
    let second = alias_form(fb, &dirs, &base);
    used.push(first.clone());
    used.push(second.clone());
    used.push(alias_form(0, &dirs, &base));
    let form = if fa == 0 { ALIAS_FORMS[fb] } else if fb == 0 { ALIAS_FORMS[fa] } else { "both-decorated" };

    // lines of the two alias names: A's first, then B's; at most one Size
    let size_on = r.below(3); // 0: A, 1: B, 2: none
    let mut main: Vec<(usize, WLine)> = vec![];
    for (who, _) in [(0usize, &first), (1usize, &second)] {
        let algs = alg_subset(r, false);
        let n = algs.len().min(3);
        let mut own: Vec<WLine> = algs[..n]
            .iter()
            .map(|a| WLine { file: who, size: None, sum: Some((*a, doc_hash(r, *a, &mut serial))) })
            .collect();
        if size_on == who {
            let pos = r.below(own.len() + 1);
            own.insert(pos, WLine { file: who, size: Some(gen_size(r)), sum: None });
        }
        for l in own {
            main.push((who, l));
        }
    }
    // other files
    let nother = r.below(3);
    let mut others: Vec<(Vec<u8>, Kind)> = vec![];
    for _ in 0..nother {
        let kind = if r.chance(1, 3) { Kind::Patch } else { Kind::Dist };
        others.push((fresh_name(r, kind, false, false, &mut used), kind));
    }
    let mut other_lines: Vec<WLine> = vec![];
    for (i, _) in others.iter().enumerate() {
        for a in alg_subset(r, false).into_iter().take(2) {
            other_lines.push(WLine { file: 2 + i, size: None, sum: Some((a, doc_hash(r, a, &mut serial))) });
        }
    }
    // merge: main keeps its order, others are dropped in at random positions
    let mut all: Vec<WLine> = main.into_iter().map(|(_, l)| l).collect();
    for l in other_lines {
        let pos = r.below(all.len() + 1);
        all.insert(pos, l);
    }
    let mut text = vec![];
    let mut separate = DocModel::default();
    let mut merged = DocModel::default();
    for l in &all {
        let (name, kind): (&[u8], Kind) = match l.file {
            0 => (&first, Kind::Dist),
            1 => (&second, Kind::Dist),
            k => (&others[k - 2].0, others[k - 2].1),
        };
        let merged_name: &[u8] = if l.file == 1 { &first } else { name };
        if let Some(n) = l.size {
            text.extend_from_slice(&w_size_line(r, name, n));
            separate.apply(name, kind, Rec::Size(n));
            merged.apply(merged_name, kind, Rec::Size(n));
        } else if let Some((a, h)) = &l.sum {
            text.extend_from_slice(&w_sum_line(r, *a, name, h));
            separate.apply(name, kind, Rec::Sum(*a, h));
            merged.apply(merged_name, kind, Rec::Sum(*a, h));
        }
        text.push(b'\n');
    }
    AliasDoc { text, first, second, separate, merged, form }
}

// ---------------------------------------------------------------------------
// C12: file contents
// ---------------------------------------------------------------------------

const PATCH_LINES: [&[u8]; 14] = [
    b"--- Makefile.orig\t2024-01-01 00:00:00.000000000 +0000",
    b"+++ Makefile",
    b"@@ -1,3 +1,4 @@",
    b" context line",
    b"+added line",
    b"-removed line",
    b"",
    b" ",
    b"\\ No newline at end of file",
    b"binary \x00\x01\xff\xfe line",
    b"caf\xe9 \xc3\xa0",
    b"trailing CR\r",
    b"Fix build on SunOS.",
    b"+\tprintf(\"%s\\n\", s);",
];
pub const NETBSD_LINES: [&[u8]; 11] = [
    // the marker directly behind a proper prefix of itself (a hand-written
    // single-pass matcher that does not re-examine the mismatching byte)
    b"$$NetBSD$$",
    b"+.include \"$Net$NetBSD: x $\"",
    b"$NetBS$NetBSD",
    b"$N$Ne$Net$NetB$NetBSD",
    b"$NetBSD: patch-aa,v 1.3 2024/05/27 23:27:10 riastradh Exp $",
    b"$NetBSD$",
    b"# $NetBSD: Makefile,v 1.1 2001/01/01 00:00:00 j\xf6rg Exp $",
    b"/* $NetBSD$ */",
    b"x$NetBSDy",
    b"+ * $NetBSD: foo.c,v 1.2 $ and again $NetBSD$",
    b"\t$NetBSD",
];
const DECOYS: [&[u8]; 8] = [
    b"$netbsd$",
    b"$NetBS",
    b"NetBSD: not an id",
    b"$ NetBSD$",
    b"$Net BSD$",
    b"$FreeBSD: foo $",
    b"$NetBS$D",
    b"NetBSD$",
];

fn text_line(r: &mut Rng) -> Vec<u8> {
    match r.below(10) {
        0..=5 => r.pick(&PATCH_LINES).to_vec(),
        6 | 7 => r.pick(&DECOYS).to_vec(),
        _ => {
            let n = r.below(60);
            bytes_no_lf(r, n)
        }
    }
}

fn join_lines(lines: &[Vec<u8>], final_lf: bool) -> Vec<u8> {
    let mut v = vec![];
    for (i, l) in lines.iter().enumerate() {
        v.extend_from_slice(l);
        if i + 1 < lines.len() || final_lf {
            v.push(b'\n');
        }
    }
    v
}

pub const CONTENT_CLASSES: [&str; 12] = [
    "empty",
    "one-byte",
    "block-boundary",
    "text",
    "text-no-final-newline",
    "netbsd-first",
    "netbsd-middle",
    "netbsd-last",
    "netbsd-unterminated",
    "binary",
    "long-line",
    "100KiB",
];

/// File content of the given class (index into `CONTENT_CLASSES`).
pub fn content(r: &mut Rng, class: usize) -> Vec<u8> {
    const BOUNDS: [usize; 19] =
        [2, 54, 55, 56, 57, 63, 64, 65, 111, 112, 113, 119, 120, 127, 128, 129, 8191, 8192, 8193];
    match class {
        0 => vec![],
        1 => vec![*r.pick(&[b'\n', b'a', 0u8, 0xff, b'$'])],
        2 => {
            let n = *r.pick(&BOUNDS);
            r.bytes(n)
        }
        3 | 4 => {
            let n = r.range(1, 12);
            let lines: Vec<Vec<u8>> = (0..n).map(|_| text_line(r)).collect();
            let mut v = join_lines(&lines, class == 3);
            if class == 4 && v.ends_with(b"\n") {
                v.push(b'x');
            }
            if class == 4 && v.is_empty() {
                v.push(b'x');
            }
            v
        }
        5..=8 => {
            let n = r.range(1, 8);
            let mut lines: Vec<Vec<u8>> = (0..n).map(|_| text_line(r)).collect();
            let id = r.pick(&NETBSD_LINES).to_vec();
            match class {
                5 => lines.insert(0, id),
                6 => {
                    let at = r.range(1, lines.len());
                    lines.insert(at.min(lines.len()), id);
                    lines.push(text_line(r));
                    if r.chance(1, 3) {
                        let at = r.below(lines.len());
                        lines.insert(at, r.pick(&NETBSD_LINES).to_vec());
                    }
                }
                _ => lines.push(id),
            }
            join_lines(&lines, class != 8)
        }
        9 => {
            let n = r.range(1, 3000);
            let mut v = r.bytes(n);
            if r.chance(1, 2) && v.len() > 20 {
                let at = r.below(v.len() - 8);
                v[at..at + 7].copy_from_slice(b"$NetBSD");
            }
            v
        }
        10 => {
            // one line longer than a plausible buffer / piece size P (BufReader's
            // 8 KiB, 16..128 KiB, rarely 1 MiB) with the token straddling P,
            // well behind P, or absent
            let mut v = vec![];
            if r.chance(1, 2) {
                v.extend_from_slice(b"first line\n");
            }
            let start = v.len();
            let p: usize = if r.chance(1, 24) { 1 << 20 } else { *r.pick(&[8192usize, 8192, 16384, 32768, 65536, 65536, 131072]) };
            // (one time in four the line goes on for more than two further pieces)
            let n = if r.chance(1, 4) && p <= 131_072 { 3 * p + r.range(8, 808) } else { p + r.range(8, 808) };
            v.extend((0..n).map(|_| *r.pick(b"abcdefgh $NetBS")));
            match r.below(6) {
                0 | 1 | 2 => {
                    // straddling offset P of the file (and, without a first line, of the line)
                    let at = p - r.range(0, 10);
                    if at >= start && at + 7 <= v.len() {
                        v[at..at + 7].copy_from_slice(b"$NetBSD");
                    }
                }
                3 | 4 => {
                    // late in the line, behind the first P bytes
                    let at = (start + p + r.range(1, 700)).min(v.len() - 7);
                    v[at..at + 7].copy_from_slice(b"$NetBSD");
                }
                _ => {}
            }
            v.extend_from_slice(b"\nlast line\n");
            v
        }
        _ => {
            let n = 100 * 1024 + r.below(3);
            let mut v = r.bytes(n);
            for _ in 0..r.below(4) {
                let at = r.below(v.len() - 8);
                v[at..at + 7].copy_from_slice(b"$NetBSD");
            }
            v
        }
    }
}
