//! Generators for the distinfo monitors.
