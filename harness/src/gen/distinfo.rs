//! Generators for the distinfo properties C10 (canonical documents, API
//! assembled documents), C11 (interleaved well-formed / must-ignore lines,
//! classification table, alias pairs) and C12 (file contents, corruptions).
//!
//! Soundness (DESIGN section 4): file names are made of bytes outside
//! {09,0a,0b,0c,0d,20}; they are `path_plain` (so `Path` equality is byte
//! equality) except in the alias workload; their patch/distfile kind is the
//! same under every reading of the rule (`classify` returns `Some`); hashes
//! are non-empty lower-case hex; sizes are plain decimal `u64`; no near-miss
//! lines, no case variants of keywords, at most one Size line and at most one
//! line per algorithm for a file.

use crate::oracle::distinfo::{
    classify, contains, path_plain, Alg, DocModel, FileModel, Kind, Rec, ALGS,
};
use crate::rng::Rng;

// ---------------------------------------------------------------------------
// Names
// ---------------------------------------------------------------------------

/// The dangerous byte sequences of DESIGN C10, with the evidence class name.
pub const DANGER: [(&str, &[u8]); 11] = [
    ("85", b"\x85"),
    ("a0", b"\xa0"),
    ("e9", b"\xe9"),
    ("c3a0", b"\xc3\xa0"),
    ("c385", b"\xc3\x85"),
    ("ff", b"\xff"),
    ("01", b"\x01"),
    ("7f", b"\x7f"),
    ("lparen", b"("),
    ("rparen", b")"),
    ("eq", b"="),
];

/// Evidence classes of a name: which dangerous sequences it contains.
pub fn danger_classes(name: &[u8]) -> Vec<&'static str> {
    DANGER.iter().filter(|(_, seq)| contains(name, seq)).map(|(k, _)| *k).collect()
}

const ASCII_POOL: &[u8] = b"abcdefgxyzABXYZ0123456789.-_+,@%~#:;!*[]{}<>'\"\\&|^`$?";

/// A byte that may occur inside a file name: not ASCII white space, not 0x0b
/// (classified differently by `char::is_whitespace`), not `/`.
pub fn name_byte_ok(b: u8) -> bool {
    !matches!(b, 0x09..=0x0d | 0x20 | b'/')
}

fn any_name_byte(r: &mut Rng, fs_safe: bool) -> u8 {
    loop {
        let b = r.byte();
        if name_byte_ok(b) && !(fs_safe && b == 0) {
            return b;
        }
    }
}

/// `lo..=hi` bytes weighted towards the dangerous ones; never `.` or `..`.
pub fn raw_name(r: &mut Rng, lo: usize, hi: usize, fs_safe: bool) -> Vec<u8> {
    let n = r.range(lo, hi);
    let mut v = Vec::with_capacity(n + 2);
    while v.len() < n {
        match r.below(8) {
            0..=3 => v.extend_from_slice(DANGER[r.below(DANGER.len())].1),
            4 | 5 => v.push(*r.pick(ASCII_POOL)),
            _ => v.push(any_name_byte(r, fs_safe)),
        }
    }
    v.truncate(n);
    if v == b"." || v == b".." {
        v[0] = b'x';
    }
    v
}

const DIRS: [&[u8]; 8] =
    [b"sub", b"go-mod", b"dist-1.0", b"\xc3\xa9", b"d\xe9", b"a", b"b", b"c\xa0d"];
const DIST_SUFFIX: [&[u8]; 6] = [b".tar.gz", b".tgz", b".zip", b"-1.0.tar.xz", b".patch-1", b".c"];
/// Distfile names that look like patches (classification table rows).
pub const DIST_LOOKALIKES: [&[u8]; 12] = [
    b"emul-foo",
    b"patch-local-x",
    b"patch-aa.orig",
    b"patch-aa.rej",
    b"patch-aa~",
    b"patch-2.7.6.tar.xz",
    b"foo.patch-1",
    b"mypatch-aa",
    b"pkgin-23.8.1.tar.gz",
    b"emul-linux-patch-x.orig",
    b"patch",
    b"foo-patch-x",
];
pub const PATCH_NAMES: [&[u8]; 7] = [
    b"patch-aa",
    b"patch-",
    b"emul-linux-patch-x",
    b"patch-Makefile",
    b"patch-src_main.c",
    b"patch-configure.ac",
    b"emul-netbsd32-patch-ab",
];

fn dir_component(r: &mut Rng, fs_safe: bool) -> Vec<u8> {
    if r.chance(1, 2) {
        r.pick(&DIRS).to_vec()
    } else {
        raw_name(r, 1, 5, fs_safe)
    }
}

fn dist_intent(r: &mut Rng, subdir: bool, fs_safe: bool) -> Vec<u8> {
    let mut base = match r.below(8) {
        0..=3 => raw_name(r, 1, 12, fs_safe),
        4 | 5 => {
            let mut b = raw_name(r, 1, 6, fs_safe);
            b.extend_from_slice(DIST_SUFFIX[r.below(DIST_SUFFIX.len())]);
            b
        }
        6 => r.pick(&DIST_LOOKALIKES).to_vec(),
        _ => {
            let mut b = r.pick(&DIST_LOOKALIKES).to_vec();
            b.extend_from_slice(&raw_name(r, 1, 3, fs_safe));
            b
        }
    };
    if subdir && r.chance(1, 3) {
        let depth = r.range(1, 3);
        let mut p = vec![];
        for _ in 0..depth {
            p.extend_from_slice(&dir_component(r, fs_safe));
            p.push(b'/');
        }
        p.extend_from_slice(&base);
        base = p;
    }
    base
}

fn patch_intent(r: &mut Rng, fs_safe: bool) -> Vec<u8> {
    match r.below(4) {
        0 | 1 => {
            let mut b = b"patch-".to_vec();
            b.extend_from_slice(&raw_name(r, 0, 8, fs_safe));
            b
        }
        2 => {
            let mut b = b"emul-".to_vec();
            b.extend_from_slice(&raw_name(r, 1, 5, fs_safe));
            b.extend_from_slice(b"-patch-");
            b.extend_from_slice(&raw_name(r, 0, 5, fs_safe));
            b
        }
        _ => r.pick(&PATCH_NAMES).to_vec(),
    }
}

/// A fresh name of the requested kind: unambiguous under every reading of the
/// classification rule, `path_plain`, and not in `used` (then added to it).
pub fn fresh_name(
    r: &mut Rng,
    kind: Kind,
    subdir: bool,
    fs_safe: bool,
    used: &mut Vec<Vec<u8>>,
) -> Vec<u8> {
    for _ in 0..64 {
        let n = match kind {
            Kind::Dist => dist_intent(r, subdir, fs_safe),
            Kind::Patch => patch_intent(r, fs_safe),
        };
        if n.len() <= 200
            && classify(&n) == Some(kind)
            && path_plain(&n)
            && !used.iter().any(|u| *u == n)
        {
            used.push(n.clone());
            return n;
        }
    }
    // Deterministic fallback (practically unreachable).
    let n = match kind {
        Kind::Dist => format!("distfile-{}.tgz", used.len()).into_bytes(),
        Kind::Patch => format!("patch-z{}", used.len()).into_bytes(),
    };
    used.push(n.clone());
    n
}

// ---------------------------------------------------------------------------
// Hashes, sizes, RCS Ids
// ---------------------------------------------------------------------------

const HEX: &[u8; 16] = b"0123456789abcdef";

/// Lower-case hex of the algorithm's length whose first 8 digits are the
/// serial number: unique per line by construction.
pub fn unique_hash(r: &mut Rng, alg: Alg, serial: &mut u32) -> String {
    *serial += 1;
    let mut s = format!("{:08x}", *serial);
    while s.len() < alg.hexlen() {
        s.push(HEX[r.below(16)] as char);
    }
    s
}

pub fn gen_size(r: &mut Rng) -> u64 {
    match r.below(10) {
        0 => 0,
        1 => u64::MAX,
        2 => (1u64 << 32).wrapping_add(r.below(5) as u64).wrapping_sub(2),
        3 => r.next(),
        4 => r.next() >> r.below(64),
        5 => u64::MAX - r.below(10) as u64,
        _ => r.below(50_000_000) as u64,
    }
}

fn bytes_no_lf(r: &mut Rng, n: usize) -> Vec<u8> {
    (0..n)
        .map(|_| loop {
            let b = r.byte();
            if b != b'\n' {
                return b;
            }
        })
        .collect()
}

const USERS: [&[u8]; 7] =
    [b"jperkin", b"riastradh", b"wiz", b"j\xf6rg", b"t\xe9l\xe9", b"\xc3\xa9ric", b"u\xff\xfe"];

/// `$NetBSD: ` + arbitrary bytes without LF.
pub fn expanded_rcsid(r: &mut Rng) -> Vec<u8> {
    let mut v = b"$NetBSD: ".to_vec();
    match r.below(4) {
        0 | 1 => {
            v.extend_from_slice(
                format!(
                    "distinfo,v 1.{} 20{:02}/{:02}/{:02} {:02}:{:02}:{:02} ",
                    r.below(300),
                    r.below(30),
                    r.range(1, 12),
                    r.range(1, 28),
                    r.below(24),
                    r.below(60),
                    r.below(60)
                )
                .as_bytes(),
            );
            v.extend_from_slice(USERS[r.below(USERS.len())]);
            v.extend_from_slice(b" Exp $");
            if r.chance(1, 4) {
                for _ in 0..r.range(1, 3) {
                    v.push(*r.pick(b" \t"));
                }
            }
        }
        2 => {
            let n = r.below(40);
            v.extend_from_slice(&bytes_no_lf(r, n));
        }
        _ => {
            let n = r.below(12);
            v.extend_from_slice(&bytes_no_lf(r, n));
            v.extend_from_slice(b" $");
        }
    }
    v
}

fn alg_subset(r: &mut Rng, allow_empty: bool) -> Vec<Alg> {
    let mut a = ALGS.to_vec();
    r.shuffle(&mut a);
    let n = if allow_empty { r.below(7) } else { r.range(1, 6) };
    a.truncate(n);
    a
}

// ---------------------------------------------------------------------------
// C10 documents
// ---------------------------------------------------------------------------

/// A canonical document: RCS Id (or unexpanded), 0-5 distfiles each with a
/// non-empty subset/order of algorithms and a size, 0-4 patches without size.
pub fn canonical_doc(r: &mut Rng) -> DocModel {
    let mut m = DocModel::default();
    m.rcsid = if r.chance(1, 6) { None } else { Some(expanded_rcsid(r)) };
    let mut used = vec![];
    let mut serial = 0u32;
    let nd = r.below(6);
    let np = r.below(5);
    for _ in 0..nd {
        let name = fresh_name(r, Kind::Dist, true, false, &mut used);
        let sums =
            alg_subset(r, false).into_iter().map(|a| (a, unique_hash(r, a, &mut serial))).collect();
        m.dist.push(FileModel { name, kind: Kind::Dist, sums, size: Some(gen_size(r)) });
    }
    for _ in 0..np {
        let name = fresh_name(r, Kind::Patch, false, false, &mut used);
        let sums =
            alg_subset(r, false).into_iter().map(|a| (a, unique_hash(r, a, &mut serial))).collect();
        m.patch.push(FileModel { name, kind: Kind::Patch, sums, size: None });
    }
    m
}

/// A document to be assembled through the API: the model (per-kind order =
/// insertion order) and the interleaved insertion sequence.  Every entry has
/// at least one line; patch entries have no size.
pub fn api_doc(r: &mut Rng) -> (DocModel, Vec<FileModel>) {
    let mut used = vec![];
    let mut serial = 0u32;
    let n = r.range(1, 8);
    let mut order = vec![];
    for _ in 0..n {
        let kind = if r.chance(2, 5) { Kind::Patch } else { Kind::Dist };
        let subdir = kind == Kind::Dist;
        let name = fresh_name(r, kind, subdir, false, &mut used);
        let (allow_empty, size) = match kind {
            Kind::Patch => (false, None),
            Kind::Dist => match r.below(6) {
                0 => (false, None),
                1 => (true, Some(gen_size(r))),
                _ => (false, Some(gen_size(r))),
            },
        };
        let sums = alg_subset(r, allow_empty)
            .into_iter()
            .map(|a| (a, unique_hash(r, a, &mut serial)))
            .collect();
        order.push(FileModel { name, kind, sums, size });
    }
    let mut m = DocModel::default();
    m.rcsid = if r.chance(1, 4) { None } else { Some(expanded_rcsid(r)) };
    for f in &order {
        match f.kind {
            Kind::Dist => m.dist.push(f.clone()),
            Kind::Patch => m.patch.push(f.clone()),
        }
    }
    (m, order)
}

// ---------------------------------------------------------------------------
// C11 documents
// ---------------------------------------------------------------------------

#[derive(Clone, Copy, Debug, PartialEq, Eq)]
pub enum LineClass {
    WSum,
    WSize,
    Comment,
    CommentedW,
    Blank,
    UnknownAlg,
    BadSize,
    GarbageFirst,
    GarbageParen,
    Unexpanded,
    RcsId,
}

pub const LINE_CLASSES: [LineClass; 11] = [
    LineClass::WSum,
    LineClass::WSize,
    LineClass::Comment,
    LineClass::CommentedW,
    LineClass::Blank,
    LineClass::UnknownAlg,
    LineClass::BadSize,
    LineClass::GarbageFirst,
    LineClass::GarbageParen,
    LineClass::Unexpanded,
    LineClass::RcsId,
];

impl LineClass {
    pub fn name(self) -> &'static str {
        match self {
            LineClass::WSum => "W-checksum",
            LineClass::WSize => "W-size",
            LineClass::Comment => "I-comment",
            LineClass::CommentedW => "I-commented-out-line",
            LineClass::Blank => "I-blank",
            LineClass::UnknownAlg => "I-unknown-algorithm",
            LineClass::BadSize => "I-unparsable-size",
            LineClass::GarbageFirst => "I-garbage-first-field",
            LineClass::GarbageParen => "I-garbage-name-not-parenthesised",
            LineClass::Unexpanded => "I-unexpanded-rcsid",
            LineClass::RcsId => "N-rcsid",
        }
    }
}

/// One or more blanks/tabs.
fn gap(r: &mut Rng) -> Vec<u8> {
    match r.below(4) {
        0 | 1 => b" ".to_vec(),
        2 => b"\t".to_vec(),
        _ => (0..r.range(2, 4)).map(|_| *r.pick(b" \t")).collect(),
    }
}

/// Zero or more leading blanks/tabs.
fn lead(r: &mut Rng) -> Vec<u8> {
    if r.chance(3, 4) {
        vec![]
    } else {
        (0..r.range(1, 4)).map(|_| *r.pick(b" \t")).collect()
    }
}

fn fields(r: &mut Rng, fs: &[&[u8]]) -> Vec<u8> {
    let mut l = lead(r);
    for (i, f) in fs.iter().enumerate() {
        if i > 0 {
            l.extend_from_slice(&gap(r));
        }
        l.extend_from_slice(f);
    }
    l
}

fn paren(name: &[u8]) -> Vec<u8> {
    let mut v = Vec::with_capacity(name.len() + 2);
    v.push(b'(');
    v.extend_from_slice(name);
    v.push(b')');
    v
}

/// A well-formed checksum line (without LF) with free spacing.
pub fn w_sum_line(r: &mut Rng, alg: Alg, name: &[u8], hash: &str) -> Vec<u8> {
    fields(r, &[alg.keyword().as_bytes(), &paren(name), b"=", hash.as_bytes()])
}

/// A well-formed size line (without LF) with free spacing.
pub fn w_size_line(r: &mut Rng, name: &[u8], size: u64) -> Vec<u8> {
    fields(r, &[b"Size", &paren(name), b"=", size.to_string().as_bytes(), b"bytes"])
}

const UNKNOWN_ALGS: [&[u8]; 18] = [
    b"SHA3",
    b"CRC32",
    b"SHA-1",
    b"SHA384",
    b"SHA224",
    b"MD4",
    b"WHIRLPOOL",
    b"TIGER",
    b"BLAKE2b",
    b"BLAKE3",
    b"SHA3-256",
    b"RMD128",
    b"SHA5120",
    b"SHA11",
    b"XSHA1",
    b"SHA",
    b"MD",
    b"BLAKE2",
];
const BAD_SIZES: [&[u8]; 12] = [
    b"abc",
    b"-1",
    b"1.5",
    b"18446744073709551616",
    b"99999999999999999999999999",
    b"1e3",
    b"0x10",
    b"1,000",
    b"12abc",
    b"1_000",
    b"ten",
    b"-",
];
const WORDS: [&[u8]; 12] = [
    b"hello",
    b"world",
    b"=",
    b"checksum",
    b"file:",
    b"<<<<<<<",
    b"=======",
    b"\xff\xfe",
    b"SHA1\xff",
    b"Size\xe9",
    b"S\xc3\xa0",
    b"--",
];

/// A must-ignore line (without LF).  `names` are names that carry (or will
/// carry) well-formed lines in the same document, `ghost` is a name that has
/// none: an ignored line that is wrongly honoured changes an existing entry
/// or creates the ghost.
pub fn ignore_line(
    r: &mut Rng,
    names: &[Vec<u8>],
    ghost: &[u8],
    serial: &mut u32,
) -> (Vec<u8>, LineClass) {
    let name: &[u8] = if names.is_empty() || r.chance(1, 4) { ghost } else { &names[r.below(names.len())][..] };
    let alg = *r.pick(&ALGS);
    match r.below(12) {
        0 => {
            let mut l = lead(r);
            l.push(b'#');
            match r.below(3) {
                0 => {}
                1 => l.extend_from_slice(b" a comment about (something) = else"),
                _ => {
                    let n = r.below(20);
                    l.extend_from_slice(&bytes_no_lf(r, n));
                }
            }
            (l, LineClass::Comment)
        }
        1 | 2 => {
            let mut l = lead(r);
            l.push(b'#');
            if r.chance(1, 2) {
                l.push(b' ');
            }
            if r.chance(1, 4) {
                let n = gen_size(r);
                l.extend_from_slice(&w_size_line(r, name, n));
            } else {
                let h = unique_hash(r, alg, serial);
                l.extend_from_slice(&w_sum_line(r, alg, name, &h));
            }
            (l, LineClass::CommentedW)
        }
        3 => {
            let l = match r.below(4) {
                0 | 1 => vec![],
                _ => (0..r.range(1, 4)).map(|_| *r.pick(b" \t")).collect(),
            };
            (l, LineClass::Blank)
        }
        4 | 5 => {
            let h = unique_hash(r, alg, serial);
            let a = r.pick(&UNKNOWN_ALGS);
            (fields(r, &[a, &paren(name), b"=", h.as_bytes()]), LineClass::UnknownAlg)
        }
        6 | 7 => {
            let v = r.pick(&BAD_SIZES);
            (fields(r, &[b"Size", &paren(name), b"=", v, b"bytes"]), LineClass::BadSize)
        }
        8 | 9 => {
            // first field is not a keyword (in any letter case), not a
            // comment, not an RCS Id
            let mut first: Vec<u8> = match r.below(3) {
                0 => r.pick(&WORDS).to_vec(),
                1 => paren(name),
                _ => raw_name(r, 1, 8, false),
            };
            if Alg::is_keyword_any_case(&first)
                || first.starts_with(b"#")
                || first.starts_with(b"$NetBSD")
            {
                first.insert(0, b'x');
            }
            let h = unique_hash(r, alg, serial);
            let word: &[u8] = WORDS[r.below(WORDS.len())];
            let l = match r.below(3) {
                0 => fields(r, &[&first, &paren(name), b"=", h.as_bytes()]),
                1 => fields(r, &[&first, alg.keyword().as_bytes(), &paren(name), b"=", h.as_bytes()]),
                _ => fields(r, &[&first, word]),
            };
            (l, LineClass::GarbageFirst)
        }
        10 => {
            // keyword, then a second field that is not parenthesised
            let second: Vec<u8> = match r.below(3) {
                0 => name.to_vec(),
                1 => {
                    let mut v = vec![b'('];
                    v.extend_from_slice(name);
                    v
                }
                _ => {
                    let mut v = name.to_vec();
                    v.push(b')');
                    v
                }
            };
            if second.first() == Some(&b'(') && second.last() == Some(&b')') {
                // would be a parenthesised field after all
                return (vec![], LineClass::Blank);
            }
            let l = if r.chance(1, 4) {
                fields(r, &[b"Size", &second, b"=", b"5", b"bytes"])
            } else {
                let h = unique_hash(r, alg, serial);
                fields(r, &[alg.keyword().as_bytes(), &second, b"=", h.as_bytes()])
            };
            (l, LineClass::GarbageParen)
        }
        _ => (fields(r, &[b"$NetBSD$"]), LineClass::Unexpanded),
    }
}

pub struct C11Doc {
    pub text: Vec<u8>,
    pub model: DocModel,
    pub classes: Vec<LineClass>,
    pub nfiles: usize,
    /// some file's well-formed lines are separated by another file's
    pub interleaved: bool,
    pub ignored: usize,
    pub high_byte_name: bool,
}

struct WLine {
    file: usize,
    size: Option<u64>,
    sum: Option<(Alg, String)>,
}

/// 1-6 files; their well-formed lines interleaved arbitrarily; must-ignore
/// lines inserted at every position.
pub fn c11_doc(r: &mut Rng) -> C11Doc {
    let nfiles = r.range(1, 6);
    let mut used = vec![];
    let mut serial = 0u32;
    let mut names: Vec<(Vec<u8>, Kind)> = vec![];
    for _ in 0..nfiles {
        let kind = if r.chance(2, 5) { Kind::Patch } else { Kind::Dist };
        let n = fresh_name(r, kind, kind == Kind::Dist, false, &mut used);
        names.push((n, kind));
    }
    let ghost_kind = if r.chance(1, 3) { Kind::Patch } else { Kind::Dist };
    let ghost = fresh_name(r, ghost_kind, false, false, &mut used);
    let mut lines: Vec<WLine> = vec![];
    for (i, _) in names.iter().enumerate() {
        let with_size = r.chance(3, 5);
        let algs = alg_subset(r, with_size);
        let mut own: Vec<WLine> = algs
            .into_iter()
            .map(|a| WLine { file: i, size: None, sum: Some((a, unique_hash(r, a, &mut serial))) })
            .collect();
        // Sometimes an algorithm occurs twice (or three times) for one file:
        // the statement records *each* recognised line, in line order.
        if !own.is_empty() && r.chance(1, 4) {
            for _ in 0..r.range(1, 2) {
                let k = r.below(own.len());
                if let Some((a, _)) = own[k].sum.clone() {
                    own.push(WLine { file: i, size: None, sum: Some((a, unique_hash(r, a, &mut serial))) });
                }
            }
        }
        if with_size {
            let pos = r.below(own.len() + 1);
            own.insert(pos, WLine { file: i, size: Some(gen_size(r)), sum: None });
        }
        lines.extend(own);
    }
    // Arbitrary interleaving: most documents fully shuffled, some grouped
    // (files in order), some with only neighbouring swaps.
    match r.below(4) {
        0 => {}
        1 => {
            for i in 1..lines.len() {
                if r.chance(1, 3) {
                    lines.swap(i - 1, i);
                }
            }
        }
        _ => r.shuffle(&mut lines),
    }
    let mut interleaved = false;
    for i in 0..nfiles {
        let pos: Vec<usize> =
            lines.iter().enumerate().filter(|(_, l)| l.file == i).map(|(k, _)| k).collect();
        if let (Some(a), Some(b)) = (pos.first(), pos.last()) {
            if b - a + 1 != pos.len() {
                interleaved = true;
            }
        }
    }
    let plain_names: Vec<Vec<u8>> = names.iter().map(|(n, _)| n.clone()).collect();
    let ignore_rate = r.range(0, 3); // 0: none, else p = rate/3 per slot (repeated)
    let mut text = vec![];
    let mut classes = vec![];
    let mut model = DocModel::default();
    let mut ignored = 0;
    let mut rcs_done = false;
    let mut slot = |r: &mut Rng,
                    text: &mut Vec<u8>,
                    classes: &mut Vec<LineClass>,
                    serial: &mut u32,
                    ignored: &mut usize| {
        let mut k = 0;
        while k < 3 && r.below(3) < ignore_rate {
            k += 1;
            if !rcs_done && r.chance(1, 12) {
                rcs_done = true;
                text.extend_from_slice(&expanded_rcsid(r));
                text.push(b'\n');
                classes.push(LineClass::RcsId);
                continue;
            }
            let (l, c) = ignore_line(r, &plain_names, &ghost, serial);
            text.extend_from_slice(&l);
            text.push(b'\n');
            classes.push(c);
            *ignored += 1;
        }
    };
    for l in &lines {
        slot(r, &mut text, &mut classes, &mut serial, &mut ignored);
        let (name, kind) = &names[l.file];
        if let Some(n) = l.size {
            text.extend_from_slice(&w_size_line(r, name, n));
            model.apply(name, *kind, Rec::Size(n));
            classes.push(LineClass::WSize);
        } else if let Some((a, h)) = &l.sum {
            text.extend_from_slice(&w_sum_line(r, *a, name, h));
            model.apply(name, *kind, Rec::Sum(*a, h));
            classes.push(LineClass::WSum);
        }
        text.push(b'\n');
    }
    slot(r, &mut text, &mut classes, &mut serial, &mut ignored);
    let high_byte_name = names.iter().any(|(n, _)| n.iter().any(|&b| b >= 0x80));
    C11Doc { text, model, classes, nfiles, interleaved, ignored, high_byte_name }
}

/// Classification table of DESIGN C11 (name, expected kind, row label).
pub const CLASS_TABLE: [(&[u8], Kind, &str); 22] = [
    (b"patch-aa", Kind::Patch, "patch-aa"),
    (b"patch-", Kind::Patch, "patch-"),
    (b"emul-linux-patch-x", Kind::Patch, "emul-linux-patch-x"),
    (b"emul-foo", Kind::Dist, "emul-foo"),
    (b"patch-local-x", Kind::Dist, "patch-local-x"),
    (b"patch-aa.orig", Kind::Dist, "patch-aa.orig"),
    (b"patch-aa.rej", Kind::Dist, "patch-aa.rej"),
    (b"patch-aa~", Kind::Dist, "patch-aa~"),
    (b"patch-2.7.6.tar.xz", Kind::Dist, "patch-2.7.6.tar.xz"),
    (b"foo.patch-1", Kind::Dist, "foo.patch-1"),
    (b"mypatch-aa", Kind::Dist, "mypatch-aa"),
    (b"patch-local-", Kind::Dist, "patch-local-"),
    (b"emul-linux-patch-x.orig", Kind::Dist, "emul-linux-patch-x.orig"),
    (b"emul-linux-patch-x.rej", Kind::Dist, "emul-linux-patch-x.rej"),
    (b"emul-linux-patch-x~", Kind::Dist, "emul-linux-patch-x~"),
    (b"emul-linux-patch-2.tar.gz", Kind::Dist, "emul-linux-patch-2.tar.gz"),
    (b"foo-patch-x", Kind::Dist, "foo-patch-x"),
    (b"patch", Kind::Dist, "patch"),
    (b"patch_aa", Kind::Dist, "patch_aa"),
    (b"emul-linux-patchx", Kind::Dist, "emul-linux-patchx"),
    (b"patch-aa.original", Kind::Patch, "patch-aa.original"),
    (b"patch-localx", Kind::Patch, "patch-localx"),
];

/// A variant of a table row: 1-4 name bytes inserted at an inner position.
/// The expectation is the oracle's; variants that are ambiguous under some
/// reading of the rule are not produced.
pub fn table_variant(r: &mut Rng, row: usize) -> Option<(Vec<u8>, Kind)> {
    let mut v = CLASS_TABLE[row].0.to_vec();
    let ins = raw_name(r, 1, 4, false);
    let at = r.range(1, v.len() - 1);
    let tail = v.split_off(at);
    v.extend_from_slice(&ins);
    v.extend_from_slice(&tail);
    match classify(&v) {
        Some(k) if path_plain(&v) => Some((v, k)),
        _ => None,
    }
}

pub struct AliasDoc {
    pub text: Vec<u8>,
    pub first: Vec<u8>,
    pub second: Vec<u8>,
    /// what the statement promises: two entries
    pub separate: DocModel,
    /// known finding K2: the second name's lines appended to the first's entry
    pub merged: DocModel,
    pub form: &'static str,
}

const ALIAS_FORMS: [&str; 6] = ["plain", "double-slash", "dot", "trailing-slash", "trailing-dot", "triple-slash"];

fn alias_form(form: usize, dirs: &[Vec<u8>], base: &[u8]) -> Vec<u8> {
    let mut v = vec![];
    for (i, d) in dirs.iter().enumerate() {
        v.extend_from_slice(d);
        // the variation is applied at the last separator
        if i + 1 == dirs.len() {
            match form {
                1 => v.extend_from_slice(b"//"),
                2 => v.extend_from_slice(b"/./"),
                5 => v.extend_from_slice(b"///"),
                _ => v.push(b'/'),
            }
        } else {
            v.push(b'/');
        }
    }
    v.extend_from_slice(base);
    match form {
        3 => v.push(b'/'),
        4 => v.extend_from_slice(b"/."),
        _ => {}
    }
    v
}

/// The alias workload of known finding K2: two byte-distinct names that
/// `Path` considers equal, all lines of the first before all lines of the
/// second, other files' lines anywhere.
pub fn alias_doc(r: &mut Rng) -> AliasDoc {
    let mut used = vec![];
    let mut serial = 0u32;
    let ndirs = r.range(1, 2);
    let dirs: Vec<Vec<u8>> = (0..ndirs)
        .map(|_| {
            if r.chance(1, 2) {
                r.pick(&DIRS).to_vec()
            } else {
                let mut d = raw_name(r, 1, 4, false);
                d.insert(0, b'd');
                d
            }
        })
        .collect();
    let mut base = b"f".to_vec();
    base.extend_from_slice(&raw_name(r, 1, 5, false));
    base.extend_from_slice(b".tgz");
    let fa = r.below(ALIAS_FORMS.len());
    let mut fb = r.below(ALIAS_FORMS.len() - 1);
    if fb >= fa {
        fb += 1;
    }
    let first = alias_form(fa, &dirs, &base);
    let second = alias_form(fb, &dirs, &base);
    used.push(first.clone());
    used.push(second.clone());
    used.push(alias_form(0, &dirs, &base));
    let form = if fa == 0 { ALIAS_FORMS[fb] } else if fb == 0 { ALIAS_FORMS[fa] } else { "both-decorated" };

    // lines of the two alias names: A's first, then B's; at most one Size
    let size_on = r.below(3); // 0: A, 1: B, 2: none
    let mut main: Vec<(usize, WLine)> = vec![];
    for (who, _) in [(0usize, &first), (1usize, &second)] {
        let algs = alg_subset(r, false);
        let n = algs.len().min(3);
        let mut own: Vec<WLine> = algs[..n]
            .iter()
            .map(|a| WLine { file: who, size: None, sum: Some((*a, unique_hash(r, *a, &mut serial))) })
            .collect();
        if size_on == who {
            let pos = r.below(own.len() + 1);
            own.insert(pos, WLine { file: who, size: Some(gen_size(r)), sum: None });
        }
        for l in own {
            main.push((who, l));
        }
    }
    // other files
    let nother = r.below(3);
    let mut others: Vec<(Vec<u8>, Kind)> = vec![];
    for _ in 0..nother {
        let kind = if r.chance(1, 3) { Kind::Patch } else { Kind::Dist };
        others.push((fresh_name(r, kind, false, false, &mut used), kind));
    }
    let mut other_lines: Vec<WLine> = vec![];
    for (i, _) in others.iter().enumerate() {
        for a in alg_subset(r, false).into_iter().take(2) {
            other_lines.push(WLine { file: 2 + i, size: None, sum: Some((a, unique_hash(r, a, &mut serial))) });
        }
    }
    // merge: main keeps its order, others are dropped in at random positions
    let mut all: Vec<WLine> = main.into_iter().map(|(_, l)| l).collect();
    for l in other_lines {
        let pos = r.below(all.len() + 1);
        all.insert(pos, l);
    }
    let mut text = vec![];
    let mut separate = DocModel::default();
    let mut merged = DocModel::default();
    for l in &all {
        let (name, kind): (&[u8], Kind) = match l.file {
            0 => (&first, Kind::Dist),
            1 => (&second, Kind::Dist),
            k => (&others[k - 2].0, others[k - 2].1),
        };
        let merged_name: &[u8] = if l.file == 1 { &first } else { name };
        if let Some(n) = l.size {
            text.extend_from_slice(&w_size_line(r, name, n));
            separate.apply(name, kind, Rec::Size(n));
            merged.apply(merged_name, kind, Rec::Size(n));
        } else if let Some((a, h)) = &l.sum {
            text.extend_from_slice(&w_sum_line(r, *a, name, h));
            separate.apply(name, kind, Rec::Sum(*a, h));
            merged.apply(merged_name, kind, Rec::Sum(*a, h));
        }
        text.push(b'\n');
    }
    AliasDoc { text, first, second, separate, merged, form }
}

// ---------------------------------------------------------------------------
// C12: file contents
// ---------------------------------------------------------------------------

const PATCH_LINES: [&[u8]; 14] = [
    b"--- Makefile.orig\t2024-01-01 00:00:00.000000000 +0000",
    b"+++ Makefile",
    b"@@ -1,3 +1,4 @@",
    b" context line",
    b"+added line",
    b"-removed line",
    b"",
    b" ",
    b"\\ No newline at end of file",
    b"binary \x00\x01\xff\xfe line",
    b"caf\xe9 \xc3\xa0",
    b"trailing CR\r",
    b"Fix build on SunOS.",
    b"+\tprintf(\"%s\\n\", s);",
];
pub const NETBSD_LINES: [&[u8]; 7] = [
    b"$NetBSD: patch-aa,v 1.3 2024/05/27 23:27:10 riastradh Exp $",
    b"$NetBSD$",
    b"# $NetBSD: Makefile,v 1.1 2001/01/01 00:00:00 j\xf6rg Exp $",
    b"/* $NetBSD$ */",
    b"x$NetBSDy",
    b"+ * $NetBSD: foo.c,v 1.2 $ and again $NetBSD$",
    b"\t$NetBSD",
];
const DECOYS: [&[u8]; 8] = [
    b"$netbsd$",
    b"$NetBS",
    b"NetBSD: not an id",
    b"$ NetBSD$",
    b"$Net BSD$",
    b"$FreeBSD: foo $",
    b"$NetBS$D",
    b"NetBSD$",
];

fn text_line(r: &mut Rng) -> Vec<u8> {
    match r.below(10) {
        0..=5 => r.pick(&PATCH_LINES).to_vec(),
        6 | 7 => r.pick(&DECOYS).to_vec(),
        _ => {
            let n = r.below(60);
            bytes_no_lf(r, n)
        }
    }
}

fn join_lines(lines: &[Vec<u8>], final_lf: bool) -> Vec<u8> {
    let mut v = vec![];
    for (i, l) in lines.iter().enumerate() {
        v.extend_from_slice(l);
        if i + 1 < lines.len() || final_lf {
            v.push(b'\n');
        }
    }
    v
}

pub const CONTENT_CLASSES: [&str; 12] = [
    "empty",
    "one-byte",
    "block-boundary",
    "text",
    "text-no-final-newline",
    "netbsd-first",
    "netbsd-middle",
    "netbsd-last",
    "netbsd-unterminated",
    "binary",
    "long-line",
    "100KiB",
];

/// File content of the given class (index into `CONTENT_CLASSES`).
pub fn content(r: &mut Rng, class: usize) -> Vec<u8> {
    const BOUNDS: [usize; 19] =
        [2, 54, 55, 56, 57, 63, 64, 65, 111, 112, 113, 119, 120, 127, 128, 129, 8191, 8192, 8193];
    match class {
        0 => vec![],
        1 => vec![*r.pick(&[b'\n', b'a', 0u8, 0xff, b'$'])],
        2 => {
            let n = *r.pick(&BOUNDS);
            r.bytes(n)
        }
        3 | 4 => {
            let n = r.range(1, 12);
            let lines: Vec<Vec<u8>> = (0..n).map(|_| text_line(r)).collect();
            let mut v = join_lines(&lines, class == 3);
            if class == 4 && v.ends_with(b"\n") {
                v.push(b'x');
            }
            if class == 4 && v.is_empty() {
                v.push(b'x');
            }
            v
        }
        5..=8 => {
            let n = r.range(1, 8);
            let mut lines: Vec<Vec<u8>> = (0..n).map(|_| text_line(r)).collect();
            let id = r.pick(&NETBSD_LINES).to_vec();
            match class {
                5 => lines.insert(0, id),
                6 => {
                    let at = r.range(1, lines.len());
                    lines.insert(at.min(lines.len()), id);
                    lines.push(text_line(r));
                    if r.chance(1, 3) {
                        let at = r.below(lines.len());
                        lines.insert(at, r.pick(&NETBSD_LINES).to_vec());
                    }
                }
                _ => lines.push(id),
            }
            join_lines(&lines, class != 8)
        }
        9 => {
            let n = r.range(1, 3000);
            let mut v = r.bytes(n);
            if r.chance(1, 2) && v.len() > 20 {
                let at = r.below(v.len() - 8);
                v[at..at + 7].copy_from_slice(b"$NetBSD");
            }
            v
        }
        10 => {
            // one line longer than BufReader's 8 KiB buffer with the token
            // straddling the buffer boundary
            let mut v = vec![];
            if r.chance(1, 2) {
                v.extend_from_slice(b"first line\n");
            }
            let start = v.len();
            let n = r.range(8200, 9000);
            v.extend((0..n).map(|_| *r.pick(b"abcdefgh $NetBS")));
            if r.chance(2, 3) {
                let at = 8192 - r.range(0, 10);
                if at >= start && at + 7 <= v.len() {
                    v[at..at + 7].copy_from_slice(b"$NetBSD");
                }
            }
            v.extend_from_slice(b"\nlast line\n");
            v
        }
        _ => {
            let n = 100 * 1024 + r.below(3);
            let mut v = r.bytes(n);
            for _ in 0..r.below(4) {
                let at = r.below(v.len() - 8);
                v[at..at + 7].copy_from_slice(b"$NetBSD");
            }
            v
        }
    }
}
