//! Version-string generators shared by C01, C02, C03, C06, C18.

use crate::rng::Rng;

pub const MODS: [&str; 6] = ["alpha", "beta", "rc", "pre", "pl", "nb"];
const MIXED: [&str; 14] = [
    "ALPHA", "Alpha", "aLpHa", "BETA", "Beta", "RC", "Rc", "PRE", "Pre", "PL", "Pl", "NB", "Nb",
    "nB",
];
/// Words that people write into versions and that a tolerant parser might
/// learn as synonyms of the documented modifiers; under the rule they are
/// plain letters.
const WORDS: [&str; 24] = [
    "patchlevel", "patch", "level", "release", "final", "stable", "snapshot", "dev", "devel", "git", "svn", "cvs",
    "build", "rev", "update", "ga", "sp1", "prealpha", "prerelease", "alpha1", "Beta", "candidate", "RC1", "PATCHLEVEL",
];
const PREFIXES: [&str; 18] = [
    "al", "alph", "bet", "be", "pr", "r", "p", "n",
    // a modifier directly behind a proper prefix of itself
    "alalpha", "alphalpha", "bbeta", "betbeta", "prpre", "ppre", "rrc", "ppl", "nnb", "nnb1",
];
const JUNK: [&str; 40] = [
    // characters whose code point, truncated to its low byte (`c as u8`), is an
    // ASCII digit, letter or separator: U+0131 -> '1', U+0139 -> '9', U+012E -> '.',
    // U+015F -> '_', U+016E -> 'n', U+0162 -> 'b', U+0161 -> 'a', U+0170 -> 'p',
    // U+0172 -> 'r', U+0130 -> '0'
    "\u{0131}", "\u{0139}", "\u{012e}", "\u{015f}", "\u{016e}", "\u{0162}", "\u{0161}", "\u{0170}", "\u{0172}", "\u{0130}\u{0131}",
    "+", "~", ",", "!", "=", "*", "[", " ", "é", "€", "😀", "/", ":", "@",
    // characters that are not ASCII letters or digits but become one under
    // Unicode case folding / numeric classification (KELVIN SIGN -> k,
    // I WITH DOT ABOVE -> i + combining dot, fullwidth and Arabic-Indic digits,
    // superscript two, long s): ignored like any other character
    "\u{212a}", "\u{0130}", "\u{ff11}", "\u{0663}", "\u{00b2}", "\u{017f}", "\u{ff21}", "\u{0430}",
    // text pasted from a Makefile or a dependency line
    ":../../devel/p", "../../", "$(PKGVERSION)", "[0-9]*", ",nb*", ".tgz", "#", "\u{feff}",
];
const NUMS: [&str; 14] = [
    "0", "1", "2", "3", "9", "10", "00", "007", "01", "20240101", "99", "100", "2147483648",
    "999999999999999999",
];

/// Short literals of the library's version / pattern / name code that can
/// stand inside a version string.
fn source_literals() -> &'static [&'static str] {
    static L: std::sync::OnceLock<Vec<&'static str>> = std::sync::OnceLock::new();
    L.get_or_init(|| {
        crate::corpus::literal_strs(&["dewey", "pattern", "pkgname", "depend"])
            .into_iter()
            .filter(|s| s.len() <= 16 && !s.contains(|c| matches!(c, '-' | '<' | '>' | '{' | '}' | '\n')) && !s.contains(' '))
            .collect()
    })
}

/// Does the string respect the bounds all comparison monitors rely on?
/// (digit runs <= 18, none of `- < > { }`, no leading `=`).
pub fn usable(v: &str) -> bool {
    if v.starts_with('=') {
        return false;
    }
    if v.contains(|c| matches!(c, '-' | '<' | '>' | '{' | '}')) {
        return false;
    }
    max_digit_run(v) <= 18
}

/// Like `usable`, but a digit run may be longer than 18 characters as long
/// as what is left after its leading zeros is not: the numeric value of
/// such a run is unambiguous ("00000000000000000002" is 2) and fits.
pub fn usable_padded(v: &str) -> bool {
    if v.starts_with('=') {
        return false;
    }
    if v.contains(|c| matches!(c, '-' | '<' | '>' | '{' | '}')) {
        return false;
    }
    max_significant_digits(v) <= 18
}

pub fn max_significant_digits(v: &str) -> usize {
    let mut best = 0;
    let mut cur = 0;
    for b in v.bytes() {
        if b.is_ascii_digit() {
            if cur > 0 || b != b'0' {
                cur += 1;
            }
            best = best.max(cur);
        } else {
            cur = 0;
        }
    }
    best
}

/// Pad one digit run of `v` with leading zeros to 19..=40 characters (the
/// value is unchanged; length-based shortcuts in a number parser are not).
/// Returns `v` itself when it has no digit run.
pub fn pad_zeros(r: &mut Rng, v: &str) -> String {
    let mut t = split_tokens(v);
    let idxs: Vec<usize> = (0..t.len()).filter(|&i| t[i].bytes().all(|b| b.is_ascii_digit())).collect();
    if idxs.is_empty() {
        return v.to_string();
    }
    let i = *r.pick(&idxs);
    let total = *r.pick(&[19usize, 20, 21, 24, 32, 40]);
    let pad = total.saturating_sub(t[i].len()).max(1);
    t[i] = format!("{}{}", "0".repeat(pad), t[i]);
    t.concat()
}

pub fn max_digit_run(v: &str) -> usize {
    let mut best = 0;
    let mut cur = 0;
    for b in v.bytes() {
        if b.is_ascii_digit() {
            cur += 1;
            best = best.max(cur);
        } else {
            cur = 0;
        }
    }
    best
}

/// Numbers at the edges of machine representations: 2^k + d and 10^k + d.
/// (Packed keys, narrowing casts and digit-count shortcuts break exactly
/// there and nowhere else.)
pub fn boundary_num(r: &mut Rng) -> String {
    let d = r.below(7) as i128 - 3;
    let base: i128 = if r.chance(3, 4) {
        let k = *r.pick(&[7u32, 8, 10, 15, 16, 20, 21, 24, 31, 32, 40, 48, 53, 56, 59]);
        1i128 << k
    } else {
        10i128.pow(*r.pick(&[2u32, 3, 4, 6, 9, 10, 12, 15, 17]))
    };
    let v = (base + d).max(0);
    let s = v.to_string();
    if s.len() > 18 {
        "999999999999999999".to_string()
    } else {
        s
    }
}

fn small_num(r: &mut Rng) -> String {
    match r.below(12) {
        0..=5 => r.below(4).to_string(),
        6 | 7 => r.below(30).to_string(),
        8 => NUMS[r.below(NUMS.len())].to_string(),
        9 => boundary_num(r),
        _ => r.below(1000).to_string(),
    }
}

/// One token of the `V` grammar.  `letters` enables tokens that contain
/// single letters outside modifiers (the reach of known finding K1).
fn token(r: &mut Rng, letters: bool, junk: bool) -> String {
    loop {
        let k = r.below(100);
        return match k {
            0..=29 => small_num(r),
            30..=44 => ".".into(),
            45..=49 => "_".into(),
            50..=63 => MODS[r.below(5)].to_string(),
            64..=69 => format!("nb{}", small_num(r)),
            70..=71 => "nb".into(),
            72..=77 => {
                // Mixed-case spellings; NB gets digits half of the time.
                let m = MIXED[r.below(MIXED.len())];
                if m.eq_ignore_ascii_case("nb") && r.chance(1, 2) {
                    format!("{m}{}", small_num(r))
                } else {
                    m.to_string()
                }
            }
            78..=87 => {
                if !letters {
                    continue;
                }
                let c = (b'a' + r.below(26) as u8) as char;
                if r.chance(1, 4) {
                    c.to_ascii_uppercase().to_string()
                } else {
                    c.to_string()
                }
            }
            88..=91 => {
                if !letters {
                    continue;
                }
                // a string literal of the library's own source (dewey / pattern /
                // pkgname): whatever token the code knows, the versions contain
                let lits = source_literals();
                if !lits.is_empty() && r.chance(1, 4) {
                    return lits[r.below(lits.len())].to_string();
                }
                if r.chance(1, 3) {
                    WORDS[r.below(WORDS.len())].to_string()
                } else {
                    PREFIXES[r.below(PREFIXES.len())].to_string()
                }
            }
            _ => {
                if !junk {
                    continue;
                }
                JUNK[r.below(JUNK.len())].to_string()
            }
        };
    }
}

fn build(r: &mut Rng, letters: bool, junk: bool) -> String {
    loop {
        let n = match r.below(40) {
            0..=3 => 0,
            4..=7 => 1,
            8..=22 => r.range(2, 4),
            23 => r.range(20, 120), // long versions: fixed-size buffers, block-wise scans
            _ => r.range(3, 8),
        };
        let mut s = String::new();
        // Most real versions start with a number.
        if n > 0 && r.chance(3, 4) {
            s.push_str(&small_num(r));
        }
        for _ in 0..n {
            s.push_str(&token(r, letters, junk));
        }
        if usable(&s) && (letters || !has_free_letter(&s)) {
            return s;
        }
    }
}

/// `V`: the full grammar.
pub fn v(r: &mut Rng) -> String {
    build(r, true, true)
}

/// `V_safe`: no single letters outside modifiers (keeps K1 out).
pub fn v_safe(r: &mut Rng) -> String {
    build(r, false, true)
}

/// Split a version into coarse tokens for neighbour generation.
fn split_tokens(v: &str) -> Vec<String> {
    let mut out: Vec<String> = vec![];
    let mut cur = String::new();
    let mut cur_digit = false;
    for c in v.chars() {
        let d = c.is_ascii_digit();
        let a = c.is_ascii_alphabetic();
        if cur.is_empty() {
            cur.push(c);
            cur_digit = d;
        } else if d && cur_digit {
            cur.push(c);
        } else if a && !cur_digit && cur.chars().all(|x| x.is_ascii_alphabetic()) {
            cur.push(c);
        } else {
            out.push(std::mem::take(&mut cur));
            cur.push(c);
            cur_digit = d;
        }
    }
    if !cur.is_empty() {
        out.push(cur);
    }
    out
}

const SUFFIXES: [&str; 16] = [
    ".", ".0", "_", "pl", "alpha", "beta", "rc", "pre", "a", "1", "nb1", ".0.0", "nb0", "0", "pl0",
    ".1",
];

/// `NN(v)`: a near neighbour of a version (one edit), so that the deciding
/// position is deep and the padding branches are reached.
pub fn neighbour(r: &mut Rng, v: &str, letters: bool) -> String {
    for _ in 0..20 {
        let mut t = split_tokens(v);
        let cand = match r.below(11) {
            0 => format!("{v}{}", SUFFIXES[r.below(SUFFIXES.len())]),
            1 if !t.is_empty() => {
                let i = r.below(t.len());
                t[i] = token(r, letters, false);
                t.concat()
            }
            2 => {
                let i = r.below(t.len() + 1);
                t.insert(i, token(r, letters, false));
                t.concat()
            }
            3 if !t.is_empty() => {
                let i = r.below(t.len());
                t.remove(i);
                t.concat()
            }
            4 if !t.is_empty() => {
                // number +-1
                let idxs: Vec<usize> = (0..t.len())
                    .filter(|&i| t[i].bytes().all(|b| b.is_ascii_digit()) && t[i].len() <= 17)
                    .collect();
                if idxs.is_empty() {
                    continue;
                }
                let i = *r.pick(&idxs);
                let n: i64 = t[i].parse().unwrap_or(0);
                let m = if r.chance(1, 2) { n + 1 } else { (n - 1).max(0) };
                t[i] = m.to_string();
                t.concat()
            }
            5 if !t.is_empty() => {
                // flip case of an alphabetic token
                let idxs: Vec<usize> = (0..t.len())
                    .filter(|&i| t[i].chars().all(|c| c.is_ascii_alphabetic()))
                    .collect();
                if idxs.is_empty() {
                    continue;
                }
                let i = *r.pick(&idxs);
                t[i] = if t[i].chars().any(|c| c.is_ascii_lowercase()) {
                    t[i].to_ascii_uppercase()
                } else {
                    t[i].to_ascii_lowercase()
                };
                t.concat()
            }
            6 => {
                // equal-valued respelling: leading zero / trailing zero parts
                match r.below(4) {
                    0 => format!("{v}.0"),
                    1 => format!("{v}pl"),
                    2 => format!("{v}nb0"),
                    _ => format!("{v}_"),
                }
            }
            7 => {
                // drop a trailing token
                if t.len() < 2 {
                    continue;
                }
                t.pop();
                t.concat()
            }
            8 => respell_number(r, v),
            9 => {
                let z = zero_swaps(v);
                if z.is_empty() {
                    continue;
                }
                r.pick(&z).clone()
            }
            _ => {
                // one more revision marker: behind the version, or in front of
                // one of its separators (the last one read is the revision)
                let j = *r.pick(&["nb0", "nb1", "nb2", "nb3", "nb", "nb+1"]);
                let seps: Vec<usize> = (0..t.len()).filter(|&i| t[i] == "." || t[i] == "_").collect();
                if seps.is_empty() || r.chance(1, 2) {
                    format!("{v}{j}")
                } else {
                    t.insert(*r.pick(&seps), j.to_string());
                    t.concat()
                }
            }
        };
        if cand != v && usable(&cand) && (letters || !has_free_letter(&cand)) {
            return cand;
        }
    }
    format!("{v}.1")
}

/// Spellings of a number that a tolerant number reader (`str::parse`,
/// `strtol`, `atoi`) takes for the value but the version rule does not: a
/// sign, blanks around it, a radix prefix, digit grouping, an exponent.
/// Under the rule the extra characters are ordinary (ignored or letters).
pub const NUM_SPELLINGS: [(&str, &str); 10] =
    [("+", ""), ("+0", ""), (" ", ""), ("", " "), ("0x", ""), ("", "_"), ("", "e0"), ("+", "+"), ("\t", ""), ("0", "")];

/// One digit run of `v` respelt with one of NUM_SPELLINGS (`v` itself when
/// it has none).
pub fn respell_number(r: &mut Rng, v: &str) -> String {
    let mut t = split_tokens(v);
    let idxs: Vec<usize> = (0..t.len()).filter(|&i| t[i].bytes().all(|b| b.is_ascii_digit())).collect();
    if idxs.is_empty() {
        return v.to_string();
    }
    let i = *r.pick(&idxs);
    let (a, b) = *r.pick(&NUM_SPELLINGS);
    t[i] = format!("{a}{}{b}", t[i]);
    t.concat()
}

/// The same version with every kind of tail a second, hand-written reader
/// of the revision would see differently from the tokeniser: `stem` and its
/// equal-valued respelling `stem.0`, each followed by "nb" and every string
/// of up to two tokens (three over the core alphabet) of digits, signs,
/// separators and blanks, and each of those followed by a further revision.
/// ("Split at the last nb and read a number" agrees with the tokeniser on
/// almost all of these and on none of the others.)
pub fn revision_cluster(stem: &str) -> Vec<String> {
    const T2: [&str; 9] = ["0", "1", "2", "7", "+", ".", "_", " ", "nb"];
    const T3: [&str; 4] = ["1", "2", ".", "+"];
    let mut tails: Vec<String> = vec![String::new()];
    for a in T2 {
        tails.push(a.to_string());
        for b in T2 {
            tails.push(format!("{a}{b}"));
        }
    }
    for a in T3 {
        for b in T3 {
            for c in T3 {
                tails.push(format!("{a}{b}{c}"));
            }
        }
    }
    tails.sort();
    tails.dedup();
    let mut out = vec![];
    for st in [stem.to_string(), format!("{stem}.0")] {
        out.push(st.clone());
        for t in &tails {
            for again in ["", "nb1", "nb2"] {
                out.push(format!("{st}nb{t}{again}"));
            }
        }
    }
    out.sort();
    out.dedup();
    out
}

/// Does the version contain a letter that is not part of a modifier/nb?
/// (Computed with the reference tokeniser.)
pub fn has_free_letter(v: &str) -> bool {
    crate::oracle::dewey::parse(v, crate::oracle::dewey::Weight::Rank).letters > 0
}

/// Reduced token alphabet for the exhaustive sweep `SMALL(k)`.
pub const SMALL_TOKENS: [&str; 14] =
    ["0", "1", "2", ".", "_", "alpha", "beta", "rc", "pre", "pl", "nb1", "nb2", "a", "B"];

/// Every string of <= k tokens over SMALL_TOKENS.
pub fn small(k: usize) -> Vec<String> {
    let mut out = vec![String::new()];
    let mut layer = vec![String::new()];
    for _ in 0..k {
        let mut next = vec![];
        for s in &layer {
            for t in SMALL_TOKENS.iter() {
                next.push(format!("{s}{t}"));
            }
        }
        out.extend(next.iter().cloned());
        layer = next;
    }
    out.sort();
    out.dedup();
    out
}

/// Component counts for the length sweep: dense where fixed-size buffers and
/// unrolled loops live, then around the powers of two up to 2048.
pub fn length_sweep() -> Vec<usize> {
    let mut v: Vec<usize> = (1..=70).collect();
    v.extend([95, 96, 97, 100, 127, 128, 129, 255, 256, 257, 511, 512, 513, 1023, 1024, 1025, 2047, 2048, 2049]);
    v
}

/// A version of exactly `k` components ("1.2.3..." - every number and every
/// dot is one component), with each kind of token as its last one, and its
/// neighbours of k-1 and k+1 components.  A parser or comparison that treats
/// the n-th component specially (a fixed-size buffer, a cap, an unrolled
/// loop) shows inside such a cluster and nowhere else.
pub fn length_cluster(k: usize) -> Vec<String> {
    let prefix = |n: usize| -> String {
        let mut s = String::new();
        for i in 0..n {
            if i % 2 == 0 {
                s.push_str(&((i / 2) % 9 + 1).to_string());
            } else {
                s.push('.');
            }
        }
        s
    };
    let p = prefix(k);
    let mut out = vec![p.clone(), prefix(k.saturating_sub(1)), prefix(k + 1)];
    // after a number a further digit would merge with it: separate with a letter-free token
    for suf in ["a", "b", "rc", "rc1", "alpha", "pl", "nb2", "nb3", ".", ".0", "_5", "a1", "anb2"] {
        out.push(format!("{p}{suf}"));
    }
    out
}

/// Every string of at most `k` tokens over digits and separators only
/// (`0 1 2 7 . _`): doubled, leading and trailing separators, empty
/// components, zero components - the versions a "digits and dots" fast path
/// takes for itself.
pub fn digits_and_separators(k: usize) -> Vec<String> {
    const T: [&str; 6] = ["0", "1", "2", "7", ".", "_"];
    let mut out = vec![];
    let mut layer = vec![String::new()];
    for _ in 0..k {
        let mut next = vec![];
        for s in &layer {
            for t in T {
                next.push(format!("{s}{t}"));
            }
        }
        out.extend(next.iter().cloned());
        layer = next;
    }
    out
}

/// Every version that differs from `v` in one zero-valued token spelt as
/// another zero-valued token (`0`, `.`, `_`, `pl` all read as a component 0):
/// equal in value to `v`, different in how a reader that splits at
/// separators sees it ("1.0.7" / "1...7" / "1._.7").
pub fn zero_swaps(v: &str) -> Vec<String> {
    const Z: [&str; 4] = ["0", ".", "_", "pl"];
    let t = split_tokens(v);
    let mut out = vec![];
    for i in 0..t.len() {
        if !Z.contains(&t[i].as_str()) {
            continue;
        }
        // a "0" between digits would merge with them: only swap a digit-run
        // token "0" when its neighbours are not digit runs (split_tokens keeps
        // digit runs whole, so a token "0" is a whole run)
        for z in Z {
            if z == t[i] {
                continue;
            }
            let prev_digit = i > 0 && t[i - 1].bytes().all(|b| b.is_ascii_digit());
            let next_digit = i + 1 < t.len() && t[i + 1].bytes().all(|b| b.is_ascii_digit());
            if z == "0" && (prev_digit || next_digit) {
                continue;
            }
            let mut u = t.clone();
            u[i] = z.to_string();
            out.push(u.concat());
        }
    }
    out
}
