//! Generators shared by the pkg_summary monitors C07, C08, C09: awkward
//! values, model entries, call histories, entry texts with injected faults,
//! streams and partitions.  Nothing in here calls the library.

use crate::oracle::summary::{
    self as os, Cause, Entry, Kind, Line, Val, NVARS, REQUIRED, VARS,
};
use crate::rng::Rng;

// ---------------------------------------------------------------------------
// Values (never contain CR or LF)
// ---------------------------------------------------------------------------

const PLAIN: [&str; 16] = [
    "2019-08-12 15:58:02 +0100",
    "devel pkgtools",
    "This is a test",
    "x86_64",
    "Darwin",
    "18.7.0",
    "testpkg-1.0",
    "pkgtools/testpkg",
    "20091115",
    "https://docs.rs/pkgsrc/",
    "apache-2.0 OR modified-bsd",
    "dep-pkg2>=2.0",
    "cfl-pkg1-[0-9]*",
    "/opt/pkg/lib/libfoo.dylib",
    "SHA1 a4801e9b26eeb5b8bd1f54bac1c8e89dec67786a",
    "a",
];
const WITH_EQ: [&str; 10] =
    ["=", "a=b", "==", "k=v=w", "=lead", "trail=", "a = b", "x==y=", "=\u{e9}=", "CFLAGS=-O2 -g"];
const BLANKS: [&str; 10] =
    [" ", "  ", " x", "x ", "  x  ", "\tx", "x\t", "\t", " = ", " a b "];
const LOOKALIKE: [&str; 8] = [
    "PKGNAME=foo-1.0",
    "DESCRIPTION=",
    "SIZE_PKG=12",
    "BUILD_DATE",
    "COMMENT=COMMENT=",
    "FILE_SIZE=abc",
    "pkgname=x",
    "NOTAVAR=1",
];
/// 2-, 3- and 4-byte UTF-8.
const MB2: [&str; 6] = ["\u{e9}", "\u{fc}", "\u{df}", "\u{3a9}", "\u{436}", "\u{a0}"];
const MB3: [&str; 6] = ["\u{20ac}", "\u{65e5}", "\u{672c}", "\u{2603}", "\u{3042}", "\u{ffe6}"];
const MB4: [&str; 5] = ["\u{1f600}", "\u{1d11e}", "\u{10348}", "\u{1f4a9}", "\u{20000}"];
/// Characters that other line splitters treat as breaks; `pkg_summary` does not.
const EXOTIC: [&str; 7] = ["\u{2028}", "\u{2029}", "\u{85}", "\u{0b}", "\u{0c}", "\u{0}", "\u{feff}"];
const WORDS: [&str; 12] = [
    "lib", "foo", "bar", "-", "1.0", "nb2", "/", ".", ",", ":", "#", "\"",
];

#[derive(Clone, Copy, Debug, PartialEq, Eq)]
pub enum VClass {
    Plain,
    Empty,
    Eq,
    Blank,
    Lookalike,
    Multibyte,
    Mixed,
}

impl VClass {
    pub fn name(self) -> &'static str {
        match self {
            VClass::Plain => "plain",
            VClass::Empty => "empty",
            VClass::Eq => "eq",
            VClass::Blank => "blank",
            VClass::Lookalike => "lookalike",
            VClass::Multibyte => "multibyte",
            VClass::Mixed => "mixed",
        }
    }
}

fn pk(r: &mut Rng, xs: &[&'static str]) -> &'static str {
    xs[r.below(xs.len())]
}

fn multibyte_char(r: &mut Rng) -> &'static str {
    match r.below(3) {
        0 => pk(r, &MB2),
        1 => pk(r, &MB3),
        _ => pk(r, &MB4),
    }
}

/// Random composition of tokens from every alphabet.
fn mixed(r: &mut Rng, max_tokens: usize) -> String {
    let n = r.range(1, max_tokens.max(1));
    let mut s = String::new();
    for _ in 0..n {
        let t: &str = match r.below(12) {
            0..=3 => pk(r, &WORDS),
            4 => "=",
            5 => " ",
            6 | 7 => multibyte_char(r),
            8 => pk(r, &EXOTIC),
            9 => pk(r, &PLAIN),
            10 => pk(r, &WITH_EQ),
            _ => pk(r, &BLANKS),
        };
        s.push_str(t);
    }
    s
}

pub fn value_of_class(r: &mut Rng, c: VClass, max_tokens: usize) -> String {
    match c {
        VClass::Plain => pk(r, &PLAIN).to_string(),
        VClass::Empty => String::new(),
        VClass::Eq => pk(r, &WITH_EQ).to_string(),
        VClass::Blank => pk(r, &BLANKS).to_string(),
        VClass::Lookalike => pk(r, &LOOKALIKE).to_string(),
        VClass::Multibyte => {
            let n = r.range(1, 4);
            let mut s = String::new();
            for k in 0..n {
                if k > 0 && r.chance(1, 2) {
                    s.push_str(pk(r, &WORDS));
                }
                s.push_str(multibyte_char(r));
            }
            s
        }
        VClass::Mixed => mixed(r, max_tokens),
    }
}

pub fn vclass(r: &mut Rng) -> VClass {
    match r.below(16) {
        0..=4 => VClass::Plain,
        5 => VClass::Empty,
        6 | 7 => VClass::Eq,
        8 => VClass::Blank,
        9 => VClass::Lookalike,
        10..=12 => VClass::Multibyte,
        _ => VClass::Mixed,
    }
}

/// Any text without CR/LF.
pub fn value(r: &mut Rng) -> String {
    let c = vclass(r);
    value_of_class(r, c, 8)
}

/// Is this one of the values that plain tests do not use?
pub fn awkward(s: &str) -> bool {
    s.is_empty()
        || s.contains('=')
        || !s.is_ascii()
        || s.starts_with([' ', '\t'])
        || s.ends_with([' ', '\t'])
        || s.bytes().any(|b| b < 0x20 || b == 0x7f)
}

pub fn awkward_int(i: i64) -> bool {
    i < 0 || i > (1 << 53)
}

pub fn awkward_val(v: &Val) -> bool {
    match v {
        Val::S(s) => awkward(s),
        Val::I(i) => awkward_int(*i),
        Val::A(a) => a.iter().any(|s| awkward(s)),
    }
}

// ---------------------------------------------------------------------------
// Typed dictionaries: values that look like the real-world content of a
// variable (a reader that "understands" a field - a path, a package name, a
// URL, a date, a number - and re-renders it would change some of them).
// All are plain text to pkg_summary: they must survive verbatim.
// ---------------------------------------------------------------------------

const T_BUILD_DATE: &[&str] = &[
    "2019-08-12 15:58:02 +0100", "2024-02-29 23:59:60 +0000", "2024-01-01 00:00:00 -1200",
    "2019-08-12", "2019-08-12T15:58:02Z", "2019-08-12T15:58:02+01:00", "Mon Aug 12 15:58:02 BST 2019",
    "1565621882", "0000-00-00 00:00:00 +0000", "1970-01-01 00:00:00 +0000", "2038-01-19 03:14:08 +0000",
    "9999-12-31 23:59:59 +1400", "2019-8-1 5:8:2 +0100", "2019-08-12  15:58:02  +0100", "12/08/2019",
    "20190812155802Z", "2019-08-12 15:58:02.123456 +0100", "-0001-01-01 00:00:00 +0000",
    "2019-08-12 15:58:02 +01:00", "2019-08-12 15:58:02 UTC", "2019-08-12 15:58:02",
];
const T_CATEGORIES: &[&str] = &[
    "devel pkgtools", "devel", "devel  pkgtools", "devel\tpkgtools", "devel devel", "www devel archivers",
    "pkgtools devel", "Devel", "devel,pkgtools", "local/custom", "x11 x11", "perl5 devel", "devel ", " devel",
];
const T_COMMENT: &[&str] = &[
    "This is a test", "A \"quoted\" comment", "It's a test", "Trailing period.", "comment # with hash",
    "  leading blanks", "trailing blanks  ", "tab\there", "$HOME ${PKGNAME} $(id) `id`", "100% pure",
    "back\\slash", "ends with backslash\\", "<b>html</b> &amp; entities", "\u{fc}mlaut \u{f1} \u{65e5}\u{672c}\u{8a9e}",
    "e\u{301} vs \u{e9}", "very   spaced   out", "-starts with dash", "A", "line one\\nline two",
    "Library for foo (version 2)", "foo: the bar", "a;b|c&d",
];
const T_PATTERN: &[&str] = &[
    "dep-pkg2>=2.0", "cfl-pkg1-[0-9]*", "foo>=1.0<2.0", "foo<2", "foo-1.0{,nb[0-9]*}", "{foo,bar}-[0-9]*",
    "foo-1.[0-9]*", "foo-*", "foo", "foo-1.0", "foo-1.0nb1", "foo>=1.0nb0", "foo>1.0alpha", "py311-foo-[0-9]*",
    "p5-Foo-Bar>=0.01", "foo>=1.0:../../devel/foo", "../../devel/foo", "foo-[0-9]*:../../devel/foo",
    "foo>=01.00", "foo >= 1.0", "Foo-[0-9]*", "foo>=1.0,bar>=2", "foo-[^0-9]*", "foo>=", ">=1.0", "foo-",
    "-1.0", "foo--1.0", "{", "}", "foo-{1,2", "foo>=1.0<", "libfoo.so.1", "foo-[0-9]*{,nb*}", "foo<=1.0",
    "foo==1.0", "foo!=1.0", "foo-1.0nb0", "foo>=1.0.0",
];
const T_DESCRIPTION: &[&str] = &[
    "This is a test", "  indented line", "trailing  ", "\tTabbed", "* bullet", "- dash", "1. numbered",
    "http://example.com/", "Line with = sign", ".", "..", "a\\", "<html>", "#", "# heading",
    "A fairly long paragraph line that goes on and on up to about eighty characters.", "\u{fc}n\u{ef}c\u{f6}d\u{e9}",
    "e\u{301}", "    ", "last line without period", "===", "---", "\"", "'", "end.", "  ", "\\n",
];
const T_FILE_CKSUM: &[&str] = &[
    "SHA1 a4801e9b26eeb5b8bd1f54bac1c8e89dec67786a", "SHA1 A4801E9B26EEB5B8BD1F54BAC1C8E89DEC67786A",
    "sha1 a4801e9b26eeb5b8bd1f54bac1c8e89dec67786a", "RMD160 9c1185a5c5e9fc54612808977ee8f548b2258d31",
    "a4801e9b26eeb5b8bd1f54bac1c8e89dec67786a", "SHA1  a4801e9b26eeb5b8bd1f54bac1c8e89dec67786a",
    "SHA1 (testpkg-1.0.tgz) = a4801e9b26eeb5b8bd1f54bac1c8e89dec67786a", "SHA1:a4801e9b", "SHA1=a4801e9b",
    "MD5 d41d8cd98f00b204e9800998ecf8427e", "SHA1 ", "SHA1", "0", "SHA1 0000000000000000000000000000000000000000",
    "SHA512 cf83e1357eefb8bdf1542850d66d8007d620e4050b5715dc83f4a921d36ce9ce47d0d13c5d85f2b0ff8318d2877eec2f63b931bd47417a81a538327af927da3e",
];
const T_FILE_NAME: &[&str] = &[
    "testpkg-1.0.tgz", "x-1.0.tgz", "testpkg-1.0.tbz", "testpkg-1.0.txz", "testpkg-1.0.tar.gz", "testpkg-1.0",
    "testpkg-1.0.TGZ", "All/testpkg-1.0.tgz", "./testpkg-1.0.tgz", "../testpkg-1.0.tgz",
    "/packages/All/testpkg-1.0.tgz", "testpkg-1.0.tgz.tgz", ".tgz", "tgz", "test pkg-1.0.tgz",
    "testpkg-1.0nb2.tgz", "testpkg.tgz", "\u{e9}-1.0.tgz", "testpkg-1.0.tgz/", "testpkg-1.0..tgz", "a.tgz",
];
const T_HOMEPAGE: &[&str] = &[
    "https://docs.rs/pkgsrc/", "https://docs.rs/pkgsrc", "http://example.com", "http://example.com/",
    "HTTP://EXAMPLE.COM/Path", "https://example.com:443/", "http://example.com:80/",
    "https://example.com/a/../b/./c", "https://example.com//double//slash", "https://example.com/?q=a=b&c=d",
    "https://example.com/#frag", "https://example.com/a%20b%2Fc", "https://example.com/a b",
    "https://user:pw@example.com/", "https://xn--bcher-kva.example/", "https://b\u{fc}cher.example/",
    "ftp://ftp.netbsd.org/pub/", "example.com", "//example.com/", "mailto:joe@example.com",
    "https://[::1]:8080/", "file:///etc/passwd", "https://example.com/~user/", "https://example.com/?",
    "https://EXAMPLE.com", "<https://example.com/>", "https://example.com/%7Euser/", "https://example.com./",
];
const T_LICENSE: &[&str] = &[
    "apache-2.0 OR modified-bsd", "modified-bsd", "gnu-gpl-v2 AND gnu-lgpl-v2.1", "(mit OR apache-2.0) AND isc",
    "mit or isc", "MIT", "apache-2.0  OR  modified-bsd", "( mit )", "mit AND (isc OR (zlib AND 2-clause-bsd))",
    "public-domain", "gnu-gpl-v3 # comment", "mit AND", "OR", "no-profit no-commercial-use", "${LICENSE}",
    "generic-nonlicense", "mit AND mit", "isc OR mit", "((mit))", "mit AND isc AND zlib",
];
const T_MACHINE_ARCH: &[&str] = &[
    "x86_64", "aarch64", "i386", "amd64", "X86_64", "x86-64", "earmv7hf", "sparc64", "powerpc", "mips64el",
    "noarch", "x86_64 i386", "arm64", "i686",
];
const T_OPSYS: &[&str] = &[
    "Darwin", "NetBSD", "SunOS", "Linux", "netbsd", "NETBSD", "DragonFly", "GNU/kFreeBSD", "Cygwin", "Minix",
    "FreeBSD", "OpenBSD", "Mac OS X",
];
const T_OS_VERSION: &[&str] = &[
    "18.7.0", "9.3", "10.0_STABLE", "9.99.82", "5.11", "5.15.0-91-generic", "10", "010", "9.0", "9.00", "1.10",
    "1.1", "0", "-1", "9.3_RC1", "18.7.0.0", "18.07.0", "1e3", "0x10", "+5", "9.", ".9", "10.0-RELEASE-p1",
];
const T_PKG_OPTIONS: &[&str] = &[
    "inet6 ssl", "ssl inet6", "inet6", "-inet6 ssl", "inet6  ssl", "inet6 inet6", "inet6,ssl", "INET6",
    "a b c d e f g h", "x11 -x11", "+ssl", "ssl\tinet6", "z a m",
];
const T_PKGNAME: &[&str] = &[
    "testpkg-1.0", "foo-1.0nb1", "foo-1.0nb0", "foo-1.0nb", "foo-1.0nb01", "foo-bar-2.3.4", "foo-bar-baz-1",
    "foo-1", "foo", "-1.0", "foo-", "-", "foo--1.0", "-foo-1.0", "foo-1.0-", "foo-1.0.tgz", "foo-1.0nb2.tgz",
    "p5-Foo-Bar-0.01", "py311-foo-1.0", "foo-1.0alpha2", "foo-1.0rc1", "foo-1.0_1", "foo-20240101", "foo-1.0pl2",
    "foo+bar-1.0", "foo.bar-1.0", "foo_bar-1.0", "Foo-1.0", "FOO-1.0", "foo-01.00", "foo 1.0", "foo-1.0nb1nb2",
    "foo-nb1", "libnbcompat-20230904", "foo-1.0nb1-2", "foo>=1.0", "foo-[0-9]*", "\u{e9}-1.0", "foo-1.0\u{e9}",
    "foo-1-0", "1.0", "foo-v1.0", "a-0", "foo-1.0.0", "foo-1.00", "foo-1.0nb00", "foo-0nb0", "foo-1.0NB1",
    "foo-1.0.tbz", "foo-1.0.", "foo-.1",
];
const T_PKGPATH: &[&str] = &[
    "pkgtools/testpkg", "cat/pkg", "../../cat/pkg", "../../pkgtools/testpkg", "../../cat/pkg/", "cat/pkg/",
    "./cat/pkg", "../cat/pkg", "../../../cat/pkg", "../../cat", "../../cat/pkg/sub", "/usr/pkgsrc/cat/pkg",
    "/cat/pkg", "cat//pkg", "cat/./pkg", "cat/../cat/pkg", "cat", "cat/", "/", "Cat/Pkg", "cat\\pkg", "wip/pkg",
    "../../wip/pkg", "local/../cat/pkg", "cat/pkg/Makefile", "../../cat/pkg/Makefile", "cat/p k g",
    "../..//cat/pkg", "..\\..\\cat\\pkg", "cat/pkg:option", "~/cat/pkg", "$PKGSRCDIR/cat/pkg", "../../cat/\u{e9}",
    "../../", "../..", "..", "../../devel/p5-Foo-Bar", "devel/py-foo", "../../cat/pkg/.", "./../../cat/pkg",
    "../../cat/./pkg", "../../cat/pkg/..", "../../CAT/PKG", "../.././cat/pkg",
];
const T_PKGTOOLS_VERSION: &[&str] = &[
    "20091115", "20210410", "020091115", "2009-11-15", "20091115nb1", "0", "-1", "1.0", "99999999999999999999",
    "9223372036854775808", "+20091115", "2.0091115e7", "0x1328F1B", "20,091,115", "\u{ff12}\u{ff10}\u{ff10}\u{ff19}",
    "20091115.0", "00000000",
];
const T_LIBPATH: &[&str] = &[
    "/opt/pkg/lib/libfoo.dylib", "/usr/pkg/lib/libfoo.so.1", "/usr/pkg/lib/libfoo.so.1.2.3",
    "/usr/pkg/lib/../lib/libfoo.so", "/usr/pkg/lib//libfoo.so", "/usr/pkg/lib/./libfoo.so", "/usr/pkg/lib/",
    "/usr/pkg/lib", "lib/libfoo.so", "./lib/libfoo.so", "../lib/libfoo.so", "libfoo.so", "/usr/pkg/lib/lib foo.so",
    "/", "//", "/usr/pkg/lib/lib\u{e9}.so", "@rpath/libfoo.dylib", "@executable_path/../lib/libfoo.dylib",
    "/System/Library/Frameworks/Foo.framework/Versions/A/Foo", "C:\\lib\\foo.dll", "/usr/lib/libc.so.12",
    "/usr/pkg/lib/libfoo.so.01", "/usr/pkg/LIB/libfoo.so",
];

/// The dictionary of plausible real-world values of one variable.
pub fn typed_dict(var: usize) -> &'static [&'static str] {
    match var {
        os::BUILD_DATE => T_BUILD_DATE,
        os::CATEGORIES => T_CATEGORIES,
        os::COMMENT => T_COMMENT,
        os::CONFLICTS | os::DEPENDS | os::SUPERSEDES => T_PATTERN,
        os::DESCRIPTION => T_DESCRIPTION,
        os::FILE_CKSUM => T_FILE_CKSUM,
        os::FILE_NAME => T_FILE_NAME,
        os::HOMEPAGE => T_HOMEPAGE,
        os::LICENSE => T_LICENSE,
        os::MACHINE_ARCH => T_MACHINE_ARCH,
        os::OPSYS => T_OPSYS,
        os::OS_VERSION => T_OS_VERSION,
        os::PKG_OPTIONS => T_PKG_OPTIONS,
        os::PKGNAME => T_PKGNAME,
        os::PKGPATH | os::PREV_PKGPATH => T_PKGPATH,
        os::PKGTOOLS_VERSION => T_PKGTOOLS_VERSION,
        os::PROVIDES | os::REQUIRES => T_LIBPATH,
        _ => &[],
    }
}

/// Tokens that are special to *some* format or tool (numbers, booleans,
/// quoting, escapes, comment markers, path prefixes, invisible characters,
/// case-folding and normalisation traps) - plain text to pkg_summary.
pub const T_GENERIC: &[&str] = &[
    "0", "1", "-1", "007", "+5", "1.0", "1.10", "1e3", "0x10", "12345678901234567890", "9223372036854775807",
    "-9223372036854775808", "-0", "1_000", "NaN", "inf", "true", "false", "yes", "no", "null", "None", "nil",
    "undefined", "\"\"", "''", "\"quoted\"", "'single'", "`back`", "\\", "\\n", "a\\nb", "\\t", "\\\\", "a\\",
    "\\x41", "\\u00e9", "%20", "%", "%s", "%d", "%%", "{}", "{0}", "${VAR}", "$VAR", "$(cmd)", "$$", "#",
    "#comment", "a #b", "//", "/* c */", ";", "--", "&amp;", "&", "<", ">", "<x>", "|", "*", "?", "[a]", "!", "@",
    "^", "\u{feff}", "\u{feff}x", "x\u{feff}", "\u{feff}\u{feff}", "./", "./x", "../", "../../", "../../x", "..",
    ".", "/", "~", "-", "--x", "+", "+=", ":=", "?=", "!=", ":", "a:b", "\u{df}", "\u{130}", "\u{131}", "\u{1c5}",
    "\u{fb01}", "\u{1e9e}", "\u{212a}", "\u{17f}", "e\u{301}", "\u{1112}\u{1161}\u{11ab}", "a\u{200b}b", "\u{200b}",
    "\u{200d}", "\u{2060}", "\u{ad}", "\u{200f}", "\u{202e}abc", "\u{a0}x", "x\u{a0}", "\u{3000}x", "\u{2000}x",
    "x\u{2003}", "\u{1}", "\u{7f}", "\u{1b}[31m", "\u{8}", "x\u{0}y",
];

/// One value from the per-variable dictionary (2/3) or from the generic
/// tokens and the 23 variable names themselves (1/3).
pub fn typed_base(r: &mut Rng, var: usize) -> String {
    let d = typed_dict(var);
    if !d.is_empty() && r.chance(2, 3) {
        return pk(r, d).to_string();
    }
    match r.below(8) {
        0 => VARS[r.below(NVARS)].name.to_string(),
        1 => format!("{}=", VARS[r.below(NVARS)].name),
        _ => pk(r, T_GENERIC).to_string(),
    }
}

pub const NDECOR: usize = 26;

/// Decorate a dictionary value the way a careless producer (or a careful
/// normaliser's input) would: decoration 0 is the identity.
pub fn decorate(v: &str, k: usize) -> String {
    match k % NDECOR {
        0 => v.to_string(),
        1 => format!("\u{feff}{v}"),
        2 => format!("./{v}"),
        3 => format!("../../{v}"),
        4 => format!("{v}/"),
        5 => format!("{v}.tgz"),
        6 => format!("{v} "),
        7 => format!(" {v}"),
        8 => v.to_uppercase(),
        9 => v.to_lowercase(),
        10 => format!("\"{v}\""),
        11 => format!("{v}{v}"),
        12 => format!("{v}\\"),
        13 => format!("/{v}"),
        14 => v.replace(' ', "  "),
        15 => format!("{v}\u{a0}"),
        16 => format!("\u{a0}{v}"),
        17 => format!("\u{200b}{v}"),
        18 => format!("{v}nb0"),
        19 => format!("{v}-"),
        20 => format!("-{v}"),
        21 => format!("{v}="),
        22 => format!("={v}"),
        23 => format!("{v}\t"),
        24 => format!("{v} {v}"),
        _ => format!("{v}\u{feff}"),
    }
}

/// A typed value: mostly undecorated.
pub fn typed_value(r: &mut Rng, var: usize) -> String {
    let b = typed_base(r, var);
    if r.chance(2, 3) {
        b
    } else {
        decorate(&b, r.range(1, NDECOR - 1))
    }
}

/// Long values whose length sits around a power of two or another
/// plausible fixed limit, built from characters of one width at a chosen
/// byte alignment, so that a byte index chosen without regard to character
/// boundaries falls inside a character.
pub const LIMITS: [usize; 12] = [64, 80, 100, 128, 255, 256, 512, 1000, 1024, 2048, 4096, 8192];

/// `len` bytes (rounded down to whole characters, at least one) of
/// `width`-byte characters after `lead` ASCII bytes.
pub fn aligned_text(r: &mut Rng, width: usize, lead: usize, len: usize) -> String {
    let mut s = String::with_capacity(len + 4);
    for k in 0..lead {
        s.push((b'a' + (k % 26) as u8) as char);
    }
    loop {
        let c: &str = match width {
            1 => pk(r, &["a", "Z", "0", "-", ".", "_", "x"]),
            2 => pk(r, &["\u{e9}", "\u{fc}", "\u{df}", "\u{3a9}", "\u{436}"]),
            3 => pk(r, &MB3),
            4 => pk(r, &MB4),
            _ => match r.below(4) {
                0 => pk(r, &["a", "b", " ", "-"]),
                1 => pk(r, &["\u{e9}", "\u{fc}", "\u{df}", "\u{3a9}", "\u{436}"]),
                2 => pk(r, &MB3),
                _ => pk(r, &MB4),
            },
        };
        if s.len() + c.len() > len && s.len() > lead {
            break;
        }
        s.push_str(c);
        if s.len() >= len {
            break;
        }
    }
    s
}

/// A long text without CR/LF and without `=`: width 1-4 or 0 (mixed), any
/// alignment, length near one of LIMITS (or up to `max`).
pub fn long_text(r: &mut Rng, max: usize) -> String {
    let width = *r.pick(&[0usize, 2, 3, 4, 4, 3, 1]);
    let lead = r.below(5);
    let len = match r.below(4) {
        0 => r.range(150, max.max(151)),
        _ => {
            let l = *r.pick(&LIMITS);
            let l = if l + 8 > max { max.saturating_sub(8).max(20) } else { l };
            l + r.below(13) - 4
        }
    };
    aligned_text(r, width, lead, len)
}

pub fn size(r: &mut Rng) -> i64 {
    match r.below(12) {
        0 => 0,
        1 => 1,
        2 => -1,
        3 => i64::MAX,
        4 => i64::MIN,
        5 => i64::MAX - r.below(1000) as i64,
        6 => i64::MIN + r.below(1000) as i64,
        7 => 10i64.pow(r.below(19) as u32),
        8 => -(10i64.pow(r.below(19) as u32)),
        9 => r.next() as i64,
        _ => r.below(100_000_000) as i64,
    }
}

/// Line list of length 1-4, members may be empty.
pub fn list(r: &mut Rng) -> Vec<String> {
    let n = r.range(1, 4);
    (0..n).map(|_| value(r)).collect()
}

/// A value for one particular variable: the awkward generic values mixed
/// with the variable's typed dictionary and, rarely, a long value.
pub fn value_for(r: &mut Rng, var: usize) -> String {
    match r.below(64) {
        // a string literal of the library's own summary code, alone or around a word
        19 => {
            let lits: Vec<&'static str> = crate::corpus::literal_strs(&["summary", "pkgname", "pkgpath", "depend", "dewey"])
                .into_iter()
                .filter(|s| s.len() <= 40 && !s.contains(|c| c == '\n' || c == '\r'))
                .collect();
            if lits.is_empty() {
                return value(r);
            }
            let l = lits[r.below(lits.len())];
            match r.below(4) {
                0 => l.to_string(),
                1 => format!("{l}{}", pk(r, &WORDS)),
                2 => format!("{}{l}", pk(r, &WORDS)),
                _ => format!("{l}={l}"),
            }
        }
        0..=17 => typed_value(r, var),
        18 => long_text(r, 1200),
        _ => value(r),
    }
}

/// Line list of length 1-4 for one variable; one time in six a member is
/// repeated (a reader that sorts or de-duplicates lists would change it).
pub fn list_for(r: &mut Rng, var: usize) -> Vec<String> {
    let n = r.range(1, 4);
    let mut l: Vec<String> = (0..n).map(|_| value_for(r, var)).collect();
    if r.chance(1, 6) {
        let from = r.below(l.len());
        let at = r.range(0, l.len());
        let dup = l[from].clone();
        l.insert(at, dup);
    }
    l
}

pub fn val_for(r: &mut Rng, var: usize) -> Val {
    match VARS[var].kind {
        Kind::S => Val::S(value_for(r, var)),
        Kind::I => Val::I(size(r)),
        Kind::A => Val::A(list_for(r, var)),
    }
}

/// Harness self-test: no dictionary value may contain a line break (a
/// generator bug must stop the harness, not be reported against the library).
pub fn selfcheck_dicts() {
    for var in 0..NVARS {
        for v in typed_dict(var).iter().chain(T_GENERIC.iter()) {
            for k in 0..NDECOR {
                let d = decorate(v, k);
                assert!(!d.contains(['\n', '\r']), "harness bug: dictionary value with a line break: {d:?}");
            }
        }
    }
}

// ---------------------------------------------------------------------------
// Model entries
// ---------------------------------------------------------------------------

/// A complete entry: all eleven required variables, optional ones with
/// probability `opt_num/opt_den` each (`all_optional` forces all 23).
pub fn model(r: &mut Rng, all_optional: bool, opt_num: usize, opt_den: usize) -> Entry {
    let mut e = Entry::new();
    for var in 0..NVARS {
        let take = VARS[var].required || all_optional;
        // Draw both always so the stream consumption does not depend on the flag.
        let coin = r.chance(opt_num, opt_den);
        let val = val_for(r, var);
        if take || coin {
            e.set(var, val);
        }
    }
    relate(r, &mut e);
    e
}

/// One entry in five gets values that are *related to each other or to the
/// entry's own syntax* - independent draws never produce these:
/// a value that begins with its own (or another) `VAR=` once or twice; the
/// same text under two variables (PROVIDES / REQUIRES, PKGPATH / PREV_PKGPATH,
/// any two); a dependency, conflict or supersede pattern on the entry's own
/// PKGBASE; FILE_NAME built from PKGNAME.  The values stay ordinary text, so
/// every expectation is still "what was set is what is printed and parsed".
pub fn relate(r: &mut Rng, e: &mut Entry) {
    if !r.chance(1, 5) {
        return;
    }
    let set_vars: Vec<usize> = (0..NVARS).filter(|&v| e.vals[v].is_some() && VARS[v].kind != Kind::I).collect();
    if set_vars.is_empty() {
        return;
    }
    let first_text = |e: &Entry, v: usize| -> String {
        match &e.vals[v] {
            Some(Val::S(s)) => s.clone(),
            Some(Val::A(a)) => a.first().cloned().unwrap_or_default(),
            _ => String::new(),
        }
    };
    let put = |e: &mut Entry, v: usize, t: String, r: &mut Rng| match &mut e.vals[v] {
        Some(Val::S(s)) => *s = t,
        Some(Val::A(a)) => {
            let at = r.below(a.len() + 1);
            a.insert(at, t);
        }
        _ => match VARS[v].kind {
            Kind::S => e.vals[v] = Some(Val::S(t)),
            Kind::A => e.vals[v] = Some(Val::A(vec![t])),
            Kind::I => {}
        },
    };
    let clean = |t: String| -> String { t.chars().filter(|c| *c != '\n' && *c != '\r').collect() };
    match r.below(6) {
        0 => {
            // own name in front, once or twice
            let v = *r.pick(&set_vars);
            let t = first_text(e, v);
            let n = VARS[v].name;
            let t = if r.chance(1, 2) { format!("{n}={t}") } else { format!("{n}={n}={t}") };
            put(e, v, t, r);
        }
        1 => {
            // another variable's whole line as a value
            let (v, w) = (*r.pick(&set_vars), *r.pick(&set_vars));
            let t = format!("{}={}", VARS[w].name, first_text(e, w));
            put(e, v, clean(t), r);
        }
        2 => {
            // the same text under two variables
            let (a, b) = match r.below(3) {
                0 => (os::PROVIDES, os::REQUIRES),
                1 => (os::PKGPATH, os::PREV_PKGPATH),
                _ => (*r.pick(&set_vars), *r.pick(&set_vars)),
            };
            let t = if e.vals[a].is_some() { first_text(e, a) } else { "/usr/pkg/lib/libfoo.so.1".to_string() };
            if e.vals[a].is_none() {
                put(e, a, t.clone(), r);
            }
            put(e, b, t, r);
        }
        3 | 4 => {
            // a pattern on the entry's own PKGBASE
            let name = first_text(e, os::PKGNAME);
            let base = name.rsplit_once('-').map(|(b, _)| b.to_string()).unwrap_or(name.clone());
            let suf = *r.pick(&[">=0.9", "<2", "-[0-9]*", "", ">1<3", "-*", "-extra>=1"]);
            let v = *r.pick(&[os::DEPENDS, os::CONFLICTS, os::SUPERSEDES, os::DEPENDS]);
            put(e, v, clean(format!("{base}{suf}")), r);
        }
        _ => {
            let name = first_text(e, os::PKGNAME);
            put(e, os::FILE_NAME, clean(format!("{name}.tgz")), r);
        }
    }
}

/// A compact complete entry for stream workloads: short values, so that a
/// stream of a few entries stays within a few hundred bytes, with
/// multi-byte characters sprinkled in.  `mb_last` makes the last value
/// before the separator end in a multi-byte character (through SUPERSEDES,
/// the only variable printed after the integer SIZE_PKG).
pub fn compact_model(
    r: &mut Rng,
    optional_num: usize,
    optional_den: usize,
    mb_last: bool,
    tiny: bool,
) -> Entry {
    // `tiny`: every value is at most 8 bytes long
    let short = |r: &mut Rng| -> String {
        match r.below(10) {
            0 => String::new(),
            1 => "=".into(),
            2 => " ".into(),
            3 | 4 => multibyte_char(r).to_string(),
            5 => format!("{}{}", pk(r, &WORDS), multibyte_char(r)),
            6 => format!("{}{}", multibyte_char(r), pk(r, &WORDS)),
            7 if !tiny => pk(r, &PLAIN).to_string(),
            _ => pk(r, &WORDS).to_string(),
        }
    };
    let mut e = Entry::new();
    for var in 0..NVARS {
        let coin = r.chance(optional_num, optional_den);
        let val = match VARS[var].kind {
            Kind::S => Val::S(short(r)),
            Kind::I => Val::I(size(r)),
            Kind::A => {
                let n = r.range(1, 2);
                Val::A((0..n).map(|_| short(r)).collect())
            }
        };
        if VARS[var].required || coin {
            e.set(var, val);
        }
    }
    let tail = format!("{}{}", pk(r, &WORDS), multibyte_char(r));
    if mb_last {
        match &mut e.vals[os::SUPERSEDES] {
            Some(Val::A(a)) => a.push(tail),
            slot => *slot = Some(Val::A(vec![tail])),
        }
    }
    if !tiny && !mb_last {
        relate(r, &mut e);
    }
    e
}

// ---------------------------------------------------------------------------
// Call histories realising a model (C07)
// ---------------------------------------------------------------------------

#[derive(Clone, Debug, PartialEq, Eq)]
pub enum Op {
    Set(usize, Val),
    Push(usize, String),
}

impl Op {
    pub fn var(&self) -> usize {
        match self {
            Op::Set(v, _) | Op::Push(v, _) => *v,
        }
    }
    pub fn show(&self) -> String {
        match self {
            Op::Set(v, Val::S(s)) => format!("set {}={:?}", VARS[*v].name, s),
            Op::Set(v, Val::I(i)) => format!("set {}={}", VARS[*v].name, i),
            Op::Set(v, Val::A(a)) => format!("set {}={:?}", VARS[*v].name, a),
            Op::Push(v, s) => format!("push {}+={:?}", VARS[*v].name, s),
        }
    }
}

/// The calls for one variable, ending in its model value.
fn ops_for(r: &mut Rng, var: usize, target: &Val) -> Vec<Op> {
    let mut ops = vec![];
    // earlier values that must be overwritten
    let junk = match r.below(6) {
        0 | 1 | 2 => 0,
        3 | 4 => 1,
        _ => 2,
    };
    for _ in 0..junk {
        match VARS[var].kind {
            Kind::A if r.chance(1, 2) => {
                // junk built by pushing: must be wiped by a later set
                for _ in 0..r.range(1, 2) {
                    ops.push(Op::Push(var, value_for(r, var)));
                }
            }
            _ => {
                // sometimes the junk already equals the target (repetition)
                if r.chance(1, 4) {
                    ops.push(Op::Set(var, target.clone()));
                } else {
                    ops.push(Op::Set(var, val_for(r, var)));
                }
            }
        }
    }
    match target {
        Val::S(_) | Val::I(_) => ops.push(Op::Set(var, target.clone())),
        Val::A(a) => {
            // The first k members arrive through one set call, the rest
            // through pushes.  k = 0 (pushes only) is possible only while the
            // variable has never been touched; otherwise the set wipes the junk.
            let virgin = ops.is_empty();
            let lo = if virgin { 0 } else { 1 };
            let k = match r.below(4) {
                0 => a.len(),
                1 => lo,
                _ => r.range(lo, a.len()),
            };
            if k > 0 {
                ops.push(Op::Set(var, Val::A(a[..k].to_vec())));
            }
            for s in &a[k..] {
                ops.push(Op::Push(var, s.clone()));
            }
        }
    }
    ops
}

/// A random call history whose final values are exactly `m`: per-variable
/// call sequences (with overwritten junk and repetitions) merged in a random
/// interleaving that keeps each variable's own order.
pub fn history(r: &mut Rng, m: &Entry) -> Vec<Op> {
    let mut queues: Vec<std::collections::VecDeque<Op>> = vec![];
    for var in 0..NVARS {
        if let Some(t) = m.get(var) {
            queues.push(ops_for(r, var, t).into());
        }
    }
    let mut out = vec![];
    // A third of the histories go through the variables in reverse or
    // shuffled block order instead of a fine interleaving.
    match r.below(3) {
        0 => {
            queues.reverse();
            for q in queues {
                out.extend(q);
            }
        }
        _ => {
            while !queues.is_empty() {
                let k = r.below(queues.len());
                if let Some(op) = queues[k].pop_front() {
                    out.push(op);
                }
                if queues[k].is_empty() {
                    queues.swap_remove(k);
                }
            }
        }
    }
    out
}

/// Apply a history to the model (the reference semantics of set/push).
pub fn replay_history(ops: &[Op]) -> Entry {
    let mut e = Entry::new();
    for op in ops {
        match op {
            Op::Set(v, val) => e.set(*v, val.clone()),
            Op::Push(v, s) => e.push(*v, s),
        }
    }
    e
}

/// Calls that only observe an entry.  Interleaved with the mutating calls
/// they must change nothing - and what they show must be the entry as it is
/// at that moment (an implementation that remembers what it printed or
/// derived, and forgets to drop that on some mutating path, fails here).
#[derive(Clone, Copy, Debug, PartialEq, Eq)]
pub enum Obs {
    /// `to_string()`, compared with the model at this point
    Print,
    /// `format!("{}")` twice
    PrintTwice,
    /// all 23 getters
    Getters,
    IsCompleted,
    /// continue on a clone; the original must still show the old state at the end
    CloneContinue,
    /// clone, print the clone, drop it
    CloneDrop,
    /// `{:?}`, pkgbase(), pkgversion(), description_as_str(): called, not compared
    Derived,
    /// move the entry into a SummaryStream, print the stream, move it back
    StreamPrint,
}

pub const OBS_ALL: [Obs; 8] = [
    Obs::Print,
    Obs::PrintTwice,
    Obs::Getters,
    Obs::IsCompleted,
    Obs::CloneContinue,
    Obs::CloneDrop,
    Obs::Derived,
    Obs::StreamPrint,
];

impl Obs {
    pub fn name(self) -> &'static str {
        match self {
            Obs::Print => "print",
            Obs::PrintTwice => "print_twice",
            Obs::Getters => "getters",
            Obs::IsCompleted => "is_completed",
            Obs::CloneContinue => "clone_continue",
            Obs::CloneDrop => "clone_drop",
            Obs::Derived => "derived",
            Obs::StreamPrint => "stream_print",
        }
    }
}

#[derive(Clone, Debug, PartialEq, Eq)]
pub enum Step {
    Mut(Op),
    Obs(Obs),
}

impl Step {
    pub fn show(&self) -> String {
        match self {
            Step::Mut(op) => op.show(),
            Step::Obs(o) => format!("<{}>", o.name()),
        }
    }
}

#[derive(Clone, Copy, Debug, PartialEq, Eq)]
pub enum ObsMode {
    /// no observation before the end
    None,
    /// an observation in about every fifth gap
    Sparse,
    /// a print after every mutating call, other observations sprinkled in
    Dense,
    /// an observation directly before every push_* and after every set_* of
    /// a multi-line variable
    AroundLists,
}

fn any_obs(r: &mut Rng) -> Obs {
    match r.below(12) {
        0..=3 => Obs::Print,
        4 => Obs::PrintTwice,
        5 | 6 => Obs::Getters,
        7 => Obs::IsCompleted,
        8 => Obs::CloneContinue,
        9 => Obs::CloneDrop,
        10 => Obs::Derived,
        _ => Obs::StreamPrint,
    }
}

/// Interleave observation calls with a history.
pub fn observed(r: &mut Rng, ops: &[Op], mode: ObsMode) -> Vec<Step> {
    let mut out = Vec::with_capacity(ops.len() * 2);
    for op in ops {
        let is_list = VARS[op.var()].kind == Kind::A;
        match mode {
            ObsMode::None => {}
            ObsMode::Sparse => {
                if r.chance(1, 5) {
                    out.push(Step::Obs(any_obs(r)));
                }
            }
            ObsMode::Dense => {
                if r.chance(1, 4) {
                    out.push(Step::Obs(any_obs(r)));
                }
            }
            ObsMode::AroundLists => {
                if matches!(op, Op::Push(..)) {
                    out.push(Step::Obs(any_obs(r)));
                }
            }
        }
        out.push(Step::Mut(op.clone()));
        match mode {
            ObsMode::Dense => out.push(Step::Obs(Obs::Print)),
            ObsMode::AroundLists if is_list && matches!(op, Op::Set(..)) => {
                out.push(Step::Obs(any_obs(r)));
            }
            _ => {}
        }
    }
    out
}

// ---------------------------------------------------------------------------
// Entry texts (C08): any subset / order / repetition, injected faults
// ---------------------------------------------------------------------------

pub fn line_for(r: &mut Rng, var: usize) -> Line {
    let text = match VARS[var].kind {
        Kind::I => size(r).to_string(),
        _ => value_for(r, var),
    };
    Line { var, text }
}

/// Well-formed lines in random order with repetitions.  With `complete` all
/// eleven required variables occur; otherwise 1-3 of them are left out
/// (returned as the second component).
pub fn wellformed(r: &mut Rng, complete: bool) -> (Vec<Line>, Vec<usize>) {
    let mut left_out = vec![];
    if !complete {
        let n = r.range(1, 3);
        let mut req = REQUIRED.to_vec();
        r.shuffle(&mut req);
        left_out = req[..n].to_vec();
        left_out.sort();
    }
    let mut lines = vec![];
    for var in 0..NVARS {
        if left_out.contains(&var) {
            continue;
        }
        let present = VARS[var].required || r.chance(1, 2);
        if !present {
            continue;
        }
        let reps = match r.below(8) {
            0..=4 => 1,
            5 | 6 => 2,
            _ => 3,
        };
        for _ in 0..reps {
            lines.push(line_for(r, var));
        }
    }
    match r.below(4) {
        0 => {}                      // canonical-ish order, repetitions adjacent
        1 => lines.reverse(),
        _ => r.shuffle(&mut lines),
    }
    (lines, left_out)
}

pub fn render(lines: &[String], trailing_newline: bool) -> String {
    let mut t = lines.join("\n");
    if trailing_newline && !lines.is_empty() {
        t.push('\n');
    }
    t
}

pub const NO_EQ: [&str; 15] = [
    // lines that look blank and are not.  (A line holding only a carriage
    // return is left out: for a reader of CRLF text it *is* a blank line, and
    // the statements do not say which reading applies.)
    "\u{a0}",
    "\u{feff}",
    "\u{b}",
    "BUILD_DATE",
    "garbage",
    "PKGNAME testpkg-1.0",
    " ",
    "\u{e9}",
    "# comment",
    "PKGNAME:foo",
    "SIZE_PKG 12",
    "\t",
    "DESCRIPTION",
    "x",
    "\u{1f600}\u{20ac}",
];

/// Names that are not one of the 23: unknown, misspelt, case-changed,
/// blank-padded.  None contains `=`, none is empty.
pub const BAD_NAMES: [(&str, &str); 20] = [
    ("FOO", "unknown"),
    ("MAINTAINER", "unknown"),
    ("PKG", "unknown"),
    ("X", "unknown"),
    ("BILD_DATE", "misspelt"),
    ("PKG_NAME", "misspelt"),
    ("PKGOPTIONS", "misspelt"),
    ("PKGNAMES", "misspelt"),
    ("PKGNAM", "misspelt"),
    ("SIZEPKG", "misspelt"),
    ("FILE-SIZE", "misspelt"),
    ("DESCRIPTION\u{e9}", "misspelt"),
    ("pkgname", "case"),
    ("Pkgname", "case"),
    ("build_date", "case"),
    ("Size_Pkg", "case"),
    (" PKGNAME", "padded"),
    ("PKGNAME ", "padded"),
    ("\tCOMMENT", "padded"),
    ("SIZE_PKG ", "padded"),
];

/// Characters that do not show (or show as a blank) when a text is viewed:
/// glued to a variable name they make it a name outside the table.  None of
/// them is treated as a line break by any common line splitter.
pub const INVISIBLE: [(&str, &str); 22] = [
    ("\u{feff}", "bom"),
    ("\u{200b}", "zwsp"),
    ("\u{200c}", "zwnj"),
    ("\u{200d}", "zwj"),
    ("\u{2060}", "wj"),
    ("\u{ad}", "shy"),
    ("\u{a0}", "nbsp"),
    ("\u{202f}", "nnbsp"),
    ("\u{2007}", "figsp"),
    ("\u{3000}", "idsp"),
    ("\u{2003}", "emsp"),
    ("\u{1680}", "ogham"),
    (" ", "space"),
    ("\t", "tab"),
    ("  ", "spaces"),
    ("\u{0}", "nul"),
    ("\u{200e}", "lrm"),
    ("\u{301}", "combining"),
    ("\u{fe0f}", "vs16"),
    ("\u{7f}", "del"),
    ("\u{1}", "soh"),
    ("\u{feff}\u{feff}", "bombom"),
];

/// Lines that show as nothing and hold no `=`.
pub const INVISIBLE_LINES: [&str; 8] =
    ["\u{feff}", "\u{200b}", "\u{2060}", "\u{a0}", "\u{feff}\u{feff}", "\u{feff} ", "\u{3000}", "\u{200d}\u{200b}"];

/// Look-alikes of one ASCII character of a name: homoglyphs from other
/// scripts, characters that a case mapping turns into it, near misses.
fn lookalikes(c: char) -> &'static [&'static str] {
    match c {
        'A' => &["\u{410}", "\u{391}", "a", "\u{ff21}", "4"],
        'B' => &["\u{412}", "\u{392}", "b", "8"],
        'C' => &["\u{421}", "c", "\u{216d}"],
        'D' => &["d", "\u{216e}"],
        'E' => &["\u{415}", "\u{395}", "e", "3"],
        'F' => &["f", "\u{3dc}"],
        'G' => &["g", "\u{50c}"],
        'H' => &["\u{41d}", "\u{397}", "h"],
        'I' => &["\u{406}", "\u{399}", "\u{131}", "\u{130}", "i", "1", "l", "|"],
        'K' => &["\u{41a}", "\u{212a}", "k", "\u{39a}"],
        'L' => &["l", "1", "\u{216c}"],
        'M' => &["\u{41c}", "\u{39c}", "m"],
        'N' => &["\u{39d}", "n"],
        'O' => &["\u{41e}", "\u{39f}", "0", "o"],
        'P' => &["\u{420}", "\u{3a1}", "p"],
        'Q' => &["q"],
        'R' => &["r", "\u{280}"],
        'S' => &["\u{405}", "\u{17f}", "s", "5", "$"],
        'T' => &["\u{422}", "\u{3a4}", "t"],
        'U' => &["u", "V"],
        'V' => &["v", "U"],
        'Z' => &["z", "\u{396}", "2"],
        '_' => &["-", " ", "\u{ff3f}", "__", "", ".", "\u{2010}", "\u{a0}"],
        _ => &[],
    }
}

/// Every near miss of the 23 names built from invisible characters
/// (prefix, suffix, after the first character, around each `_`) and from
/// look-alike characters (one position replaced; whole name in lower case,
/// full-width, or with a ligature).  Returns (name, flavour).
pub fn near_miss_names() -> Vec<(String, String)> {
    let mut out: Vec<(String, String)> = vec![];
    for v in VARS.iter() {
        let name = v.name;
        for (inv, tag) in INVISIBLE {
            out.push((format!("{inv}{name}"), format!("invisible_prefix/{tag}")));
            out.push((format!("{name}{inv}"), format!("invisible_suffix/{tag}")));
            out.push((format!("{}{inv}{}", &name[..1], &name[1..]), format!("invisible_infix/{tag}")));
            if let Some(u) = name.find('_') {
                out.push((format!("{}{inv}{}", &name[..u], &name[u..]), format!("invisible_infix/{tag}")));
                out.push((format!("{}{inv}{}", &name[..u + 1], &name[u + 1..]), format!("invisible_infix/{tag}")));
            }
        }
        for (k, c) in name.char_indices() {
            for l in lookalikes(c) {
                out.push((format!("{}{l}{}", &name[..k], &name[k + 1..]), "lookalike_char".to_string()));
            }
        }
        out.push((name.to_lowercase(), "lookalike_whole".to_string()));
        let fullwidth: String = name
            .chars()
            .map(|c| char::from_u32(c as u32 + 0xFEE0).unwrap_or(c))
            .collect();
        out.push((fullwidth, "lookalike_whole".to_string()));
        let mut cap = name.to_lowercase();
        cap[..1].make_ascii_uppercase();
        out.push((cap, "lookalike_whole".to_string()));
        if name.contains("FI") {
            out.push((name.replace("FI", "\u{fb01}"), "lookalike_whole".to_string()));
        }
        out.push((format!("{name}{name}"), "lookalike_whole".to_string()));
        out.push((name[..name.len() - 1].to_string(), "lookalike_whole".to_string()));
        out.push((name[1..].to_string(), "lookalike_whole".to_string()));
    }
    // a near miss of one name may be another name (none is today): drop those
    out.retain(|(n, _)| os::index_of(n).is_none() && !n.is_empty() && !n.contains('='));
    out
}

/// Values that are not integers under any reasonable reading.
pub const BAD_INTS: [&str; 12] = [
    "",
    "12x",
    "1.5",
    " 5",
    "5 ",
    "9223372036854775808",
    "-9223372036854775809",
    "99999999999999999999999999",
    "abc",
    "0x10",
    "1e3",
    "--5",
];

#[derive(Clone, Debug, PartialEq, Eq)]
pub enum Fault {
    /// insert a line without `=`
    NoEq(String),
    /// insert `NAME=value` with a name outside the table (second = flavour)
    BadName(String, &'static str),
    /// insert `=value` (empty name): malformed line or unknown variable
    EmptyName(String),
    /// insert an extra FILE_SIZE/SIZE_PKG line with a non-integer value
    BadIntInsert(usize, String),
    /// replace the value of every existing line of FILE_SIZE/SIZE_PKG
    BadIntReplace(usize, String),
    /// remove every line of a required variable
    Remove(usize),
}

impl Fault {
    pub fn class(&self) -> &'static str {
        match self {
            Fault::NoEq(_) => "line",
            Fault::BadName(..) => "variable",
            Fault::EmptyName(_) => "emptyname",
            Fault::BadIntInsert(..) | Fault::BadIntReplace(..) => "int",
            Fault::Remove(_) => "missing",
        }
    }
    pub fn show(&self) -> String {
        match self {
            Fault::NoEq(s) => format!("line without '=' {s:?}"),
            Fault::BadName(s, f) => format!("{f} name line {s:?}"),
            Fault::EmptyName(s) => format!("empty name line {s:?}"),
            Fault::BadIntInsert(v, s) => format!("extra {}={s:?}", VARS[*v].name),
            Fault::BadIntReplace(v, s) => format!("{} value replaced by {s:?}", VARS[*v].name),
            Fault::Remove(v) => format!("{} removed", VARS[*v].name),
        }
    }
}

#[derive(Clone, Copy, Debug, PartialEq, Eq)]
pub enum Pos {
    First,
    Middle,
    Last,
}

impl Pos {
    pub fn name(self) -> &'static str {
        match self {
            Pos::First => "first",
            Pos::Middle => "middle",
            Pos::Last => "last",
        }
    }
    pub const ALL: [Pos; 3] = [Pos::First, Pos::Middle, Pos::Last];
}

pub fn bad_name_line(r: &mut Rng) -> Fault {
    let (n, flavour) = *r.pick(&BAD_NAMES);
    Fault::BadName(format!("{}={}", n, value(r)), flavour)
}

pub fn fault_of_class(r: &mut Rng, class: &str) -> Fault {
    match class {
        "line" => Fault::NoEq(pk(r, &NO_EQ).to_string()),
        "variable" => bad_name_line(r),
        "emptyname" => Fault::EmptyName(format!("={}", value(r))),
        "int" => {
            let var = if r.chance(1, 2) { os::FILE_SIZE } else { os::SIZE_PKG };
            let bad = pk(r, &BAD_INTS).to_string();
            if r.chance(1, 2) {
                Fault::BadIntReplace(var, bad)
            } else {
                Fault::BadIntInsert(var, bad)
            }
        }
        _ => Fault::Remove(*r.pick(&REQUIRED)),
    }
}

/// Result of injecting faults into well-formed lines.
pub struct Faulty {
    pub lines: Vec<String>,
    /// Causes of rejection present, by construction.
    pub causes: Vec<Cause>,
}

/// Inject one fault.  Inserted lines go to `pos`; the well-formed lines stay
/// otherwise untouched, so exactly the returned causes are present.
pub fn inject(r: &mut Rng, base: &[Line], fault: &Fault, pos: Pos) -> Faulty {
    let mut lines: Vec<String> = base.iter().map(|l| l.render()).collect();
    let at = |r: &mut Rng, n: usize| match pos {
        Pos::First => 0,
        Pos::Last => n,
        Pos::Middle => {
            if n >= 2 {
                r.range(1, n - 1)
            } else {
                n / 2
            }
        }
    };
    let p = at(r, lines.len());
    let mut causes = vec![];
    match fault {
        Fault::NoEq(s) => {
            lines.insert(p, s.clone());
            causes.push(Cause::Line);
        }
        Fault::BadName(s, _) => {
            lines.insert(p, s.clone());
            causes.push(Cause::Variable);
        }
        Fault::EmptyName(s) => {
            lines.insert(p, s.clone());
            causes.push(Cause::Line);
            causes.push(Cause::Variable);
        }
        Fault::BadIntInsert(var, s) => {
            lines.insert(p, format!("{}={}", VARS[*var].name, s));
            causes.push(Cause::Int);
        }
        Fault::BadIntReplace(var, s) => {
            let mut any = false;
            for (k, l) in base.iter().enumerate() {
                if l.var == *var {
                    lines[k] = format!("{}={}", VARS[*var].name, s);
                    any = true;
                }
            }
            if !any {
                lines.insert(p, format!("{}={}", VARS[*var].name, s));
            }
            causes.push(Cause::Int);
            if VARS[*var].required {
                // a reader that drops the bad line could also call it missing
                causes.push(Cause::Missing(*var));
            }
        }
        Fault::Remove(var) => {
            let keep: Vec<String> = base
                .iter()
                .zip(lines.iter())
                .filter(|(l, _)| l.var != *var)
                .map(|(_, s)| s.clone())
                .collect();
            lines = keep;
            causes.push(Cause::Missing(*var));
        }
    }
    Faulty { lines, causes }
}

// ---------------------------------------------------------------------------
// Streams and partitions (C09)
// ---------------------------------------------------------------------------

pub struct Stream {
    /// The bytes as they are written to the stream ("the wire").
    pub bytes: Vec<u8>,
    /// Reference entries (for a malformed stream: only the well-formed ones
    /// before the bad entry are ever compared).
    pub entries: Vec<Entry>,
    /// Canonical text of each entry (without the separating blank line).
    pub texts: Vec<String>,
    /// Byte offset where each entry starts on the wire; `starts[k+1]` is one
    /// past the newline of entry k's blank line.
    pub starts: Vec<usize>,
    /// The canonical rendering of the whole stream (what printing the
    /// collection must give) and the offsets of its entries.  Equal to
    /// `bytes` / `starts` unless the wire carries the variables of an entry in
    /// another order than the canonical one.
    pub canon: Vec<u8>,
    pub canon_starts: Vec<usize>,
    /// Index and fault of the malformed entry, if any.
    pub bad: Option<(usize, Fault)>,
}

impl Stream {
    pub fn from_texts(entries: Vec<Entry>, texts: Vec<String>, bad: Option<(usize, Fault)>) -> Stream {
        let wire = texts.clone();
        Stream::from_wire(entries, texts, wire, bad)
    }
    /// `wire[k]` is what is sent for entry k, `texts[k]` what it prints as.
    pub fn from_wire(entries: Vec<Entry>, texts: Vec<String>, wire: Vec<String>, bad: Option<(usize, Fault)>) -> Stream {
        let lay = |ts: &[String]| {
            let mut bytes = vec![];
            let mut starts = vec![0];
            for t in ts {
                bytes.extend_from_slice(t.as_bytes());
                bytes.push(b'\n');
                starts.push(bytes.len());
            }
            (bytes, starts)
        };
        let (bytes, starts) = lay(&wire);
        let (canon, canon_starts) = lay(&texts);
        Stream { bytes, entries, texts, starts, canon, canon_starts, bad }
    }
    pub fn len(&self) -> usize {
        self.bytes.len()
    }
}

/// The lines of a canonical entry text with the per-variable blocks in
/// another order (the lines of one multi-line variable stay together and in
/// order, so the entry's values are unchanged).
pub fn shuffle_blocks(r: &mut Rng, text: &str) -> String {
    let mut blocks: Vec<Vec<&str>> = vec![];
    for line in text.lines() {
        let var = line.split('=').next().unwrap_or("");
        match blocks.last_mut() {
            Some(b) if b[0].split('=').next().unwrap_or("") == var => b.push(line),
            _ => blocks.push(vec![line]),
        }
    }
    r.shuffle(&mut blocks);
    let mut out = String::new();
    for b in blocks {
        for l in b {
            out.push_str(l);
            out.push('\n');
        }
    }
    out
}

/// A well-formed stream of `n` compact entries.
pub fn stream(r: &mut Rng, n: usize, opt_num: usize, opt_den: usize, tiny: bool) -> Stream {
    let mut entries: Vec<Entry> = vec![];
    for k in 0..n {
        // every other entry ends in a multi-byte character right before the separator
        let mb_last = k % 2 == 0 || r.chance(1, 3);
        let e = compact_model(r, opt_num, opt_den, mb_last, tiny);
        // one entry in six repeats an earlier one verbatim (a stream may list
        // the same package twice; a collection that is keyed or de-duplicated
        // by content or by PKGNAME would lose it)
        if k > 0 && r.chance(1, 6) {
            let j = r.below(k);
            let dup: Entry = entries[j].clone();
            entries.push(dup);
        } else {
            entries.push(e);
        }
    }
    let texts: Vec<String> = entries.iter().map(|e| e.print()).collect();
    // one stream in four carries its variables in a non-canonical order: every
    // write still succeeds, the entries are the same, and printing the
    // collection gives the canonical rendering
    if r.chance(1, 4) {
        let wire = texts.iter().map(|t| shuffle_blocks(r, t)).collect();
        return Stream::from_wire(entries, texts, wire, None);
    }
    Stream::from_texts(entries, texts, None)
}

/// A stream of small entries in which one blank-line separator straddles
/// the byte offset `target` (+ `shift`): the first of its two newlines is the
/// byte in front of that offset, the second the byte at it.  (A pending
/// buffer that is a ring, a block list or a paged file has a physical seam
/// at such offsets; a separator lying across it must still be seen.)  About
/// a dozen further entries follow.
pub fn aligned_stream(r: &mut Rng, target: usize, shift: isize) -> Stream {
    let at = (target as isize + shift).max(1400) as usize;
    let mut entries: Vec<Entry> = vec![];
    let mut texts: Vec<String> = vec![];
    let mut total = 0usize;
    let mut k = 0usize;
    let mut done = false;
    let mut after = 0;
    while after < 12 {
        let mut e = compact_model(r, 1, 3, k % 3 == 0, k % 2 == 0);
        e.set(os::PKGNAME, Val::S(format!("al{}-{}.{}", k % 5, k, k % 7)));
        let mut t = e.print();
        if !done && total + 1000 > at {
            // this entry has to end exactly at `at + 1`: lengthen its COMMENT
            let need = (at + 1).saturating_sub(total + t.len() + 1);
            let c = match e.get(os::COMMENT) {
                Some(Val::S(c)) => c.clone(),
                _ => String::new(),
            };
            e.set(os::COMMENT, Val::S(format!("{c}{}", "x".repeat(need))));
            t = e.print();
            assert!(total + t.len() + 1 == at + 1, "harness bug: aligned_stream missed its offset");
            done = true;
        }
        total += t.len() + 1;
        if done {
            after += 1;
        }
        entries.push(e);
        texts.push(t);
        k += 1;
    }
    Stream::from_texts(entries, texts, None)
}

/// A larger stream built from the full value generator (<= ~8 KiB).
pub fn big_stream(r: &mut Rng, n: usize) -> Stream {
    let mut entries: Vec<Entry> = vec![];
    let mut total = 0;
    for k in 0..n {
        let mut e = model(r, k == 0, 1, 2);
        if r.chance(1, 2) {
            let tail = format!("{}{}", pk(r, &WORDS), multibyte_char(r));
            e.push(os::SUPERSEDES, &tail);
        }
        let len = e.print().len() + 1;
        // keep the draw sequence independent of sizes; just stop adding
        if total + len <= 8192 || entries.is_empty() {
            total += len;
            entries.push(e);
        }
    }
    let texts = entries.iter().map(|e| e.print()).collect();
    Stream::from_texts(entries, texts, None)
}

/// How the entries of a huge stream look.
#[derive(Clone, Copy, Debug, PartialEq, Eq)]
pub enum Shape {
    /// the eleven required variables only, values of at most 8 bytes
    /// (~130 bytes per entry: the most entries per byte)
    Tiny,
    /// compact entries of ~150-300 bytes (thousands of entries)
    Small,
    /// entries from the full value generator (~0.5-2 KiB)
    Full,
    /// compact entries and, at two places, one giant entry: a DESCRIPTION of
    /// thousands of lines / one value of `giant` bytes
    Giant(usize),
}

/// A well-formed stream of at least `target` bytes, built cheaply: a few
/// template entries are repeated, each copy with a running number in
/// PKGNAME and COMMENT (so that all entries differ and their lengths drift),
/// every third copy ending in a multi-byte character right before the
/// separator.
pub fn huge_stream(r: &mut Rng, target: usize, shape: Shape) -> Stream {
    let ntemplates = r.range(3, 6);
    let templates: Vec<Entry> = (0..ntemplates)
        .map(|k| match shape {
            Shape::Full => model(r, k == 0, 1, 2),
            Shape::Tiny => compact_model(r, 0, 1, false, true),
            _ => compact_model(r, 1, 3, k % 2 == 0, false),
        })
        .collect();
    let tail_mb = multibyte_char(r);
    let giant_at = match shape {
        Shape::Giant(_) => [target / 5, target / 5 + target / 2],
        _ => [usize::MAX, usize::MAX],
    };
    let mut giants_done = 0;
    let mut entries = vec![];
    let mut texts: Vec<String> = vec![];
    let mut total = 0usize;
    let mut k = 0usize;
    while total < target {
        let mut e = templates[k % ntemplates].clone();
        e.set(os::PKGNAME, Val::S(format!("pkg{}-{}.{}nb{}", k % 7, k, k % 13, k % 3)));
        e.set(os::COMMENT, Val::S(format!("{}{} number {}", tail_mb, "x".repeat(k % 5), k)));
        if k % 3 == 0 {
            e.push(os::SUPERSEDES, &format!("old{k}{tail_mb}"));
        }
        if let Shape::Giant(g) = shape {
            if giants_done < 2 && total >= giant_at[giants_done] {
                if giants_done == 0 {
                    // thousands of lines
                    let mut lines = vec![];
                    let mut sz = 0;
                    let mut n = 0usize;
                    while sz < g {
                        let l = format!("line {n} of a very long description {tail_mb}{}", "z".repeat(n % 40));
                        sz += l.len() + 13;
                        lines.push(l);
                        n += 1;
                    }
                    e.set(os::DESCRIPTION, Val::A(lines));
                } else {
                    // one huge value
                    let w = [2usize, 3, 4][k % 3];
                    e.set(os::HOMEPAGE, Val::S(aligned_text(r, w, k % 4, g)));
                }
                giants_done += 1;
            }
        }
        let t = e.print();
        total += t.len() + 1;
        texts.push(t);
        entries.push(e);
        k += 1;
    }
    Stream::from_texts(entries, texts, None)
}

/// Where the malformed entry of a huge stream sits.
#[derive(Clone, Copy, Debug, PartialEq, Eq)]
pub enum Place {
    Last,
    BeforeLast,
    /// the first entry that starts beyond this byte offset
    Beyond(usize),
    /// somewhere in the second half
    SecondHalf,
}

/// A huge stream one of whose entries carries `fault`.
pub fn huge_bad_stream(r: &mut Rng, target: usize, shape: Shape, place: Place, fault: Fault, pos: Pos) -> Stream {
    let st = huge_stream(r, target, shape);
    let n = st.entries.len();
    let j = match place {
        Place::Last => n - 1,
        Place::BeforeLast => n.saturating_sub(2),
        Place::Beyond(off) => st.starts.partition_point(|&s| s <= off).min(n - 1),
        Place::SecondHalf => (n / 2 + r.below((n / 2).max(1))).min(n - 1),
    };
    let mut texts = st.texts;
    let f = inject(r, &canonical_lines(&st.entries[j]), &fault, pos);
    texts[j] = render(&f.lines, true);
    Stream::from_texts(st.entries, texts, Some((j, fault)))
}

/// Sizes at which an implementation might switch strategy.
pub const THRESHOLDS: [usize; 14] = [
    4096, 8192, 16_384, 32_768, 65_536, 131_072, 262_144, 524_288, 1_048_576, 10_000, 50_000, 100_000, 500_000,
    1_000_000,
];

/// Partitions of a huge stream into few, large chunks: (family, cuts).
/// `bad_at` = (start, end) of a malformed entry, if any, to aim cuts at.
pub fn large_partitions(r: &mut Rng, st: &Stream, random: usize) -> Vec<(&'static str, Vec<usize>)> {
    let len = st.len();
    let mut out: Vec<(&'static str, Vec<usize>)> = vec![("one_call", vec![])];
    let ts: Vec<usize> = THRESHOLDS.iter().copied().filter(|&t| t + 2 < len).collect();
    // the entry boundary at or after a byte offset
    let boundary_after = |off: usize| -> usize {
        let k = st.starts.partition_point(|&s| s < off);
        st.starts[k.min(st.starts.len() - 1)]
    };
    // [k, rest] for k around every threshold, and on/next to the entry boundary after it
    for &t in &ts {
        for d in [-2i64, -1, 0, 1, 2] {
            out.push(("big_head_at_limit", vec![(t as i64 + d) as usize]));
        }
        let b = boundary_after(t);
        for c in [b.saturating_sub(2), b.saturating_sub(1), b, b + 1] {
            if c > 0 && c < len {
                out.push(("big_head_at_boundary", vec![c]));
            }
        }
    }
    // a big block, then a short tail
    let last = st.starts[st.starts.len() - 2];
    let prev = if st.starts.len() >= 3 { st.starts[st.starts.len() - 3] } else { 0 };
    for t in [1usize, 2, 3, 7, (len - last) / 2, len - last, len - last + 1, len - (last + prev) / 2, 1000, 5000, 40_000, len / 3] {
        if t > 0 && t < len {
            out.push(("big_head_short_tail", vec![len - t]));
        }
    }
    // fixed chunk sizes
    for size in [
        1000usize, 4096, 8192, 16_384, 32_768, 65_536, 98_304, 131_072, 200_000, 262_144, 65_535, 65_537, 131_071,
        131_073, 524_288,
    ] {
        if size < len {
            out.push(("fixed_big", fixed_cuts(len, size)));
        }
    }
    // a big block, then many small ones (for the next ~48 KiB), then the rest
    for &t in ts.iter().filter(|&&t| t >= 16_384) {
        let mut c = t + r.below(600);
        let mut v = vec![c];
        let stop = (c + 48 * 1024).min(len);
        loop {
            c += match r.below(4) {
                0 => r.range(1, 8),
                1 => r.range(1, 200),
                _ => r.range(200, 3000),
            };
            if c >= stop {
                break;
            }
            v.push(c);
        }
        if stop < len && r.chance(1, 2) {
            v.push(stop);
        }
        out.push(("big_then_small", v));
    }
    // small ones, then a big block (and the rest)
    for &t in ts.iter().filter(|&&t| t >= 16_384) {
        let mut v = vec![];
        let mut c = 0;
        for _ in 0..r.range(1, 12) {
            c += r.range(1, 400);
            v.push(c);
        }
        let c2 = c + t + r.below(3);
        if c2 < len {
            v.push(c2);
        }
        out.push(("small_then_big", v));
    }
    // big and small alternating
    for &t in ts.iter().filter(|&&t| t >= 32_768) {
        let mut v = vec![];
        let mut c = 0;
        loop {
            c += t + r.below(5);
            if c >= len {
                break;
            }
            v.push(c);
            c += r.range(1, 300);
            if c >= len {
                break;
            }
            v.push(c);
        }
        out.push(("alternating_big_small", v));
    }
    // seeded: chunk lengths from a mixture of threshold-sized, arbitrary and tiny
    for k in 0..random {
        let mut v = vec![];
        let mut c = 0usize;
        loop {
            c += match r.below(6) {
                0 | 1 if !ts.is_empty() => {
                    let t = *r.pick(&ts);
                    (t + r.below(9)).saturating_sub(4)
                }
                2 => r.range(1, 64),
                3 => r.range(1, 5000),
                _ => r.range(1, (len / 2).max(2)),
            };
            if c >= len {
                break;
            }
            v.push(c);
        }
        if k % 3 == 0 {
            out.push(("zero_length_big", with_empty_chunks(r, len, &v)));
        } else {
            out.push(("random_big", v));
        }
    }
    out
}

/// The canonical lines of an entry as generator lines.
pub fn canonical_lines(e: &Entry) -> Vec<Line> {
    let mut out = vec![];
    for var in 0..NVARS {
        if let Some(v) = e.get(var) {
            for t in v.texts() {
                out.push(Line { var, text: t });
            }
        }
    }
    out
}

/// A stream of `n` entries whose entry `j` carries `fault`.
pub fn bad_stream(r: &mut Rng, n: usize, j: usize, fault: Fault, pos: Pos) -> Stream {
    let mut entries = vec![];
    let mut texts = vec![];
    for k in 0..n {
        let mb_last = r.chance(1, 2);
        let e = compact_model(r, 1, 3, mb_last, false);
        if k == j {
            let f = inject(r, &canonical_lines(&e), &fault, pos);
            texts.push(render(&f.lines, true));
        } else {
            texts.push(e.print());
        }
        entries.push(e);
    }
    Stream::from_texts(entries, texts, Some((j, fault)))
}

#[derive(Clone, Copy, Debug, PartialEq, Eq)]
pub enum CutClass {
    /// between the bytes of one multi-byte character
    InChar,
    /// between the two newlines of a separator
    InSeparator,
    Other,
}

pub fn classify_cut(bytes: &[u8], c: usize) -> CutClass {
    if c == 0 || c >= bytes.len() {
        return CutClass::Other;
    }
    if bytes[c] & 0xC0 == 0x80 {
        CutClass::InChar
    } else if bytes[c - 1] == b'\n' && bytes[c] == b'\n' {
        CutClass::InSeparator
    } else {
        CutClass::Other
    }
}

/// Turn sorted chunk boundaries (duplicates = zero-length chunks, values in
/// 0..=len) into chunk ranges covering 0..len.
pub fn chunks_of(len: usize, cuts: &[usize]) -> Vec<(usize, usize)> {
    let mut out = vec![];
    let mut prev = 0;
    for &c in cuts {
        let c = c.min(len);
        out.push((prev, c));
        prev = c;
    }
    out.push((prev, len));
    out
}

pub fn fixed_cuts(len: usize, size: usize) -> Vec<usize> {
    let mut v = vec![];
    let mut c = size;
    while c < len {
        v.push(c);
        c += size;
    }
    v
}

/// Seeded random partition: either uniformly placed cuts or chunk lengths
/// from a skewed distribution (many tiny chunks, a few large ones).
pub fn random_cuts(r: &mut Rng, len: usize) -> Vec<usize> {
    let mut v = vec![];
    if len < 2 {
        return v;
    }
    if r.chance(1, 2) {
        let n = r.range(1, 40.min(len - 1));
        for _ in 0..n {
            v.push(r.range(1, len - 1));
        }
        v.sort();
        v.dedup();
    } else {
        let mut c = 0;
        loop {
            let step = match r.below(6) {
                0 | 1 => 1,
                2 => r.range(1, 4),
                3 => r.range(1, 16),
                4 => r.range(1, 128),
                _ => r.range(1, 1024),
            };
            c += step;
            if c >= len {
                break;
            }
            v.push(c);
        }
    }
    v
}

/// Interleave zero-length chunks: duplicate some boundaries and add empty
/// writes at the very start and the very end.
pub fn with_empty_chunks(r: &mut Rng, len: usize, cuts: &[usize]) -> Vec<usize> {
    let mut v = vec![];
    if r.chance(2, 3) {
        v.push(0);
    }
    for &c in cuts {
        v.push(c);
        let extra = match r.below(4) {
            0 => 0,
            1 | 2 => 1,
            _ => 2,
        };
        for _ in 0..extra {
            v.push(c);
        }
    }
    if r.chance(2, 3) {
        v.push(len);
    }
    if v.is_empty() {
        v.push(0);
    }
    v
}
