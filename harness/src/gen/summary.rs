//! Generators for the summary monitors.
