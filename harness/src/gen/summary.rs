//! Generators shared by the pkg_summary monitors C07, C08, C09: awkward
//! values, model entries, call histories, entry texts with injected faults,
//! streams and partitions.  Nothing in here calls the library.

use crate::oracle::summary::{
    self as os, Cause, Entry, Kind, Line, Val, NVARS, REQUIRED, VARS,
};
use crate::rng::Rng;

// ---------------------------------------------------------------------------
// Values (never contain CR or LF)
// ---------------------------------------------------------------------------

const PLAIN: [&str; 16] = [
    "2019-08-12 15:58:02 +0100",
    "devel pkgtools",
    "This is a test",
    "x86_64",
    "Darwin",
    "18.7.0",
    "testpkg-1.0",
    "pkgtools/testpkg",
    "20091115",
    "https://docs.rs/pkgsrc/",
    "apache-2.0 OR modified-bsd",
    "dep-pkg2>=2.0",
    "cfl-pkg1-[0-9]*",
    "/opt/pkg/lib/libfoo.dylib",
    "SHA1 a4801e9b26eeb5b8bd1f54bac1c8e89dec67786a",
    "a",
];
const WITH_EQ: [&str; 10] =
    ["=", "a=b", "==", "k=v=w", "=lead", "trail=", "a = b", "x==y=", "=\u{e9}=", "CFLAGS=-O2 -g"];
const BLANKS: [&str; 10] =
    [" ", "  ", " x", "x ", "  x  ", "\tx", "x\t", "\t", " = ", " a b "];
const LOOKALIKE: [&str; 8] = [
    "PKGNAME=foo-1.0",
    "DESCRIPTION=",
    "SIZE_PKG=12",
    "BUILD_DATE",
    "COMMENT=COMMENT=",
    "FILE_SIZE=abc",
    "pkgname=x",
    "NOTAVAR=1",
];
/// 2-, 3- and 4-byte UTF-8.
const MB2: [&str; 6] = ["\u{e9}", "\u{fc}", "\u{df}", "\u{3a9}", "\u{436}", "\u{a0}"];
const MB3: [&str; 6] = ["\u{20ac}", "\u{65e5}", "\u{672c}", "\u{2603}", "\u{3042}", "\u{ffe6}"];
const MB4: [&str; 5] = ["\u{1f600}", "\u{1d11e}", "\u{10348}", "\u{1f4a9}", "\u{20000}"];
/// Characters that other line splitters treat as breaks; `pkg_summary` does not.
const EXOTIC: [&str; 7] = ["\u{2028}", "\u{2029}", "\u{85}", "\u{0b}", "\u{0c}", "\u{0}", "\u{feff}"];
const WORDS: [&str; 12] = [
    "lib", "foo", "bar", "-", "1.0", "nb2", "/", ".", ",", ":", "#", "\"",
];

#[derive(Clone, Copy, Debug, PartialEq, Eq)]
pub enum VClass {
    Plain,
    Empty,
    Eq,
    Blank,
    Lookalike,
    Multibyte,
    Mixed,
}

impl VClass {
    pub fn name(self) -> &'static str {
        match self {
            VClass::Plain => "plain",
            VClass::Empty => "empty",
            VClass::Eq => "eq",
            VClass::Blank => "blank",
            VClass::Lookalike => "lookalike",
            VClass::Multibyte => "multibyte",
            VClass::Mixed => "mixed",
        }
    }
}

fn pk(r: &mut Rng, xs: &[&'static str]) -> &'static str {
    xs[r.below(xs.len())]
}

fn multibyte_char(r: &mut Rng) -> &'static str {
    match r.below(3) {
        0 => pk(r, &MB2),
        1 => pk(r, &MB3),
        _ => pk(r, &MB4),
    }
}

/// Random composition of tokens from every alphabet.
fn mixed(r: &mut Rng, max_tokens: usize) -> String {
    let n = r.range(1, max_tokens.max(1));
    let mut s = String::new();
    for _ in 0..n {
        let t: &str = match r.below(12) {
            0..=3 => pk(r, &WORDS),
            4 => "=",
            5 => " ",
            6 | 7 => multibyte_char(r),
            8 => pk(r, &EXOTIC),
            9 => pk(r, &PLAIN),
            10 => pk(r, &WITH_EQ),
            _ => pk(r, &BLANKS),
        };
        s.push_str(t);
    }
    s
}

pub fn value_of_class(r: &mut Rng, c: VClass, max_tokens: usize) -> String {
    match c {
        VClass::Plain => pk(r, &PLAIN).to_string(),
        VClass::Empty => String::new(),
        VClass::Eq => pk(r, &WITH_EQ).to_string(),
        VClass::Blank => pk(r, &BLANKS).to_string(),
        VClass::Lookalike => pk(r, &LOOKALIKE).to_string(),
        VClass::Multibyte => {
            let n = r.range(1, 4);
            let mut s = String::new();
            for k in 0..n {
                if k > 0 && r.chance(1, 2) {
                    s.push_str(pk(r, &WORDS));
                }
                s.push_str(multibyte_char(r));
            }
            s
        }
        VClass::Mixed => mixed(r, max_tokens),
    }
}

pub fn vclass(r: &mut Rng) -> VClass {
    match r.below(16) {
        0..=4 => VClass::Plain,
        5 => VClass::Empty,
        6 | 7 => VClass::Eq,
        8 => VClass::Blank,
        9 => VClass::Lookalike,
        10..=12 => VClass::Multibyte,
        _ => VClass::Mixed,
    }
}

/// Any text without CR/LF.
pub fn value(r: &mut Rng) -> String {
    let c = vclass(r);
    value_of_class(r, c, 8)
}

/// Is this one of the values that plain tests do not use?
pub fn awkward(s: &str) -> bool {
    s.is_empty()
        || s.contains('=')
        || !s.is_ascii()
        || s.starts_with([' ', '\t'])
        || s.ends_with([' ', '\t'])
        || s.bytes().any(|b| b < 0x20 || b == 0x7f)
}

pub fn awkward_int(i: i64) -> bool {
    i < 0 || i > (1 << 53)
}

pub fn awkward_val(v: &Val) -> bool {
    match v {
        Val::S(s) => awkward(s),
        Val::I(i) => awkward_int(*i),
        Val::A(a) => a.iter().any(|s| awkward(s)),
    }
}

pub fn size(r: &mut Rng) -> i64 {
    match r.below(12) {
        0 => 0,
        1 => 1,
        2 => -1,
        3 => i64::MAX,
        4 => i64::MIN,
        5 => i64::MAX - r.below(1000) as i64,
        6 => i64::MIN + r.below(1000) as i64,
        7 => 10i64.pow(r.below(19) as u32),
        8 => -(10i64.pow(r.below(19) as u32)),
        9 => r.next() as i64,
        _ => r.below(100_000_000) as i64,
    }
}

/// Line list of length 1-4, members may be empty.
pub fn list(r: &mut Rng) -> Vec<String> {
    let n = r.range(1, 4);
    (0..n).map(|_| value(r)).collect()
}

pub fn val_for(r: &mut Rng, var: usize) -> Val {
    match VARS[var].kind {
        Kind::S => Val::S(value(r)),
        Kind::I => Val::I(size(r)),
        Kind::A => Val::A(list(r)),
    }
}

// ---------------------------------------------------------------------------
// Model entries
// ---------------------------------------------------------------------------

/// A complete entry: all eleven required variables, optional ones with
/// probability `opt_num/opt_den` each (`all_optional` forces all 23).
pub fn model(r: &mut Rng, all_optional: bool, opt_num: usize, opt_den: usize) -> Entry {
    let mut e = Entry::new();
    for var in 0..NVARS {
        let take = VARS[var].required || all_optional;
        // Draw both always so the stream consumption does not depend on the flag.
        let coin = r.chance(opt_num, opt_den);
        let val = val_for(r, var);
        if take || coin {
            e.set(var, val);
        }
    }
    e
}

/// A compact complete entry for stream workloads: short values, so that a
/// stream of a few entries stays within a few hundred bytes, with
/// multi-byte characters sprinkled in.  `mb_last` makes the last value
/// before the separator end in a multi-byte character (through SUPERSEDES,
/// the only variable printed after the integer SIZE_PKG).
pub fn compact_model(
    r: &mut Rng,
    optional_num: usize,
    optional_den: usize,
    mb_last: bool,
    tiny: bool,
) -> Entry {
    // `tiny`: every value is at most 8 bytes long
    let short = |r: &mut Rng| -> String {
        match r.below(10) {
            0 => String::new(),
            1 => "=".into(),
            2 => " ".into(),
            3 | 4 => multibyte_char(r).to_string(),
            5 => format!("{}{}", pk(r, &WORDS), multibyte_char(r)),
            6 => format!("{}{}", multibyte_char(r), pk(r, &WORDS)),
            7 if !tiny => pk(r, &PLAIN).to_string(),
            _ => pk(r, &WORDS).to_string(),
        }
    };
    let mut e = Entry::new();
    for var in 0..NVARS {
        let coin = r.chance(optional_num, optional_den);
        let val = match VARS[var].kind {
            Kind::S => Val::S(short(r)),
            Kind::I => Val::I(size(r)),
            Kind::A => {
                let n = r.range(1, 2);
                Val::A((0..n).map(|_| short(r)).collect())
            }
        };
        if VARS[var].required || coin {
            e.set(var, val);
        }
    }
    let tail = format!("{}{}", pk(r, &WORDS), multibyte_char(r));
    if mb_last {
        match &mut e.vals[os::SUPERSEDES] {
            Some(Val::A(a)) => a.push(tail),
            slot => *slot = Some(Val::A(vec![tail])),
        }
    }
    e
}

// ---------------------------------------------------------------------------
// Call histories realising a model (C07)
// ---------------------------------------------------------------------------

#[derive(Clone, Debug, PartialEq, Eq)]
pub enum Op {
    Set(usize, Val),
    Push(usize, String),
}

impl Op {
    pub fn var(&self) -> usize {
        match self {
            Op::Set(v, _) | Op::Push(v, _) => *v,
        }
    }
    pub fn show(&self) -> String {
        match self {
            Op::Set(v, Val::S(s)) => format!("set {}={:?}", VARS[*v].name, s),
            Op::Set(v, Val::I(i)) => format!("set {}={}", VARS[*v].name, i),
            Op::Set(v, Val::A(a)) => format!("set {}={:?}", VARS[*v].name, a),
            Op::Push(v, s) => format!("push {}+={:?}", VARS[*v].name, s),
        }
    }
}

/// The calls for one variable, ending in its model value.
fn ops_for(r: &mut Rng, var: usize, target: &Val) -> Vec<Op> {
    let mut ops = vec![];
    // earlier values that must be overwritten
    let junk = match r.below(6) {
        0 | 1 | 2 => 0,
        3 | 4 => 1,
        _ => 2,
    };
    for _ in 0..junk {
        match VARS[var].kind {
            Kind::A if r.chance(1, 2) => {
                // junk built by pushing: must be wiped by a later set
                for _ in 0..r.range(1, 2) {
                    ops.push(Op::Push(var, value(r)));
                }
            }
            _ => {
                // sometimes the junk already equals the target (repetition)
                if r.chance(1, 4) {
                    ops.push(Op::Set(var, target.clone()));
                } else {
                    ops.push(Op::Set(var, val_for(r, var)));
                }
            }
        }
    }
    match target {
        Val::S(_) | Val::I(_) => ops.push(Op::Set(var, target.clone())),
        Val::A(a) => {
            // The first k members arrive through one set call, the rest
            // through pushes.  k = 0 (pushes only) is possible only while the
            // variable has never been touched; otherwise the set wipes the junk.
            let virgin = ops.is_empty();
            let lo = if virgin { 0 } else { 1 };
            let k = match r.below(4) {
                0 => a.len(),
                1 => lo,
                _ => r.range(lo, a.len()),
            };
            if k > 0 {
                ops.push(Op::Set(var, Val::A(a[..k].to_vec())));
            }
            for s in &a[k..] {
                ops.push(Op::Push(var, s.clone()));
            }
        }
    }
    ops
}

/// A random call history whose final values are exactly `m`: per-variable
/// call sequences (with overwritten junk and repetitions) merged in a random
/// interleaving that keeps each variable's own order.
pub fn history(r: &mut Rng, m: &Entry) -> Vec<Op> {
    let mut queues: Vec<std::collections::VecDeque<Op>> = vec![];
    for var in 0..NVARS {
        if let Some(t) = m.get(var) {
            queues.push(ops_for(r, var, t).into());
        }
    }
    let mut out = vec![];
    // A third of the histories go through the variables in reverse or
    // shuffled block order instead of a fine interleaving.
    match r.below(3) {
        0 => {
            queues.reverse();
            for q in queues {
                out.extend(q);
            }
        }
        _ => {
            while !queues.is_empty() {
                let k = r.below(queues.len());
                if let Some(op) = queues[k].pop_front() {
                    out.push(op);
                }
                if queues[k].is_empty() {
                    queues.swap_remove(k);
                }
            }
        }
    }
    out
}

/// Apply a history to the model (the reference semantics of set/push).
pub fn replay_history(ops: &[Op]) -> Entry {
    let mut e = Entry::new();
    for op in ops {
        match op {
            Op::Set(v, val) => e.set(*v, val.clone()),
            Op::Push(v, s) => e.push(*v, s),
        }
    }
    e
}

// ---------------------------------------------------------------------------
// Entry texts (C08): any subset / order / repetition, injected faults
// ---------------------------------------------------------------------------

pub fn line_for(r: &mut Rng, var: usize) -> Line {
    let text = match VARS[var].kind {
        Kind::I => size(r).to_string(),
        _ => value(r),
    };
    Line { var, text }
}

/// Well-formed lines in random order with repetitions.  With `complete` all
/// eleven required variables occur; otherwise 1-3 of them are left out
/// (returned as the second component).
pub fn wellformed(r: &mut Rng, complete: bool) -> (Vec<Line>, Vec<usize>) {
    let mut left_out = vec![];
    if !complete {
        let n = r.range(1, 3);
        let mut req = REQUIRED.to_vec();
        r.shuffle(&mut req);
        left_out = req[..n].to_vec();
        left_out.sort();
    }
    let mut lines = vec![];
    for var in 0..NVARS {
        if left_out.contains(&var) {
            continue;
        }
        let present = VARS[var].required || r.chance(1, 2);
        if !present {
            continue;
        }
        let reps = match r.below(8) {
            0..=4 => 1,
            5 | 6 => 2,
            _ => 3,
        };
        for _ in 0..reps {
            lines.push(line_for(r, var));
        }
    }
    match r.below(4) {
        0 => {}                      // canonical-ish order, repetitions adjacent
        1 => lines.reverse(),
        _ => r.shuffle(&mut lines),
    }
    (lines, left_out)
}

pub fn render(lines: &[String], trailing_newline: bool) -> String {
    let mut t = lines.join("\n");
    if trailing_newline && !lines.is_empty() {
        t.push('\n');
    }
    t
}

pub const NO_EQ: [&str; 12] = [
    "BUILD_DATE",
    "garbage",
    "PKGNAME testpkg-1.0",
    " ",
    "\u{e9}",
    "# comment",
    "PKGNAME:foo",
    "SIZE_PKG 12",
    "\t",
    "DESCRIPTION",
    "x",
    "\u{1f600}\u{20ac}",
];

/// Names that are not one of the 23: unknown, misspelt, case-changed,
/// blank-padded.  None contains `=`, none is empty.
pub const BAD_NAMES: [(&str, &str); 20] = [
    ("FOO", "unknown"),
    ("MAINTAINER", "unknown"),
    ("PKG", "unknown"),
    ("X", "unknown"),
    ("BILD_DATE", "misspelt"),
    ("PKG_NAME", "misspelt"),
    ("PKGOPTIONS", "misspelt"),
    ("PKGNAMES", "misspelt"),
    ("PKGNAM", "misspelt"),
    ("SIZEPKG", "misspelt"),
    ("FILE-SIZE", "misspelt"),
    ("DESCRIPTION\u{e9}", "misspelt"),
    ("pkgname", "case"),
    ("Pkgname", "case"),
    ("build_date", "case"),
    ("Size_Pkg", "case"),
    (" PKGNAME", "padded"),
    ("PKGNAME ", "padded"),
    ("\tCOMMENT", "padded"),
    ("SIZE_PKG ", "padded"),
];

/// Values that are not integers under any reasonable reading.
pub const BAD_INTS: [&str; 12] = [
    "",
    "12x",
    "1.5",
    " 5",
    "5 ",
    "9223372036854775808",
    "-9223372036854775809",
    "99999999999999999999999999",
    "abc",
    "0x10",
    "1e3",
    "--5",
];

#[derive(Clone, Debug, PartialEq, Eq)]
pub enum Fault {
    /// insert a line without `=`
    NoEq(String),
    /// insert `NAME=value` with a name outside the table (second = flavour)
    BadName(String, &'static str),
    /// insert `=value` (empty name): malformed line or unknown variable
    EmptyName(String),
    /// insert an extra FILE_SIZE/SIZE_PKG line with a non-integer value
    BadIntInsert(usize, String),
    /// replace the value of every existing line of FILE_SIZE/SIZE_PKG
    BadIntReplace(usize, String),
    /// remove every line of a required variable
    Remove(usize),
}

impl Fault {
    pub fn class(&self) -> &'static str {
        match self {
            Fault::NoEq(_) => "line",
            Fault::BadName(..) => "variable",
            Fault::EmptyName(_) => "emptyname",
            Fault::BadIntInsert(..) | Fault::BadIntReplace(..) => "int",
            Fault::Remove(_) => "missing",
        }
    }
    pub fn show(&self) -> String {
        match self {
            Fault::NoEq(s) => format!("line without '=' {s:?}"),
            Fault::BadName(s, f) => format!("{f} name line {s:?}"),
            Fault::EmptyName(s) => format!("empty name line {s:?}"),
            Fault::BadIntInsert(v, s) => format!("extra {}={s:?}", VARS[*v].name),
            Fault::BadIntReplace(v, s) => format!("{} value replaced by {s:?}", VARS[*v].name),
            Fault::Remove(v) => format!("{} removed", VARS[*v].name),
        }
    }
}

#[derive(Clone, Copy, Debug, PartialEq, Eq)]
pub enum Pos {
    First,
    Middle,
    Last,
}

impl Pos {
    pub fn name(self) -> &'static str {
        match self {
            Pos::First => "first",
            Pos::Middle => "middle",
            Pos::Last => "last",
        }
    }
    pub const ALL: [Pos; 3] = [Pos::First, Pos::Middle, Pos::Last];
}

pub fn bad_name_line(r: &mut Rng) -> Fault {
    let (n, flavour) = *r.pick(&BAD_NAMES);
    Fault::BadName(format!("{}={}", n, value(r)), flavour)
}

pub fn fault_of_class(r: &mut Rng, class: &str) -> Fault {
    match class {
        "line" => Fault::NoEq(pk(r, &NO_EQ).to_string()),
        "variable" => bad_name_line(r),
        "emptyname" => Fault::EmptyName(format!("={}", value(r))),
        "int" => {
            let var = if r.chance(1, 2) { os::FILE_SIZE } else { os::SIZE_PKG };
            let bad = pk(r, &BAD_INTS).to_string();
            if r.chance(1, 2) {
                Fault::BadIntReplace(var, bad)
            } else {
                Fault::BadIntInsert(var, bad)
            }
        }
        _ => Fault::Remove(*r.pick(&REQUIRED)),
    }
}

/// Result of injecting faults into well-formed lines.
pub struct Faulty {
    pub lines: Vec<String>,
    /// Causes of rejection present, by construction.
    pub causes: Vec<Cause>,
}

/// Inject one fault.  Inserted lines go to `pos`; the well-formed lines stay
/// otherwise untouched, so exactly the returned causes are present.
pub fn inject(r: &mut Rng, base: &[Line], fault: &Fault, pos: Pos) -> Faulty {
    let mut lines: Vec<String> = base.iter().map(|l| l.render()).collect();
    let at = |r: &mut Rng, n: usize| match pos {
        Pos::First => 0,
        Pos::Last => n,
        Pos::Middle => {
            if n >= 2 {
                r.range(1, n - 1)
            } else {
                n / 2
            }
        }
    };
    let p = at(r, lines.len());
    let mut causes = vec![];
    match fault {
        Fault::NoEq(s) => {
            lines.insert(p, s.clone());
            causes.push(Cause::Line);
        }
        Fault::BadName(s, _) => {
            lines.insert(p, s.clone());
            causes.push(Cause::Variable);
        }
        Fault::EmptyName(s) => {
            lines.insert(p, s.clone());
            causes.push(Cause::Line);
            causes.push(Cause::Variable);
        }
        Fault::BadIntInsert(var, s) => {
            lines.insert(p, format!("{}={}", VARS[*var].name, s));
            causes.push(Cause::Int);
        }
        Fault::BadIntReplace(var, s) => {
            let mut any = false;
            for (k, l) in base.iter().enumerate() {
                if l.var == *var {
                    lines[k] = format!("{}={}", VARS[*var].name, s);
                    any = true;
                }
            }
            if !any {
                lines.insert(p, format!("{}={}", VARS[*var].name, s));
            }
            causes.push(Cause::Int);
            if VARS[*var].required {
                // a reader that drops the bad line could also call it missing
                causes.push(Cause::Missing(*var));
            }
        }
        Fault::Remove(var) => {
            let keep: Vec<String> = base
                .iter()
                .zip(lines.iter())
                .filter(|(l, _)| l.var != *var)
                .map(|(_, s)| s.clone())
                .collect();
            lines = keep;
            causes.push(Cause::Missing(*var));
        }
    }
    Faulty { lines, causes }
}

// ---------------------------------------------------------------------------
// Streams and partitions (C09)
// ---------------------------------------------------------------------------

pub struct Stream {
    pub bytes: Vec<u8>,
    /// Reference entries (for a malformed stream: only the well-formed ones
    /// before the bad entry are ever compared).
    pub entries: Vec<Entry>,
    /// Canonical text of each entry (without the separating blank line).
    pub texts: Vec<String>,
    /// Byte offset where each entry starts; `starts[k+1]` is one past the
    /// newline of entry k's blank line.
    pub starts: Vec<usize>,
    /// Index and fault of the malformed entry, if any.
    pub bad: Option<(usize, Fault)>,
}

impl Stream {
    pub fn from_texts(entries: Vec<Entry>, texts: Vec<String>, bad: Option<(usize, Fault)>) -> Stream {
        let mut bytes = vec![];
        let mut starts = vec![0];
        for t in &texts {
            bytes.extend_from_slice(t.as_bytes());
            bytes.push(b'\n');
            starts.push(bytes.len());
        }
        Stream { bytes, entries, texts, starts, bad }
    }
    pub fn len(&self) -> usize {
        self.bytes.len()
    }
}

/// A well-formed stream of `n` compact entries.
pub fn stream(r: &mut Rng, n: usize, opt_num: usize, opt_den: usize, tiny: bool) -> Stream {
    let mut entries = vec![];
    for k in 0..n {
        // every other entry ends in a multi-byte character right before the separator
        let mb_last = k % 2 == 0 || r.chance(1, 3);
        entries.push(compact_model(r, opt_num, opt_den, mb_last, tiny));
    }
    let texts = entries.iter().map(|e| e.print()).collect();
    Stream::from_texts(entries, texts, None)
}

/// A larger stream built from the full value generator (<= ~8 KiB).
pub fn big_stream(r: &mut Rng, n: usize) -> Stream {
    let mut entries: Vec<Entry> = vec![];
    let mut total = 0;
    for k in 0..n {
        let mut e = model(r, k == 0, 1, 2);
        if r.chance(1, 2) {
            let tail = format!("{}{}", pk(r, &WORDS), multibyte_char(r));
            e.push(os::SUPERSEDES, &tail);
        }
        let len = e.print().len() + 1;
        // keep the draw sequence independent of sizes; just stop adding
        if total + len <= 8192 || entries.is_empty() {
            total += len;
            entries.push(e);
        }
    }
    let texts = entries.iter().map(|e| e.print()).collect();
    Stream::from_texts(entries, texts, None)
}

/// The canonical lines of an entry as generator lines.
pub fn canonical_lines(e: &Entry) -> Vec<Line> {
    let mut out = vec![];
    for var in 0..NVARS {
        if let Some(v) = e.get(var) {
            for t in v.texts() {
                out.push(Line { var, text: t });
            }
        }
    }
    out
}

/// A stream of `n` entries whose entry `j` carries `fault`.
pub fn bad_stream(r: &mut Rng, n: usize, j: usize, fault: Fault, pos: Pos) -> Stream {
    let mut entries = vec![];
    let mut texts = vec![];
    for k in 0..n {
        let mb_last = r.chance(1, 2);
        let e = compact_model(r, 1, 3, mb_last, false);
        if k == j {
            let f = inject(r, &canonical_lines(&e), &fault, pos);
            texts.push(render(&f.lines, true));
        } else {
            texts.push(e.print());
        }
        entries.push(e);
    }
    Stream::from_texts(entries, texts, Some((j, fault)))
}

#[derive(Clone, Copy, Debug, PartialEq, Eq)]
pub enum CutClass {
    /// between the bytes of one multi-byte character
    InChar,
    /// between the two newlines of a separator
    InSeparator,
    Other,
}

pub fn classify_cut(bytes: &[u8], c: usize) -> CutClass {
    if c == 0 || c >= bytes.len() {
        return CutClass::Other;
    }
    if bytes[c] & 0xC0 == 0x80 {
        CutClass::InChar
    } else if bytes[c - 1] == b'\n' && bytes[c] == b'\n' {
        CutClass::InSeparator
    } else {
        CutClass::Other
    }
}

/// Turn sorted chunk boundaries (duplicates = zero-length chunks, values in
/// 0..=len) into chunk ranges covering 0..len.
pub fn chunks_of(len: usize, cuts: &[usize]) -> Vec<(usize, usize)> {
    let mut out = vec![];
    let mut prev = 0;
    for &c in cuts {
        let c = c.min(len);
        out.push((prev, c));
        prev = c;
    }
    out.push((prev, len));
    out
}

pub fn fixed_cuts(len: usize, size: usize) -> Vec<usize> {
    let mut v = vec![];
    let mut c = size;
    while c < len {
        v.push(c);
        c += size;
    }
    v
}

/// Seeded random partition: either uniformly placed cuts or chunk lengths
/// from a skewed distribution (many tiny chunks, a few large ones).
pub fn random_cuts(r: &mut Rng, len: usize) -> Vec<usize> {
    let mut v = vec![];
    if len < 2 {
        return v;
    }
    if r.chance(1, 2) {
        let n = r.range(1, 40.min(len - 1));
        for _ in 0..n {
            v.push(r.range(1, len - 1));
        }
        v.sort();
        v.dedup();
    } else {
        let mut c = 0;
        loop {
            let step = match r.below(6) {
                0 | 1 => 1,
                2 => r.range(1, 4),
                3 => r.range(1, 16),
                4 => r.range(1, 128),
                _ => r.range(1, 1024),
            };
            c += step;
            if c >= len {
                break;
            }
            v.push(c);
        }
    }
    v
}

/// Interleave zero-length chunks: duplicate some boundaries and add empty
/// writes at the very start and the very end.
pub fn with_empty_chunks(r: &mut Rng, len: usize, cuts: &[usize]) -> Vec<usize> {
    let mut v = vec![];
    if r.chance(2, 3) {
        v.push(0);
    }
    for &c in cuts {
        v.push(c);
        let extra = match r.below(4) {
            0 => 0,
            1 | 2 => 1,
            _ => 2,
        };
        for _ in 0..extra {
            v.push(c);
        }
    }
    if r.chance(2, 3) {
        v.push(len);
    }
    if v.is_empty() {
        v.push(0);
    }
    v
}
