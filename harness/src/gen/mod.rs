pub mod digest;
pub mod distinfo;
pub mod misc;
pub mod plist;
pub mod scan;
pub mod summary;
pub mod version;
pub mod collide;
