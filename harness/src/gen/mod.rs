pub mod version;
