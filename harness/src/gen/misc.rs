//! Generators for the misc monitors.
