//! Generators for C18 (package names), C19 (package paths, dependencies) and
//! C20 (package database trees).

use crate::gen::version as gv;
use crate::oracle::misc::{META_FILES, MANDATORY};
use crate::rng::Rng;

// ---------------------------------------------------------------------------
// C18
// ---------------------------------------------------------------------------

const BASE_PARTS: [&str; 28] = [
    "foo", "libnbcompat", "nb", "nb3", "p5", "", "\u{e9}", "py312", "x_y", "1.0", "..", "gnb",
    "Foo", "nbnb", "f", "\u{65e5}\u{672c}", "a b", "2nb", "+x", "NB", "mysqlclient", "0",
    "1.3", "3d", "2.0rc1", "mktool", "7", "g++",
];

/// Dictionary of plausible special endings of a package name (binary package
/// and archive suffixes, backup markers, path and line terminators).  The
/// split / rebuild / revision rules of the statement are the same for them:
/// they are part of the text after the last '-'.
pub const NAME_SUFFIXES: [&str; 30] = [
    ".tgz", ".tbz", ".txz", ".tzst", ".tar.gz", ".tar.xz", ".tar", ".pkg", ".orig", ".sig", "~",
    "/", " ", "\n", "\t", ".TGZ", ".tgz.tgz", ".tgz/", ".gz", ".zip",
    // a dependency pattern where a name is expected (the last '-' is the last '-')
    "-[0-9]*", "-*", "-[0-9]*nb[0-9]*", ">=1.0", "-{1,2}", "-1.0{,nb*}", "-[0-9]", ":../../cat/pkg", "-[0-9]*-[0-9]*", "-",
];

/// Dictionary of plausible special beginnings (relative / absolute directory
/// prefixes, byte order mark, '+', blanks).
pub const NAME_PREFIXES: [&str; 12] = [
    "./", "\u{feff}", "+", "/", "All/", "../../cat/", " ", "packages/All/", "\t", "../", "=", "@",
];

/// Literals of the library's path / dependency code usable as one path segment.
fn path_literals() -> &'static [&'static str] {
    static L: std::sync::OnceLock<Vec<&'static str>> = std::sync::OnceLock::new();
    L.get_or_init(|| {
        crate::corpus::literal_strs(&["pkgpath", "depend", "scanindex", "pkgdb"])
            .into_iter()
            .filter(|s| s.len() <= 24 && !s.contains('/') && !s.contains('\0'))
            .collect()
    })
}

/// Literals of the library's name-handling code, as decorations of names.
fn name_literals() -> &'static [&'static str] {
    static L: std::sync::OnceLock<Vec<&'static str>> = std::sync::OnceLock::new();
    L.get_or_init(|| {
        crate::corpus::literal_strs(&["pkgname", "summary", "dewey", "pattern", "pkgdb"])
            .into_iter()
            .filter(|s| s.len() <= 24 && !s.contains('\n'))
            .collect()
    })
}

/// A name with a dictionary ending and/or beginning attached.
pub fn decorate(r: &mut Rng, name: &str) -> String {
    let lits = name_literals();
    if !lits.is_empty() && r.chance(1, 6) {
        let l = lits[r.below(lits.len())];
        return if r.chance(1, 3) { format!("{l}{name}") } else { format!("{name}{l}") };
    }
    match r.below(6) {
        0 => format!("{}{name}", r.pick(&NAME_PREFIXES)),
        1 => format!("{}{name}{}", r.pick(&NAME_PREFIXES), r.pick(&NAME_SUFFIXES)),
        _ => format!("{name}{}", r.pick(&NAME_SUFFIXES)),
    }
}

/// 1..=18 digits, optionally with leading zeros; returns (spelling, value).
pub fn rev_digits(r: &mut Rng, min: i64, max: i64) -> (String, i64) {
    let n = loop {
        let d = r.range(1, 18);
        let mut n: i64 = 0;
        for i in 0..d {
            let digit = if i == 0 && d > 1 { r.range(1, 9) } else { r.below(10) } as i64;
            n = n * 10 + digit;
        }
        if r.chance(1, 8) {
            n = *r.pick(&[0, 1, 2, 9, 10, 99, 999_999_999_999_999_998, 999_999_999_999_999_999]);
        }
        if n >= min && n <= max {
            break n;
        }
    };
    let mut s = n.to_string();
    if r.chance(1, 5) {
        let room = 18 - s.len();
        let z = r.below(room.min(3) + 1);
        s = format!("{}{s}", "0".repeat(z));
    }
    (s, n)
}

const PREFIX_TOKENS: [&str; 16] = [
    ".", ".", "_", "alpha", "beta", "rc", "pre", "pl", "nb1", "nb12", "nb", "+", "~", ",", "\u{e9}", " ",
];

/// Version text without free letters and without upper case: digits, dots,
/// modifiers, inner `nb` tokens and ignorable junk.  May be empty.
pub fn safe_prefix(r: &mut Rng) -> String {
    loop {
        let n = match r.below(8) {
            0 => 0,
            1 => 1,
            _ => r.range(2, 6),
        };
        let mut s = String::new();
        if n > 0 && r.chance(3, 4) {
            s.push_str(&r.below(30).to_string());
        }
        for _ in 0..n {
            if r.chance(2, 5) {
                s.push_str(&r.below(200).to_string());
            } else {
                s.push_str(*r.pick(&PREFIX_TOKENS));
            }
        }
        if gv::usable(&s) && !gv::has_free_letter(&s) {
            return s;
        }
    }
}

/// A version that contains no `nb` in any case.
pub fn plain_version(r: &mut Rng) -> String {
    loop {
        let s = match r.below(4) {
            0 => gv::v(r),
            1 => String::new(),
            _ => {
                let n = r.range(1, 5);
                let mut s = r.below(30).to_string();
                for _ in 0..n {
                    match r.below(6) {
                        0 => s.push_str(*r.pick(&["alpha", "beta", "rc", "pre", "pl", "a", "n", "b", "bn"])),
                        1 => s.push('_'),
                        2 => s.push_str(&r.below(1000).to_string()),
                        _ => {
                            s.push('.');
                            s.push_str(&r.below(30).to_string());
                        }
                    }
                }
                s
            }
        };
        if !s.contains('-') && crate::oracle::misc::revision(&s) == crate::oracle::misc::Revision::NoNb {
            return s;
        }
    }
}

/// A version ending in `nb<digits>`, possibly with further `nb` inside.
pub fn nb_version(r: &mut Rng) -> String {
    let prefix = match r.below(6) {
        0 => String::new(),
        1 => "1nb3alpha2".to_string(),
        2 => format!("{}nb", safe_prefix(r)),
        3 => {
            // arbitrary text, upper case and free letters included
            loop {
                let v = gv::v(r);
                if !v.contains('-') {
                    break v;
                }
            }
        }
        _ => safe_prefix(r),
    };
    let (digits, _) = rev_digits(r, 0, 999_999_999_999_999_999);
    format!("{prefix}nb{digits}")
}

/// Arbitrary package-name-like string with 0..=4 dashes.
pub fn name(r: &mut Rng) -> String {
    let dashes = r.below(5);
    let mut parts: Vec<String> = vec![];
    for _ in 0..dashes {
        parts.push(r.pick(&BASE_PARTS).to_string());
    }
    let last = match r.below(10) {
        0..=3 => nb_version(r),
        4..=6 => plain_version(r),
        7 => r.pick(&["1nb3alpha", "1.0nb", "1.0NB3", "nb", "1.0Nb2", "", "1.0nb+5", "nbx"]).to_string(),
        8 => r.pick(&BASE_PARTS).to_string(),
        _ => loop {
            let v = gv::v(r);
            if !v.contains('-') {
                break v;
            }
        },
    };
    parts.push(last);
    let s = parts.join("-");
    if r.chance(1, 4) {
        decorate(r, &s)
    } else {
        s
    }
}

// --- Summary states around PKGNAME (the accessors must depend on PKGNAME only)

use crate::gen::summary::Op;
use crate::oracle::summary::{self as osum, Kind, Val, NVARS, VARS};

/// How a `Summary` holding `name` as PKGNAME is brought about.
pub struct SumCtx {
    /// Setter / pusher calls in order; contains at least one
    /// `Set(PKGNAME, ..)`, the last of which sets the name under test.
    pub ops: Vec<Op>,
    /// A complete, well-formed entry text whose (last) PKGNAME line carries
    /// the name; `None` when the name cannot be carried by a text line.
    pub text: Option<String>,
    /// PKGPATH (setter history / text) is `cat/<name up to one of its dashes>`.
    pub coherent_ops: bool,
    pub coherent_text: bool,
}

/// Names a parsed entry is renamed to (C18): their last '-' sits at offsets 1..20.
pub const RENAMES: [&str; 5] = ["decoy-9.9", "other-pkg-0.1nb2", "x-1", "mktool-1.3-2", "a-much-longer-base-name-10.2nb3"];
const DECOYS: [&str; 4] = ["decoy-9.9", "other-pkg-0.1nb2", "x-1", "mktool-1.3-2"];
const FILLER: [&str; 6] = ["x", "", "filler text", "devel", "NetBSD", "20240101"];

fn dash_positions(name: &str) -> Vec<usize> {
    name.bytes().enumerate().filter(|(_, b)| *b == b'-').map(|(i, _)| i).collect()
}

/// A string built from pieces of the name: its prefix up to one of its
/// dashes (the package directory the name suggests), its tail, pattern and
/// path spellings of those.  Never contains a line break unless the name does.
fn related(r: &mut Rng, name: &str) -> String {
    let d = dash_positions(name);
    let (pre, post) = if d.is_empty() {
        (name, "")
    } else {
        let i = *r.pick(&d);
        (&name[..i], &name[i + 1..])
    };
    match r.below(12) {
        0 => pre.to_string(),
        1 => post.to_string(),
        2 => format!("cat/{pre}"),
        3 => format!("../../cat/{pre}"),
        4 => format!("{pre}-[0-9]*"),
        5 => format!("{name}.tgz"),
        6 => name.to_string(),
        7 => format!("{pre}>={post}"),
        8 => format!("{pre}-[0-9]*:../../cat/{pre}"),
        9 => format!("cat/{post}"),
        10 => format!("{pre}-"),
        _ => r.pick(&FILLER).to_string(),
    }
}

/// (value, coherent): a PKGPATH value for a Summary whose PKGNAME is `name`.
fn pkgpath_for(r: &mut Rng, name: &str) -> (String, bool) {
    let d = dash_positions(name);
    if !d.is_empty() && r.chance(3, 5) {
        let i = *r.pick(&d);
        let cat = *r.pick(&["cat", "pkgtools", "devel", "wip"]);
        return (format!("{cat}/{}", &name[..i]), true);
    }
    let v = match r.below(8) {
        0 => "cat/other".to_string(),
        1 => String::new(),
        2 => name.to_string(),
        3 => format!("cat/{name}"),
        4 => "pkgtools/mktool".to_string(),
        _ => related(r, name),
    };
    (v, false)
}

fn val_related(r: &mut Rng, var: usize, name: &str) -> Val {
    match VARS[var].kind {
        Kind::I => Val::I(r.below(1_000_000) as i64),
        Kind::S => Val::S(related(r, name)),
        Kind::A => Val::A((0..r.range(1, 2)).map(|_| related(r, name)).collect()),
    }
}

/// A random way of bringing a Summary into a state whose PKGNAME is `name`:
/// other variables (PKGPATH coherent with the name or not, FILE_NAME,
/// DEPENDS, ...) are set before and after `set_pkgname`, possibly after a
/// different PKGNAME was set first; and a complete entry text for
/// `Summary::from_str`.
pub fn sum_ctx(r: &mut Rng, name: &str) -> SumCtx {
    // setter history
    let mut ops: Vec<Op> = vec![];
    let mut coherent_ops = false;
    let all = r.chance(1, 6);
    for var in 0..NVARS {
        if var == osum::PKGNAME {
            continue;
        }
        let p = if var == osum::PKGPATH { r.chance(3, 4) } else { r.chance(1, 4) };
        if !(all || p) {
            continue;
        }
        if var == osum::PKGPATH {
            let (v, c) = pkgpath_for(r, name);
            coherent_ops = c;
            ops.push(Op::Set(var, Val::S(v)));
        } else {
            match (VARS[var].kind, r.below(3)) {
                (Kind::A, 0) => ops.push(Op::Push(var, related(r, name))),
                _ => ops.push(Op::Set(var, val_related(r, var, name))),
            }
        }
    }
    r.shuffle(&mut ops);
    let at = r.below(ops.len() + 1);
    ops.insert(at, Op::Set(osum::PKGNAME, Val::S(name.to_string())));
    if r.chance(1, 5) {
        let before = r.below(at + 1);
        ops.insert(before, Op::Set(osum::PKGNAME, Val::S(r.pick(&DECOYS).to_string())));
    }

    // entry text
    let mut coherent_text = false;
    let text = if name.contains('\n') || name.contains('\r') {
        None
    } else {
        let mut lines: Vec<String> = vec![];
        for var in 0..NVARS {
            if var == osum::PKGNAME || !(VARS[var].required || r.chance(1, 3)) {
                continue;
            }
            if var == osum::PKGPATH {
                let (v, c) = pkgpath_for(r, name);
                coherent_text = c;
                lines.push(format!("PKGPATH={v}"));
                continue;
            }
            for t in val_related(r, var, name).texts() {
                lines.push(format!("{}={t}", VARS[var].name));
            }
        }
        r.shuffle(&mut lines);
        let at = r.below(lines.len() + 1);
        lines.insert(at, format!("PKGNAME={name}"));
        if r.chance(1, 6) {
            let before = r.below(at + 1);
            lines.insert(before, format!("PKGNAME={}", r.pick(&DECOYS)));
        }
        let mut t = lines.join("\n");
        t.push('\n');
        Some(t)
    };
    SumCtx { ops, text, coherent_ops, coherent_text }
}

pub struct Probe {
    pub base: String,
    pub prefix: String,
    pub digits: String,
    pub n: i64,
}

const PROBE_BASES: [&str; 10] = [
    "foo", "libnbcompat", "foo-bar", "p5-nb3-x", "\u{e9}", "nb", "py312-nb", "f", "a-1.0nb9", "x_y.z",
];

/// `base-PREFIXnbN` for the black-box revision probe: PREFIX is free of
/// letters outside modifiers (keeps known finding K1 away), 1 <= N and
/// N + 1 still has at most 18 digits.
pub fn probe(r: &mut Rng) -> Probe {
    let base = r.pick(&PROBE_BASES).to_string();
    // One probe in eight has a prefix of exactly k components, k swept over
    // every count up to 70 and around the powers of two up to 2048 (a cap or
    // a fixed-size buffer in the version parser must not lose the revision).
    let prefix = if r.chance(1, 8) {
        let k = *r.pick(&crate::gen::version::length_sweep());
        crate::gen::version::length_cluster(k).swap_remove(0)
    } else {
        safe_prefix(r)
    };
    let (digits, n) = rev_digits(r, 1, 999_999_999_999_999_998);
    Probe { base, prefix, digits, n }
}

// ---------------------------------------------------------------------------
// C19
// ---------------------------------------------------------------------------

pub const SEGS: [&str; 5] = ["..", ".", "a", "b-1", ""];

/// The `i`-th string of the exhaustive family: `n` segments from `SEGS`
/// (`code` in base 5), optional leading '/', '/' or '//' as separator.
pub fn exhaustive_path(n: usize, mut code: usize, leading: bool, double: bool) -> String {
    let mut s = String::new();
    if leading {
        s.push('/');
    }
    for i in 0..n {
        if i > 0 {
            s.push_str(if double { "//" } else { "/" });
        }
        s.push_str(SEGS[code % 5]);
        code /= 5;
    }
    s
}

const ODD_SEGS: [&str; 30] = [
    "..", ".", "a", "b-1", "", ".. ", "...", " ", "a b", "\u{e9}", "\u{65e5}\u{672c}", "-", "~",
    ":", "*", "a:b", " ..", ". ", "\t", "..a", "\0", "a\0b",
    // what stands for "../.." in a Makefile, and other names with a meaning elsewhere
    "${PKGSRCDIR}", "${.CURDIR}", "$PKGSRCDIR", "pkgsrc", "usr", "${PKGPATH}", "%D", "CVS",
];

/// Ordinary category / package directory names of the kinds found in pkgsrc:
/// beginning with a digit, containing '+', '.', '_', '-', upper case, a
/// single character, and words that mean something elsewhere in the library.
pub const REAL_NAMES: [&str; 32] = [
    "games", "0ad", "archivers", "7-zip", "lang", "g++", "x11", "Xaw3d", "6tunnel", "3ddesktop",
    "4ti2", "2048-cli", "9base", "libsigc++", "gtk+", "p5-Foo_Bar", "py-Z3", "R-Matrix",
    "ISO8859-2", "a.b", "x_y", "Z", "0", "font-adobe-100dpi", "build", "test", "pkg", "DEPENDS",
    "wip", "c++17", "+x", "_",
];

/// Spellings around `c/p` for the real-name sweep (accepted and rejected
/// shapes; the verdict comes from the reference rule).
pub fn real_name_forms(c: &str, p: &str) -> Vec<String> {
    vec![
        format!("{c}/{p}"),
        format!("../../{c}/{p}"),
        format!("{c}//{p}/"),
        format!("../../{c}/./{p}"),
        format!("..//../{c}/{p}//"),
        format!("{c}/{p}/{c}"),
        format!("../{c}/{p}"),
        format!("/{c}/{p}"),
        format!("./{c}/{p}"),
        p.to_string(),
        format!("../../{p}"),
    ]
}

/// Seeded longer / odd paths.  Strings that contain NUL are only kept when
/// the rule rejects them anyway (whether a NUL name is "ordinary" is not
/// stated).
pub fn odd_path(r: &mut Rng) -> String {
    loop {
        let n = r.below(11);
        let mut s = String::new();
        if r.chance(1, 6) {
            s.push('/');
        }
        for i in 0..n {
            if i > 0 {
                s.push_str(match r.below(6) {
                    0 => "//",
                    1 => "///",
                    _ => "/",
                });
            }
            let lits = path_literals();
            match r.below(11) {
                0..=3 => s.push_str(*r.pick(&SEGS)),
                4 | 5 => s.push_str(*r.pick(&REAL_NAMES)),
                6 if !lits.is_empty() => s.push_str(lits[r.below(lits.len())]),
                _ => s.push_str(*r.pick(&ODD_SEGS)),
            }
        }
        if s.contains('\0') && crate::oracle::misc::pkgpath_rule(&s).is_some() {
            continue;
        }
        return s;
    }
}

pub const DEP_PATTERNS: [&str; 31] = [
    // a ':' inside the pattern half - in a bracket set, a POSIX class, an
    // alternation - is still a ':' (two colons in all: rejected)
    "pkg-[0-9:]*",
    "pkg-[[:digit:]]*",
    "{a:b,c}-1",
    "pkg-[:]",
    "p[a:",
    // simple
    "foo-1.0",
    "foo",
    "",
    // dewey
    "foo>=1.0",
    "foo>=1<2",
    "foo<3nb1",
    "foo>1>2",
    "foo<1>=2",
    "foo>=1<2<3",
    // glob
    "foo-[0-9]*",
    "foo-*",
    "fo?-1.[0-9]",
    "foo-[0-9",
    "foo-***",
    "foo-[z-a]*",
    // alternation
    "{foo,bar}-[0-9]*",
    "foo{,-bar}>=1",
    "{a{b,c},d}-1.0",
    "{foo",
    "foo}",
    "}{",
    "{foo,bar}>1>2",
    // odd
    "\u{e9}-[0-9]*",
    "foo bar>=1",
    "mktool-[0-9]*",
    "py312-build>=0",
];

pub const DEP_PATHS: [&str; 19] = [
    "games/0ad",
    "../../lang/g++",
    "x11/Xaw3d/",
    "cat/pkg",
    "../../cat/pkg",
    "cat//pkg/",
    "cat/./pkg",
    "..//../cat/pkg",
    "\u{e9}/b-1",
    "pkg",
    "../cat/pkg",
    "/cat/pkg",
    "a/b/c",
    "",
    "../../a/..",
    "./a/b",
    "../../pkg",
    "../../../cat/pkg",
    "a/b/../..",
];

/// All ways of combining a pattern and a path with 0..=3 colons, including
/// forms in which an extra colon sits inside an otherwise valid half (so
/// that splitting at the first or the last colon only would accept them).
pub fn depend_forms(p: &str, q: &str) -> Vec<String> {
    let mut v = vec![
        // 0 colons
        format!("{p}{q}"),
        p.to_string(),
        q.to_string(),
        // 1 colon
        format!("{p}:{q}"),
        // 2 colons
        format!("{p}::{q}"),
        format!("{p}:{q}:"),
        format!(":{p}:{q}"),
        format!("{p}:x:{q}"),
        format!("{p}:{q}:x"),
        format!("x:{p}:{q}"),
        // 3 colons
        format!("{p}:::{q}"),
        format!("x:{p}:{q}:y"),
        format!("{p}:x:y:{q}"),
        format!(":{p}:{q}:"),
    ];
    // extra colon inside the last path segment / inside the pattern
    if !q.is_empty() && !q.ends_with('/') {
        v.push(format!("{p}:{q}:g"));
        v.push(format!("{p}:{q}:g:h"));
    }
    if !p.is_empty() {
        v.push(format!("x:{p}:{q}"));
        v.push(format!("x:y:{p}:{q}"));
    }
    v
}

/// Plain words that are valid patterns on their own and mean something in
/// pkgsrc's dependency vocabulary (dependency types, variable names).
pub const DEP_WORDS: [&str; 12] = [
    "full", "build", "bootstrap", "tool", "test", "depends", "run", "pkg", "DEPENDS", "BUILD",
    "Full", "TOOL",
];

/// Field alphabet of the word sweep: the words, two valid patterns, valid
/// paths in both spellings (one made of words), a word glued to a pattern
/// with '=', and the empty field.
pub const DEP_FIELDS: [&str; 19] = [
    "full", "build", "bootstrap", "tool", "test", "depends", "run", "pkg", "DEPENDS", "BUILD",
    "Full", "TOOL",
    "cmake-[0-9]*", "foo>=1.0", "../../devel/cmake", "cat/pkg", "test/tool", "build=foo>=1", "",
];

/// The `code`-th string of `n` ':'-separated fields from `DEP_FIELDS`
/// (`n - 1` colons).
pub fn word_fields(n: usize, mut code: usize) -> String {
    let k = DEP_FIELDS.len();
    let mut s = String::new();
    for i in 0..n {
        if i > 0 {
            s.push(':');
        }
        s.push_str(DEP_FIELDS[code % k]);
        code /= k;
    }
    s
}

// ---------------------------------------------------------------------------
// C20
// ---------------------------------------------------------------------------

pub struct PkgDir {
    pub name: String,
    /// Content per entry of `META_FILES`; `None` = file absent.
    pub files: [Option<String>; 14],
    /// Extra plain files inside the directory (name, content).
    pub extra: Vec<(String, String)>,
    /// Bit i set = mandatory file `MANDATORY[i]` missing.
    pub missing_mask: u8,
}

impl PkgDir {
    pub fn complete(&self) -> bool {
        self.missing_mask == 0
    }
}

pub struct Tree {
    pub dirs: Vec<PkgDir>,
    /// Plain files in the database directory itself.
    pub stray: Vec<(String, String)>,
    /// Other kinds of file-system objects and names that are not UTF-8.
    pub odd: Vec<Odd>,
}

/// What else a directory can hold besides regular files and directories with
/// UTF-8 names.  None of them is a package (or changes whether the
/// directory it lies in is one), except `CompleteDir`: a complete package
/// directory whose name is not UTF-8 cannot be reported as a `pkgname`
/// string, so the iterator may report an error item for it - and has to go
/// on with the other entries.
#[derive(Clone, Copy, Debug, PartialEq, Eq)]
pub enum OddKind {
    File,
    DanglingLink,
    LinkLoop,
    LinkToFile,
    EmptyDir,
    IncompleteDir,
    CompleteDir,
    /// An optional metadata file of a package that is a symbolic link to a
    /// kernel-generated file (procfs): it has content but reports size 0.
    /// Reading the entry returns what reading the file to its end returns.
    ProcLink,
    /// An optional metadata file of a package whose content is not UTF-8
    /// (valid text that ends inside a multi-byte character, a stray 0xFF):
    /// reading the entry reports an error, it does not return part of the file.
    BadUtf8Meta,
}

/// The content of an `OddKind::BadUtf8Meta` file (chosen by the entry's name).
pub fn bad_utf8_content(name: &[u8]) -> Vec<u8> {
    let k = crate::rng::hash_bytes(name) as usize;
    let tails: [&[u8]; 6] = [&[0xE2, 0x82], &[0xF0, 0x9F, 0x98], &[0xC3], &[0xFF], &[b'a', 0xE2], &[0xF0]];
    let mut v: Vec<u8> = match k % 4 {
        0 => b"some text\n".to_vec(),
        1 => vec![],
        2 => vec![b'a'; 8190],
        _ => "caf\u{e9} \u{20ac}\n".repeat(3).into_bytes(),
    };
    v.extend_from_slice(tails[(k / 4) % tails.len()]);
    v
}

/// Kernel-generated files whose content does not change while the machine is
/// up (used as link targets by `OddKind::ProcLink`).
pub const PROC_TARGETS: [&str; 3] = ["/proc/sys/kernel/ostype", "/proc/version", "/proc/sys/kernel/osrelease"];

pub struct Odd {
    /// `None`: in the database directory; `Some(i)`: inside `dirs[i]`.
    pub place: Option<usize>,
    pub name: Vec<u8>,
    pub kind: OddKind,
}

const ODD_NAMES: [&[u8]; 10] = [
    b"caf\xe9.orig", b"\xff\xfe", b"lib\xa0x-1.0", b"\xe9-1.0", b"pkg-1.0\xc3", b"+COMMENT\xff", b"\x80", b"link-1.0", b"zz-link-2.0nb1", b".#lock",
];

/// 1-3 odd objects for a tree (see `OddKind`).
pub fn odd_objects(r: &mut Rng, dirs: &[PkgDir], used: &[String]) -> Vec<Odd> {
    let ndirs = dirs.len();
    let mut out: Vec<Odd> = vec![];
    if ndirs > 0 && r.chance(1, 3) {
        let i = r.below(ndirs);
        let absent: Vec<usize> = (0..14).filter(|k| dirs[i].files[*k].is_none() && !MANDATORY.contains(k)).collect();
        if !absent.is_empty() {
            let k = *r.pick(&absent);
            out.push(Odd { place: Some(i), name: META_FILES[k].as_bytes().to_vec(), kind: OddKind::BadUtf8Meta });
        }
    }
    if !cfg!(miri) && ndirs > 0 && r.chance(1, 3) && out.is_empty() {
        let i = r.below(ndirs);
        let absent: Vec<usize> = (0..14).filter(|k| dirs[i].files[*k].is_none() && !MANDATORY.contains(k)).collect();
        if !absent.is_empty() {
            let k = *r.pick(&absent);
            out.push(Odd { place: Some(i), name: META_FILES[k].as_bytes().to_vec(), kind: OddKind::ProcLink });
        }
    }
    for _ in 0..r.range(1, 3) {
        let name = r.pick(&ODD_NAMES).to_vec();
        let utf8 = std::str::from_utf8(&name).is_ok();
        if out.iter().any(|o| o.name == name) || used.iter().any(|u| u.as_bytes() == &name[..]) {
            continue;
        }
        let place = if ndirs > 0 && r.chance(1, 2) { Some(r.below(ndirs)) } else { None };
        let kind = match place {
            Some(_) => *r.pick(&[OddKind::File, OddKind::File, OddKind::DanglingLink, OddKind::LinkLoop, OddKind::LinkToFile, OddKind::EmptyDir]),
            None => *r.pick(&[
                OddKind::File, OddKind::DanglingLink, OddKind::LinkLoop, OddKind::LinkToFile, OddKind::EmptyDir, OddKind::IncompleteDir, OddKind::CompleteDir,
                OddKind::CompleteDir,
            ]),
        };
        // a complete directory with a UTF-8 name would simply be a package
        let kind = if kind == OddKind::CompleteDir && utf8 { OddKind::IncompleteDir } else { kind };
        // (symbolic links are left to the native runs)
        let kind = if cfg!(miri) && matches!(kind, OddKind::DanglingLink | OddKind::LinkLoop | OddKind::LinkToFile) { OddKind::File } else { kind };
        out.push(Odd { place, name, kind });
    }
    out
}

const NAME_PARTS: [&str; 14] = [
    "foo", "lib", "p5", "py312", "nb", "nb3", "\u{e9}", "x_y", "1.0", "mysql", "Foo", "a+b", "9", "z.z",
];

/// Names that mean something to pkg_install or to other tools when they
/// occur in a package database directory; as *directories* holding the three
/// mandatory files they are packages like any other.  (For the ones without a
/// '-' only the listing and pkgname are compared, not the split.)
pub const SPECIAL_DIR_NAMES: [&str; 10] = [
    "pkg-vulnerabilities", "pkgdb.byfile.db", ".cookie", "lost+found", "CVS", ".git", "pkgdb-refcount.db", ".pkg-1.0",
    "+CONTENTS-1.0", "pkg_install-20240101",
];

fn dir_name(r: &mut Rng) -> String {
    if r.chance(1, 16) {
        return r.pick(&SPECIAL_DIR_NAMES).to_string();
    }
    // a file-name-like literal of the library's package-database code
    if r.chance(1, 24) {
        let lits: Vec<&'static str> = crate::corpus::literal_strs(&["pkgdb", "metadata"])
            .into_iter()
            .filter(|s| s.len() >= 2 && s.len() <= 32 && !s.contains(|c: char| c == '/' || c == '\0' || c.is_whitespace()) && *s != "." && *s != "..")
            .collect();
        if !lits.is_empty() {
            return lits[r.below(lits.len())].to_string();
        }
    }
    // several installed versions of one package, also versions that are equal
    // in value and differ in spelling (each directory is its own package)
    if r.chance(1, 10) {
        // (equal in value, or equal once leading zeros / case / separators are
        // normalised away - each is still a directory, hence a package, of its own)
        return format!(
            "{}-{}",
            r.pick(&["mktool", "py311-yaml", "libfoo", "font-8x13", "font-08x13", "Mktool"]),
            r.pick(&["1.3", "1.3.0", "1.3nb0", "1_3", "1.3pl", "6.0rc1", "6.0pre1", "1.3nb1", "1.4", "1.03", "01.3", "1.003", "1.30", "1.3NB1", "1.3nb01"])
        );
    }
    let dashes = r.range(1, 4);
    let mut parts: Vec<String> = vec![];
    for _ in 0..dashes {
        parts.push(r.pick(&NAME_PARTS).to_string());
    }
    let version = match r.below(8) {
        0 => format!("{}.{}nb{}", r.below(20), r.below(20), r.below(40)),
        1 => format!("{}nb{}", r.below(20), r.below(400)),
        2 => "1nb3alpha2nb7".to_string(),
        3 => format!("{}", r.below(100_000)),
        4 => format!("{}.{}alpha{}", r.below(9), r.below(9), r.below(9)),
        5 => "nb2".to_string(),
        _ => format!("{}.{}.{}", r.below(20), r.below(20), r.below(20)),
    };
    parts.push(version);
    let mut s = parts.join("-");
    // rare: empty base or empty version (still one '-')
    match r.below(40) {
        0 => s = format!("-{}", r.below(100)),
        1 => s = format!("{}-", r.pick(&NAME_PARTS)),
        _ => {}
    }
    s
}

fn content(r: &mut Rng, dir: &str, file: &str, serial: usize) -> String {
    match r.below(6) {
        0 => format!("{file} of {dir} #{serial}"),
        1 => format!("{file} of {dir} #{serial}\nsecond line\n\nfourth \u{e9}\u{20ac} line\n"),
        2 => format!("  {file} of {dir} #{serial}  \n\n"),
        3 => format!("\n{file} of {dir} #{serial}"),
        _ => format!("{file} of {dir} #{serial}\n"),
    }
}

/// A package database tree: 0..=12 package directories, every missing-subset
/// of the mandatory files, optional files, stray files.
pub fn tree(r: &mut Rng, serial: &mut usize) -> Tree {
    let ndirs = match r.below(10) {
        0 => 0,
        1 => 1,
        _ => r.range(2, 12),
    };
    let mut dirs: Vec<PkgDir> = vec![];
    let mut used: Vec<String> = vec![];
    for _ in 0..ndirs {
        let name = loop {
            let n = dir_name(r);
            if !used.contains(&n) {
                break n;
            }
        };
        used.push(name.clone());
        let missing_mask: u8 = if r.chance(1, 2) { 0 } else { r.range(1, 7) as u8 };
        let mut files: [Option<String>; 14] = Default::default();
        // 0 none, 1 all, else random (kept light: the scratch file system is slow)
        let optional_mode = match r.below(10) {
            0..=3 => 0,
            4 => 1,
            _ => 2,
        };
        for (i, f) in META_FILES.iter().enumerate() {
            let present = if let Some(bit) = MANDATORY.iter().position(|&m| m == i) {
                missing_mask & (1 << bit) == 0
            } else {
                match optional_mode {
                    0 => false,
                    1 => true,
                    _ => r.chance(1, 4),
                }
            };
            if present {
                *serial += 1;
                let mandatory = MANDATORY.contains(&i);
                files[i] = Some(if !mandatory && r.chance(1, 8) {
                    String::new()
                } else if mandatory && r.chance(1, 6) {
                    // a mandatory file only has to exist: zero-length and
                    // blank-only files still make the directory a package
                    ["", "\n", "  \n", "\t"][r.below(4)].to_string()
                } else if f.starts_with("+SIZE") && r.chance(1, 2) {
                    format!("{}\n", r.below(1_000_000))
                } else {
                    content(r, &name, f, *serial)
                });
            }
        }
        let mut extra = vec![];
        if r.chance(1, 4) {
            for f in ["README", "+BOGUS", "+desc", "COMMENT", "+CONTENTS.bak"] {
                if r.chance(1, 3) {
                    *serial += 1;
                    extra.push((f.to_string(), format!("extra {f} #{serial}")));
                }
            }
        }
        dirs.push(PkgDir { name, files, extra, missing_mask });
    }
    let mut stray = vec![];
    if r.chance(1, 2) {
        for f in ["pkg-vulnerabilities", "pkgdb.byfile.db", "+COMMENT", "+CONTENTS", "+DESC", "empty"] {
            if r.chance(1, 3) && !used.iter().any(|u| u == f) {
                *serial += 1;
                let c = if f == "empty" { String::new() } else { format!("stray {f} #{serial}") };
                stray.push((f.to_string(), c));
            }
        }
        // plain files named like packages
        for _ in 0..r.below(3) {
            let n = dir_name(r);
            if !used.contains(&n) {
                used.push(n.clone());
                *serial += 1;
                stray.push((n, format!("plain file #{serial}")));
            }
        }
    }
    let odd = if r.chance(1, 3) { odd_objects(r, &dirs, &used) } else { vec![] };
    Tree { dirs, stray, odd }
}

/// Near-miss file names that must not map to a metadata entry.
pub const NEAR_MISS: [&str; 30] = [
    "+desc", "DESC", "+DESC ", " +DESC", "+SIZE", "", "+", "+BADFILE", "+COMMENTS", "+CONTENT",
    "+BUILD-INFO", "+build_info", "COMMENT", "++DESC", "+DESC\n", "+SIZE_", "+SIZE_PKG0",
    "+REQUIRED-BY", "+MTREE", "+INSTALLED", "+DEINSTALL ", "+DE_INSTALL", "+Desc", "+DESC\0",
    "+BUILD_INFOS", "+PRESERV", "+SIZE_AL", "+INSTALL_INFO", "+DISPLAYS", "-DESC",
];

/// Dictionary of plausible things in front of a metadata file name (archive
/// member and path prefixes, blanks, byte order mark).
pub const FILE_PREFIXES: [&str; 20] = [
    "./", "/", "../", "dir/", " ", "\t", "\u{feff}", "+", ".//", "././", "foo-1.0/", "./foo-1.0/",
    "/var/db/pkg/foo-1.0/", "\\", ".", "-", "\n", "\0", "\u{a0}", "pkg/",
];

/// Dictionary of plausible things after one (compression / backup suffixes,
/// path and line terminators).
pub const FILE_SUFFIXES: [&str; 20] = [
    ".gz", "/", ".orig", "~", " ", "\n", "\r\n", "\r", "\t", "\0", ".bak", ".tmp", "/.", ".", ".tgz",
    ".txt", ",v", "#", "\u{a0}", "+",
];

/// Every real file name with a dictionary prefix, a dictionary suffix, both,
/// and whole-name respellings (lower / title case, no '+', '-' for '_', ...).
/// None of the returned strings is one of the 14 names.
pub fn decorated_names(f: &str) -> Vec<String> {
    let mut v: Vec<String> = vec![];
    {
        for p in FILE_PREFIXES.iter() {
            v.push(format!("{p}{f}"));
            for s in FILE_SUFFIXES.iter() {
                v.push(format!("{p}{f}{s}"));
            }
        }
        for s in FILE_SUFFIXES.iter() {
            v.push(format!("{f}{s}"));
        }
        let bare = &f[1..];
        v.push(f.to_lowercase());
        v.push(bare.to_string());
        v.push(bare.to_lowercase());
        v.push(format!("+{}{}", &bare[..1], bare[1..].to_lowercase()));
        v.push(format!("-{bare}"));
        v.push(format!("_{bare}"));
        v.push(format!("%2B{bare}"));
        v.push(format!("{f}{f}"));
        if f.contains('_') {
            v.push(f.replace('_', "-"));
            v.push(f.replace('_', ""));
            v.push(f.replace('_', " "));
            v.push(f.replace('_', "__"));
        }
    }
    v.retain(|s| !META_FILES.contains(&s.as_str()));
    v
}

/// One-edit mutation of a real file name.
pub fn mutate_name(r: &mut Rng) -> String {
    let base = *r.pick(&META_FILES);
    let mut b: Vec<u8> = base.as_bytes().to_vec();
    match r.below(5) {
        0 => {
            let i = r.below(b.len());
            b.remove(i);
        }
        1 => {
            let i = r.below(b.len() + 1);
            b.insert(i, *r.pick(b"ABCDEFGHIJKLMNOPQRSTUVWXYZ_+ abc"));
        }
        2 => {
            let i = r.below(b.len());
            b[i] = *r.pick(b"ABCDEFGHIJKLMNOPQRSTUVWXYZ_+ abc");
        }
        3 => {
            let i = r.below(b.len());
            b[i] = if b[i].is_ascii_uppercase() { b[i].to_ascii_lowercase() } else { b[i].to_ascii_uppercase() };
        }
        _ => {
            if b.len() >= 2 {
                let i = r.below(b.len() - 1);
                b.swap(i, i + 1);
            }
        }
    }
    String::from_utf8(b).unwrap_or_default()
}
