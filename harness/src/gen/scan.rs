//! Generator of pbulk-index documents (C16) and the fault-injecting reader.
//!
//! A document is a sequence of lines, each carrying its meaning
//! (`oracle::scan::Sem`) and its rendered bytes.  Every value and list item
//! embeds a unique id (`r<record>l<line>...`) so that an observed value can be
//! traced to the line it came from.  Zones excluded on soundness grounds
//! (DESIGN.md section 4) are never generated: no blanks between a key and
//! `=`, no junk or known-key lines before the first `PKGNAME=` (outside the
//! dedicated fault class), only ASCII space/tab as padding, no CR, no empty
//! `PKG_LOCATION=`, list keys and faulty lines never repeated inside one
//! record.

use crate::gen::misc::DEP_WORDS;
use crate::oracle::scan::{Sem, SCALARS};
use crate::rng::Rng;
use std::io::{self, BufRead, Read};

#[derive(Clone, Copy, Debug, PartialEq, Eq)]
pub enum Class {
    Clean,
    MissingPkgname,
    BadDepend,
    BadLocation,
    /// Invalid UTF-8 inside an *ignored* line: the read may fail as a whole
    /// or return the fault-free list, nothing else.
    Utf8,
}

impl Class {
    pub fn name(self) -> &'static str {
        match self {
            Class::Clean => "clean",
            Class::MissingPkgname => "missing_pkgname",
            Class::BadDepend => "bad_depend",
            Class::BadLocation => "bad_location",
            Class::Utf8 => "invalid_utf8",
        }
    }
}

pub struct Doc {
    pub bytes: Vec<u8>,
    pub sems: Vec<Sem>,
    pub class: Class,
    /// Where the fault sits: record position x item position.
    pub fault_pos: String,
    pub records: usize,
    /// (key present in record i, absent in record i+1) pairs.
    pub leak_probes: usize,
    pub repeated_keys: usize,
    pub ignored_lines: usize,
    pub dup_pkgname: usize,
}

const UNKNOWN_KEYS: [&str; 20] = [
    "PKGNAMEX",
    "XPKGNAME",
    "PKGNAME_",
    "pkgname",
    "Pkgname",
    "PKGNAME2",
    "PKGNAMES",
    "DEPENDS",
    "PKGPATH",
    "ALL_DEPENDS_",
    "all_depends",
    "MAINTAINERS",
    "maintainer",
    "PKG_LOCATIONS",
    "pkg_location",
    "SCAN_DEPEND",
    "MULTI_VERSIONS",
    "_PBULK_WEIGHT",
    "FOO",
    "",
];

const KEY_LOCATION: usize = 10;
const KEY_ALL_DEPENDS: usize = 11;
const KEY_SCAN_DEPENDS: usize = 12;
const KEY_MULTI_VERSION: usize = 13;
const NKEYS: usize = 14;

fn pad(r: &mut Rng) -> &'static str {
    match r.below(12) {
        0 => " ",
        1 => "\t",
        2 => "  ",
        3 => " \t ",
        _ => "",
    }
}

fn sep(r: &mut Rng) -> &'static str {
    match r.below(8) {
        0 => "  ",
        1 => "\t",
        2 => " \t",
        3 => "   ",
        _ => " ",
    }
}

fn pos_name(i: usize, n: usize) -> &'static str {
    if i == 0 {
        "first"
    } else if i + 1 >= n {
        "last"
    } else {
        "middle"
    }
}

fn scalar_value(r: &mut Rng, id: &str) -> String {
    match r.below(12) {
        0 => String::new(),
        1 => format!("{id} a=b"),
        2 => format!("{id}  two\twords"),
        3 => format!("={id}"),
        4 => format!("{id}="),
        5 => format!("{id} PKGNAME=x-1"),
        6 => format!("{id} \u{e9}t\u{e9} \u{20ac}"),
        7 => format!("{id}:../../cat/pkg"),
        _ => id.to_string(),
    }
}

/// Is the item invalid by the rule alone (exactly one ':' and a path half of
/// the shape category/package or ../../category/package)?  Decided without
/// the library: a sibling that happens to be valid is not used as the fault.
fn pkgsrc_free_invalid(item: &str) -> bool {
    let parts: Vec<&str> = item.split(':').collect();
    if parts.len() != 2 {
        return true;
    }
    let segs: Vec<&str> = parts[1].split('/').filter(|s| !s.is_empty() && *s != ".").collect();
    let ok = match segs.as_slice() {
        [c, p] => *c != ".." && *p != "..",
        ["..", "..", c, p] => *c != ".." && *p != "..",
        _ => false,
    };
    !ok || parts[1].starts_with('/')
}

pub fn good_depend(r: &mut Rng, id: &str) -> String {
    // a vocabulary word as the whole pattern or as the category: still one
    // ':' with two valid halves
    match r.below(24) {
        0 => return format!("{}:../../cat/{id}", r.pick(&DEP_WORDS)),
        1 => return format!("{id}-[0-9]*:../../{}/{id}", r.pick(&DEP_WORDS)),
        2 => return format!("{}:{}/{id}", r.pick(&DEP_WORDS), r.pick(&DEP_WORDS)),
        _ => {}
    }
    let pat = match r.below(7) {
        0 => format!("{id}-[0-9]*"),
        1 => format!("{id}>=1.0"),
        2 => format!("{id}>=1.0<2.0"),
        3 => format!("{id}-1.0nb2"),
        4 => format!("{{{id},alt{id}}}-[0-9]*"),
        5 => format!("{id}-*"),
        _ => format!("{id}>=0.7.0nb1"),
    };
    let path = match r.below(4) {
        0 => format!("cat/{id}"),
        1 => format!("../../cat//{id}/"),
        _ => format!("../../cat/{id}"),
    };
    format!("{pat}:{path}")
}

/// An invalid item made of vocabulary words and a valid 'pattern:pkgpath':
/// a word as an extra field in front of, between or behind the two halves
/// (two or three ':'), words only, or a word where the path belongs.
fn word_depend(r: &mut Rng, id: &str) -> String {
    let good = good_depend(r, id);
    let (pat, path) = match good.split_once(':') {
        Some(x) => x,
        None => (good.as_str(), ""),
    };
    let w = *r.pick(&DEP_WORDS);
    let w2 = *r.pick(&DEP_WORDS);
    match r.below(12) {
        0 | 1 | 2 => format!("{w}:{pat}:{path}"),
        3 => format!("{pat}:{w}:{path}"),
        4 => format!("{pat}:{path}:{w}"),
        5 => format!("{w}:{w2}:{pat}:{path}"),
        6 => format!("{w}:{pat}:{path}:{w2}"),
        7 => w.to_string(),
        8 => format!("{w}:{w2}"),
        9 => format!("{w}:{w2}:{path}"),
        10 => format!("{pat}:{w}"),
        _ => format!("{w}:{w2}:{w}"),
    }
}

pub fn bad_depend(r: &mut Rng, id: &str) -> String {
    match r.below(15) {
        10..=14 => word_depend(r, id),
        0 => {
            // a valid item with one more ':' at its very end or beginning
            let g = good_depend(r, id);
            match r.below(3) {
                0 => format!("hello{id}"),
                1 => format!("{g}:"),
                _ => format!(":{g}"),
            }
        }
        1 => format!("{id}:b:c"),
        2 => format!("{id}-[0-9]*::../../cat/{id}"),
        3 => format!("{id}>2>3:../../cat/{id}"),
        4 => format!("{id}<2>=1:../../cat/{id}"),
        5 => format!("{{{id}:../../cat/{id}"),
        6 => format!("{id}-[0-9]*:foo{id}"),
        7 => format!("{id}-[0-9]*:../cat/{id}"),
        8 => format!("{id}-[0-9]*:/cat/{id}"),
        _ => format!("{id}-[0-9]*:../../cat/sub/{id}"),
    }
}

fn good_location(r: &mut Rng, id: &str) -> String {
    match r.below(3) {
        0 => format!("../../cat/{id}"),
        1 => format!("cat//{id}/"),
        _ => format!("cat/{id}"),
    }
}

fn bad_location(r: &mut Rng, id: &str) -> String {
    match r.below(6) {
        0 => id.to_string(),
        1 => format!("../cat/{id}"),
        2 => format!("/cat/{id}"),
        3 => format!("cat/sub/{id}"),
        4 => format!("../../{id}"),
        _ => format!("./cat/{id}"),
    }
}

fn scan_item(r: &mut Rng, id: &str) -> String {
    match r.below(4) {
        0 => format!("/usr/pkgsrc/mk/{id}.mk"),
        1 => format!("a//b/./{id}/"),
        2 => format!("{id}=x"),
        _ => format!("../../cat/{id}/buildlink3.mk"),
    }
}

fn multi_item(r: &mut Rng, id: &str) -> String {
    match r.below(4) {
        0 => format!("X{id}="),
        1 => id.to_string(),
        2 => format!("A={id}=B"),
        _ => format!("PYTHON_VERSION_REQD={id}"),
    }
}

fn pkgname_value(r: &mut Rng, id: &str) -> String {
    match r.below(16) {
        0 => String::new(),
        1 => id.to_string(),
        2 => format!("py312-{id}-2.0nb3"),
        3 => format!("{id}-1.0 extra"),
        4 => format!("{id}-1.0=x"),
        _ => format!("pkg{id}-1.{}", r.below(40)),
    }
}

struct Line {
    sem: Sem,
    text: Vec<u8>,
}

fn kv_line(r: &mut Rng, key: &str, value: &str, sem: Sem) -> Line {
    let text = format!("{}{}={}{}{}", pad(r), key, pad(r), value, pad(r));
    Line { sem, text: text.into_bytes() }
}

fn list_text(r: &mut Rng, items: &[String]) -> String {
    let mut s = String::new();
    for (i, it) in items.iter().enumerate() {
        if i > 0 {
            s.push_str(sep(r));
        }
        s.push_str(it);
    }
    s
}

/// Identifier-like literals of the library's source that are not known keys.
fn literal_unknown_keys() -> &'static [&'static str] {
    static L: std::sync::OnceLock<Vec<&'static str>> = std::sync::OnceLock::new();
    L.get_or_init(|| {
        const KNOWN: [&str; 16] = [
            "PKGNAME", "ALL_DEPENDS", "PKG_SKIP_REASON", "PKG_FAIL_REASON", "NO_BIN_ON_FTP", "RESTRICTED", "CATEGORIES",
            "MAINTAINER", "USE_DESTDIR", "BOOTSTRAP_PKG", "USERGROUP_PHASE", "SCAN_DEPENDS", "PBULK_WEIGHT", "MULTI_VERSION",
            "DEPENDS", "PKG_LOCATION",
        ];
        crate::corpus::literal_strs(&["scanindex", "summary", "pkgpath", "depend"])
            .into_iter()
            .filter(|s| s.len() >= 2 && s.len() <= 24 && s.chars().all(|c| c.is_ascii_alphanumeric() || c == '_') && !KNOWN.contains(s))
            .collect()
    })
}

fn ignored_line(r: &mut Rng, id: &str) -> Line {
    let text = match r.below(10) {
        0 => String::new(),
        1 => " ".to_string(),
        2 => "\t ".to_string(),
        3 => {
            // line without '='
            match r.below(6) {
                0 => "PKGNAME".to_string(),
                1 => format!("PKGNAME {id}-1.0"),
                2 => format!("PKGNAME:{id}-1.0"),
                3 => "ALL_DEPENDS".to_string(),
                4 => format!("# comment {id}"),
                _ => format!("junk {id}"),
            }
        }
        _ => {
            // an unknown key: from the list, or (one time in four) a word of the
            // library's own source that is not one of the fifteen known keys
            let lits = literal_unknown_keys();
            let key: &str = if !lits.is_empty() && r.chance(1, 4) { lits[r.below(lits.len())] } else { *r.pick(&UNKNOWN_KEYS) };
            // ... or a known key with bytes glued on that a fixed-width, a
            // NUL-terminated or a packed comparison does not see (none of them
            // is white space under any reading, so the key is not trimmed)
            let glued: String;
            let key: &str = if r.chance(1, 5) {
                const KNOWN: [&str; 8] = ["PKGNAME", "ALL_DEPENDS", "PKG_LOCATION", "MAINTAINER", "CATEGORIES", "SCAN_DEPENDS", "MULTI_VERSION", "PBULK_WEIGHT"];
                let k = *r.pick(&KNOWN);
                let inv = *r.pick(&["\0", "\0\0", "\u{1}", "\u{7f}", "\u{200b}", "\u{feff}", "\0\0\0\0\0\0\0\0"]);
                glued = if r.chance(1, 4) { format!("{inv}{k}") } else { format!("{k}{inv}") };
                &glued
            } else {
                key
            };
            let val = match r.below(6) {
                0 => format!("PKGNAME={id}-9.9"),
                1 => good_depend(r, id),
                2 => format!("cat/{id}"),
                3 => String::new(),
                _ => format!("{id}-9.9"),
            };
            format!("{}{}={}{}{}", pad(r), key, pad(r), val, pad(r))
        }
    };
    Line { sem: Sem::Ignored, text: text.into_bytes() }
}

fn utf8_line(r: &mut Rng, id: &str) -> Line {
    let mut text: Vec<u8> = match r.below(3) {
        0 => format!("FOO{id}=").into_bytes(),
        1 => format!("junk {id} ").into_bytes(),
        _ => format!("XPKGNAME={id}-").into_bytes(),
    };
    match r.below(4) {
        0 => text.extend_from_slice(b"\xff\xfe"),
        1 => text.extend_from_slice(b"caf\xe9"),
        2 => text.extend_from_slice(b"\xc3"),
        _ => text.extend_from_slice(b"\x80x"),
    }
    Line { sem: Sem::Ignored, text }
}

#[derive(Clone, Copy, PartialEq)]
enum Force {
    None,
    BadDep,
    BadLoc,
    Utf8,
}

struct RecOut {
    lines: Vec<Line>,
    keys: [bool; NKEYS],
    repeated: usize,
    ignored: usize,
    fault_item: &'static str,
}

#[allow(clippy::too_many_arguments)]
fn record(
    r: &mut Rng,
    ri: usize,
    lineno: &mut usize,
    prev_keys: Option<&[bool; NKEYS]>,
    prev_name: Option<&str>,
    force: Force,
    small: bool,
    dup: &mut usize,
) -> (RecOut, String) {
    let mut next_id = |tag: &str| {
        *lineno += 1;
        format!("r{ri}{tag}l{}", *lineno)
    };
    // PKGNAME= line
    let name = match prev_name {
        Some(p) if r.chance(1, 8) => {
            *dup += 1;
            p.to_string()
        }
        _ => {
            let id = next_id("n");
            pkgname_value(r, &id)
        }
    };
    let head = kv_line(r, "PKGNAME", &name, Sem::Pkgname(name.clone()));

    // key subset
    let mut keys = [false; NKEYS];
    let mode = r.below(10);
    for (k, slot) in keys.iter_mut().enumerate() {
        *slot = match (mode, prev_keys) {
            (0, _) => true,
            (1, _) => false,
            (2, Some(p)) => !p[k],
            (3, Some(p)) => p[k],
            _ => {
                if small {
                    r.chance(1, 4)
                } else {
                    r.chance(1, 2)
                }
            }
        };
    }
    match force {
        Force::BadDep => keys[KEY_ALL_DEPENDS] = true,
        Force::BadLoc => keys[KEY_LOCATION] = true,
        _ => {}
    }

    let max_items = if small { 2 } else { 5 };
    // A "fat" record: scalar keys repeated up to six times and dozens of
    // ignored lines, so that records of 20..170 lines occur (real ones have
    // about 15; a per-record table, sort or buffer sized for that shows only
    // past its threshold).
    let fat = !small && r.chance(1, 10);
    let mut body: Vec<Line> = vec![];
    let mut repeated = 0;
    let mut fault_item = "-";
    for k in 0..NKEYS {
        if !keys[k] {
            continue;
        }
        match k {
            KEY_LOCATION => {
                let bad = force == Force::BadLoc;
                let copies = if !bad && r.chance(1, 5) { 2 } else { 1 };
                if copies > 1 {
                    repeated += 1;
                }
                for _ in 0..copies {
                    let id = next_id("loc");
                    let v = if bad { bad_location(r, &id) } else { good_location(r, &id) };
                    body.push(kv_line(
                        r,
                        "PKG_LOCATION",
                        &v,
                        Sem::Location { value: v.clone(), valid: !bad },
                    ));
                }
            }
            KEY_ALL_DEPENDS => {
                let n = r.below(max_items + 1);
                let mut items: Vec<String> = vec![];
                for j in 0..n {
                    let id = next_id(&format!("d{j}"));
                    items.push(good_depend(r, &id));
                }
                let mut bad = None;
                if force == Force::BadDep {
                    let at = r.below(items.len() + 1);
                    let id = next_id("bad");
                    // Half of the time the invalid item is a *sibling* of a valid
                    // one of the same list: the same pattern and package with the
                    // "../../" prefix doubled or halved, a second ':', a further
                    // path component (a memo or interning table keyed on a
                    // normalised form of the item would answer for it).
                    let sib = if !items.is_empty() && r.chance(1, 2) {
                        let g = items[r.below(items.len())].clone();
                        let cand = match r.below(5) {
                            0 => g.replacen(":../../", ":../../../../", 1),
                            1 => g.replacen(":../../", ":../", 1),
                            2 => g.replacen(':', "::", 1),
                            3 => format!("{g}/extra"),
                            _ => g.replacen(":../../", ":../../../../../../", 1),
                        };
                        if cand != g && pkgsrc_free_invalid(&cand) { Some(cand) } else { None }
                    } else {
                        None
                    };
                    items.insert(at, sib.unwrap_or_else(|| bad_depend(r, &id)));
                    fault_item = pos_name(at, items.len());
                    bad = Some(at);
                }
                let text = list_text(r, &items);
                body.push(kv_line(r, "ALL_DEPENDS", &text, Sem::AllDepends { items, bad }));
            }
            KEY_SCAN_DEPENDS => {
                let n = r.below(max_items + 1);
                let items: Vec<String> = (0..n)
                    .map(|j| {
                        let id = next_id(&format!("s{j}"));
                        scan_item(r, &id)
                    })
                    .collect();
                let text = list_text(r, &items);
                body.push(kv_line(r, "SCAN_DEPENDS", &text, Sem::ScanDepends(items)));
            }
            KEY_MULTI_VERSION => {
                let n = r.below(max_items + 1);
                let items: Vec<String> = (0..n)
                    .map(|j| {
                        let id = next_id(&format!("m{j}"));
                        multi_item(r, &id)
                    })
                    .collect();
                let text = list_text(r, &items);
                body.push(kv_line(r, "MULTI_VERSION", &text, Sem::MultiVersion(items)));
            }
            _ => {
                let copies = if fat {
                    r.range(1, 6)
                } else {
                    match r.below(8) {
                        0 => 2,
                        1 => 3,
                        _ => 1,
                    }
                };
                if copies > 1 {
                    repeated += 1;
                }
                for _ in 0..copies {
                    let id = next_id(SCALARS[k]);
                    let v = scalar_value(r, &id);
                    body.push(kv_line(r, SCALARS[k], &v, Sem::Scalar(k, v.clone())));
                }
            }
        }
    }
    r.shuffle(&mut body);

    // ignored lines at random places after the PKGNAME= line
    let mut ignored = 0;
    let nign = if fat {
        r.range(5, 80)
    } else {
        match r.below(6) {
            0 => r.range(1, 4),
            1 => 1,
            _ => 0,
        }
    };
    for _ in 0..nign {
        let id = next_id("x");
        let at = r.below(body.len() + 1);
        body.insert(at, ignored_line(r, &id));
        ignored += 1;
    }
    if force == Force::Utf8 {
        let id = next_id("u");
        let at = r.below(body.len() + 1);
        body.insert(at, utf8_line(r, &id));
    }
    let mut lines = vec![head];
    lines.extend(body);
    (RecOut { lines, keys, repeated, ignored, fault_item }, name)
}

/// One document of the given class.  `small` keeps it short (I/O fault
/// sweeps and the Mini tier).
/// The line pools of `pool_doc`: per key, a handful of fixed lines (two
/// different values, the empty or an equal-after-trimming value, an invalid
/// one where the key can be invalid).
pub const POOL_KEYS: [&str; 5] = ["ALL_DEPENDS", "SCAN_DEPENDS", "MULTI_VERSION", "PKG_LOCATION", "CATEGORIES"];

fn pool_lines(key: usize) -> Vec<Line> {
    let words = |t: &str| -> Vec<String> { t.split_whitespace().map(|w| w.to_string()).collect() };
    let texts: [&str; 4] = match key {
        0 => ["a>=1:../../cat/a", "b-[0-9]*:../../cat/b c>=2<3:../../dog/c", "", "hello"],
        1 => ["a.mk", "../b/c.mk /x/y", "", "a.mk  "],
        2 => ["X=1", "Y=2 Z=3", "", "X=1\t"],
        3 => ["cat/a", "dog/b", "../../cat/a", "cat/sub/a"],
        _ => ["net", "www lang", "net ", "www"],
    };
    texts
        .iter()
        .enumerate()
        .map(|(i, t)| {
            let sem = match key {
                0 => Sem::AllDepends { items: words(t), bad: if i == 3 { Some(0) } else { None } },
                1 => Sem::ScanDepends(words(t)),
                2 => Sem::MultiVersion(words(t)),
                3 => Sem::Location { value: t.to_string(), valid: i != 3 },
                _ => Sem::Scalar(4, t.trim().to_string()),
            };
            Line { sem, text: format!("{}={t}", POOL_KEYS[key]).into_bytes() }
        })
        .collect()
}

/// Number of different record bodies of `pool_doc`: every sequence of at
/// most two lines over the four lines of a pool.
pub const POOL_BODIES: usize = 1 + 4 + 16;

/// A document whose records are built from one key's pool: record i has
/// the body number `bodies[i]` (0: no line; 1..=4: one line; 5..=20: two
/// lines).  The same few byte-identical lines recur in neighbouring records,
/// repeated and overridden inside a record - everything a reader that
/// remembers something about the previous line or record can confuse.
pub fn pool_doc(key: usize, bodies: &[usize]) -> Doc {
    let pool = pool_lines(key);
    let mut lines: Vec<Line> = vec![];
    let mut repeated = 0;
    for (ri, &b) in bodies.iter().enumerate() {
        let name = format!("pool{ri}-1.0");
        lines.push(Line { sem: Sem::Pkgname(name.clone()), text: format!("PKGNAME={name}").into_bytes() });
        let seq: Vec<usize> = match b {
            0 => vec![],
            1..=4 => vec![b - 1],
            _ => vec![(b - 5) / 4, (b - 5) % 4],
        };
        if seq.len() == 2 {
            repeated += 1;
        }
        for i in seq {
            lines.push(Line { sem: pool[i].sem.clone(), text: pool[i].text.clone() });
        }
    }
    let mut bytes = vec![];
    let mut sems = vec![];
    for l in lines {
        bytes.extend_from_slice(&l.text);
        bytes.push(b'\n');
        sems.push(l.sem);
    }
    Doc {
        bytes,
        sems,
        class: Class::Clean,
        fault_pos: "pool".into(),
        records: bodies.len(),
        leak_probes: 0,
        repeated_keys: repeated,
        ignored_lines: 0,
        dup_pkgname: 0,
    }
}

/// The fifteen known keys, each with two valid values of its kind.
pub const KNOWN_KEYS: [(&str, &str, &str); 15] = [
    ("PKGNAME", "p-1.0", "q-2.0"),
    ("ALL_DEPENDS", "a>=1:../../cat/a", "b-[0-9]*:../../dog/b"),
    ("PKG_LOCATION", "cat/a", "dog/b"),
    ("SCAN_DEPENDS", "a.mk", "../b/c.mk"),
    ("MULTI_VERSION", "X=1", "Y=2"),
    ("PKG_SKIP_REASON", "v1", "v2"),
    ("PKG_FAIL_REASON", "v1", "v2"),
    ("NO_BIN_ON_FTP", "v1", "v2"),
    ("RESTRICTED", "v1", "v2"),
    ("CATEGORIES", "net", "www"),
    ("MAINTAINER", "a@b", "c@d"),
    ("USE_DESTDIR", "yes", "no"),
    ("BOOTSTRAP_PKG", "yes", "no"),
    ("USERGROUP_PHASE", "v1", "v2"),
    ("PBULK_WEIGHT", "100", "7"),
];

fn known_sem(key: &str, value: &str) -> Sem {
    let words: Vec<String> = value.split_whitespace().map(|w| w.to_string()).collect();
    match key {
        "PKGNAME" => Sem::Pkgname(value.to_string()),
        "ALL_DEPENDS" => Sem::AllDepends { items: words, bad: None },
        "PKG_LOCATION" => Sem::Location { value: value.to_string(), valid: true },
        "SCAN_DEPENDS" => Sem::ScanDepends(words),
        "MULTI_VERSION" => Sem::MultiVersion(words),
        k => Sem::Scalar(SCALARS.iter().position(|s| *s == k).expect("harness: a scalar key"), value.to_string()),
    }
}

/// Every key that differs from a known key in one bit, or in one bit of each
/// of two neighbouring bytes (what a hand-written hash, tag or packed
/// comparison of the key is most likely to confuse with it), as far as it is
/// printable ASCII without '=' and not itself a known key.
pub fn flipped_keys(key: &str) -> Vec<String> {
    let b = key.as_bytes();
    let ok = |v: &[u8]| v.iter().all(|c| (0x21..0x7f).contains(c) && *c != b'=') && !KNOWN_KEYS.iter().any(|(k, _, _)| k.as_bytes() == v);
    let mut out = vec![];
    for i in 0..b.len() {
        for x in 0..8 {
            let mut v = b.to_vec();
            v[i] ^= 1 << x;
            if ok(&v) {
                out.push(String::from_utf8(v.clone()).expect("ascii"));
            }
            if i + 1 < b.len() {
                for y in 0..8 {
                    let mut w = v.clone();
                    w[i + 1] ^= 1 << y;
                    if ok(&w) {
                        out.push(String::from_utf8(w).expect("ascii"));
                    }
                }
            }
        }
    }
    out.sort();
    out.dedup();
    out
}

/// "PKGNAME=p-1.0", the known key with its first value, then the look-alike
/// key with the second value: the look-alike is an unknown key and changes
/// nothing.  (For PKGNAME itself the look-alike line follows directly.)
pub fn flipped_key_doc(k: usize, look_alike: &str) -> Doc {
    let (key, v1, v2) = KNOWN_KEYS[k];
    let mut lines: Vec<Line> = vec![Line { sem: Sem::Pkgname("p-1.0".into()), text: b"PKGNAME=p-1.0".to_vec() }];
    if key != "PKGNAME" {
        lines.push(Line { sem: known_sem(key, v1), text: format!("{key}={v1}").into_bytes() });
    }
    lines.push(Line { sem: Sem::Ignored, text: format!("{look_alike}={v2}").into_bytes() });
    let mut bytes = vec![];
    let mut sems = vec![];
    for l in lines {
        bytes.extend_from_slice(&l.text);
        bytes.push(b'\n');
        sems.push(l.sem);
    }
    Doc { bytes, sems, class: Class::Clean, fault_pos: "look-alike key".into(), records: 1, leak_probes: 0, repeated_keys: 0, ignored_lines: 1, dup_pkgname: 0 }
}

pub fn doc(r: &mut Rng, class: Class, small: bool) -> Doc {
    let mut lineno = 0usize;
    let mut lines: Vec<Line> = vec![];
    let nrec = if class == Class::Clean && r.chance(1, 40) {
        0
    } else if small {
        r.range(1, 3)
    } else {
        r.range(1, 8)
    };
    let fault_rec = if nrec > 0 { r.below(nrec) } else { 0 };
    let mut fault_pos = String::from("-");
    let (mut leak_probes, mut repeated, mut ignored, mut dup) = (0, 0, 0, 0);

    // blank lines before the first record (blank lines are ignored)
    if r.chance(1, 10) {
        for _ in 0..r.range(1, 2) {
            let t = *r.pick(&["", " ", "\t"]);
            lines.push(Line { sem: Sem::Ignored, text: t.as_bytes().to_vec() });
            ignored += 1;
        }
    }
    let mut nrec_out = nrec;
    if class == Class::MissingPkgname {
        // a known key that belongs to no PKGNAME= line
        let id = "r-orphan";
        let orphan = match r.below(5) {
            0 => kv_line(r, "ALL_DEPENDS", "", Sem::AllDepends { items: vec![], bad: None }),
            1 => {
                let v = format!("cat/{id}");
                kv_line(r, "PKG_LOCATION", &v, Sem::Location { value: v.clone(), valid: true })
            }
            2 => {
                let it = vec![format!("X={id}")];
                kv_line(r, "MULTI_VERSION", &it[0].clone(), Sem::MultiVersion(it))
            }
            _ => {
                let k = r.below(SCALARS.len());
                kv_line(r, SCALARS[k], id, Sem::Scalar(k, id.to_string()))
            }
        };
        lines.push(orphan);
        if r.chance(1, 4) {
            nrec_out = 0; // no PKGNAME= line at all
            fault_pos = "no-record".into();
        } else {
            fault_pos = "before-first".into();
        }
    }

    let mut prev_keys: Option<[bool; NKEYS]> = None;
    let mut prev_name: Option<String> = None;
    for ri in 0..nrec_out {
        let force = if ri == fault_rec {
            match class {
                Class::BadDepend => Force::BadDep,
                Class::BadLocation => Force::BadLoc,
                Class::Utf8 => Force::Utf8,
                _ => Force::None,
            }
        } else {
            Force::None
        };
        let (rec, name) = record(
            r,
            ri,
            &mut lineno,
            prev_keys.as_ref(),
            prev_name.as_deref(),
            force,
            small,
            &mut dup,
        );
        if force != Force::None {
            fault_pos = format!("rec-{}/item-{}", pos_name(ri, nrec_out), rec.fault_item);
        }
        if let Some(p) = &prev_keys {
            leak_probes += (0..NKEYS).filter(|&k| p[k] && !rec.keys[k]).count();
        }
        repeated += rec.repeated;
        ignored += rec.ignored;
        prev_keys = Some(rec.keys);
        prev_name = Some(name);
        lines.extend(rec.lines);
    }

    let mut bytes = vec![];
    let n = lines.len();
    let final_nl = r.chance(3, 4);
    let mut sems = Vec::with_capacity(n);
    for (i, l) in lines.into_iter().enumerate() {
        bytes.extend_from_slice(&l.text);
        if i + 1 < n || final_nl {
            bytes.push(b'\n');
        }
        sems.push(l.sem);
    }
    Doc {
        bytes,
        sems,
        class,
        fault_pos,
        records: nrec_out,
        leak_probes,
        repeated_keys: repeated,
        ignored_lines: ignored,
        dup_pkgname: dup,
    }
}

/// A `BufRead` over a byte slice with a small window.  The `fail_at`-th
/// refill (1-based) reports a hard `ErrorKind::Other` error exactly once; the
/// refills after it continue with the data, so a caller that swallows the
/// error neither loops forever nor can hide that it did.
pub struct FaultReader<'a> {
    data: &'a [u8],
    pos: usize,
    end: usize,
    bufsize: usize,
    pub refills: usize,
    fail_at: usize,
    pub fired: bool,
}

impl<'a> FaultReader<'a> {
    /// `fail_at == 0` never fails.
    pub fn new(data: &'a [u8], bufsize: usize, fail_at: usize) -> FaultReader<'a> {
        FaultReader { data, pos: 0, end: 0, bufsize: bufsize.max(1), refills: 0, fail_at, fired: false }
    }
}

impl BufRead for FaultReader<'_> {
    fn fill_buf(&mut self) -> io::Result<&[u8]> {
        if self.pos == self.end {
            self.refills += 1;
            if self.refills == self.fail_at {
                self.fired = true;
                // the kind rotates with the position: every hard error fails the
                // read as a whole, whatever it is called (Interrupted, which
                // BufRead retries by contract, is not among them)
                const KINDS: [io::ErrorKind; 8] = [
                    io::ErrorKind::Other,
                    io::ErrorKind::UnexpectedEof,
                    io::ErrorKind::BrokenPipe,
                    io::ErrorKind::TimedOut,
                    io::ErrorKind::InvalidData,
                    io::ErrorKind::ConnectionReset,
                    io::ErrorKind::WouldBlock,
                    io::ErrorKind::PermissionDenied,
                ];
                return Err(io::Error::new(KINDS[(self.fail_at + self.data.len()) % KINDS.len()], "injected read error"));
            }
            self.end = (self.pos + self.bufsize).min(self.data.len());
        }
        Ok(&self.data[self.pos..self.end])
    }
    fn consume(&mut self, amt: usize) {
        self.pos = (self.pos + amt).min(self.end);
    }
}

impl Read for FaultReader<'_> {
    fn read(&mut self, out: &mut [u8]) -> io::Result<usize> {
        let n = {
            let b = self.fill_buf()?;
            let n = b.len().min(out.len());
            out[..n].copy_from_slice(&b[..n]);
            n
        };
        self.consume(n);
        Ok(n)
    }
}
