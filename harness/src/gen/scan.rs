//! Generators for the scan monitors.
