//! Inputs that collide under the fast, non-cryptographic hash functions a
//! hand-written cache is likely to use.
//!
//! A memo table, interning pool or compiled-pattern cache that identifies an
//! entry by a hash of the input *without comparing the input itself* answers
//! for one string with the result of another.  Random inputs meet that once
//! in 2^32 (or 2^40) lookups; a birthday search over a million candidate
//! strings finds such pairs in a fraction of a second.  The monitors run
//! their ordinary per-input check on the first string of a pair, on the
//! second, and on the first again: every answer is judged on its own by the
//! reference, so an answer carried over from the partner shows.
//!
//! Hash functions covered (each with the projections people use as slot
//! index + tag): FNV-1a 32 and 64 bit, djb2, sdbm, the Java/`31*h` hash,
//! std's `DefaultHasher` (SipHash-1-3 with the fixed keys of
//! `DefaultHasher::new()`).  Order-insensitive hashes (byte sum, byte xor,
//! length) collide on anagrams, which the monitors' generators produce
//! anyway.

use std::hash::Hasher;

fn fnv1a32(s: &[u8]) -> u64 {
    let mut h: u32 = 0x811c_9dc5;
    for &b in s {
        h ^= b as u32;
        h = h.wrapping_mul(0x0100_0193);
    }
    h as u64
}

fn fnv1a64(s: &[u8]) -> u64 {
    let mut h: u64 = 0xcbf2_9ce4_8422_2325;
    for &b in s {
        h ^= b as u64;
        h = h.wrapping_mul(0x0000_0100_0000_01b3);
    }
    h
}

fn fnv1_64(s: &[u8]) -> u64 {
    let mut h: u64 = 0xcbf2_9ce4_8422_2325;
    for &b in s {
        h = h.wrapping_mul(0x0000_0100_0000_01b3);
        h ^= b as u64;
    }
    h
}

fn djb2(s: &[u8]) -> u64 {
    let mut h: u32 = 5381;
    for &b in s {
        h = h.wrapping_mul(33).wrapping_add(b as u32);
    }
    h as u64
}

fn sdbm(s: &[u8]) -> u64 {
    let mut h: u32 = 0;
    for &b in s {
        h = (b as u32).wrapping_add(h << 6).wrapping_add(h << 16).wrapping_sub(h);
    }
    h as u64
}

fn java31(s: &[u8]) -> u64 {
    let mut h: u32 = 0;
    for &b in s {
        h = h.wrapping_mul(31).wrapping_add(b as u32);
    }
    h as u64
}

fn sip(s: &[u8]) -> u64 {
    // what `s.hash(&mut DefaultHasher::new())` feeds for a str: bytes + 0xff
    let mut h = std::collections::hash_map::DefaultHasher::new();
    h.write(s);
    h.write_u8(0xff);
    h.finish()
}

/// (name, key function): two strings with equal keys collide for a cache
/// that uses that hash with that slot/tag projection.
pub fn projections() -> Vec<(&'static str, Box<dyn Fn(&[u8]) -> u64>)> {
    vec![
        ("fnv1a32", Box::new(fnv1a32)),
        ("fnv1a64/low32", Box::new(|s| fnv1a64(s) & 0xffff_ffff)),
        ("fnv1a64/high32", Box::new(|s| fnv1a64(s) >> 32)),
        ("fnv1a64/high32+low8", Box::new(|s| {
            let h = fnv1a64(s);
            ((h >> 32) << 8) | (h & 0xff)
        })),
        ("fnv1a64/xorfold32", Box::new(|s| {
            let h = fnv1a64(s);
            (h >> 32) ^ (h & 0xffff_ffff)
        })),
        ("fnv1-64/low32", Box::new(|s| fnv1_64(s) & 0xffff_ffff)),
        ("djb2", Box::new(djb2)),
        ("sdbm", Box::new(sdbm)),
        ("java31", Box::new(java31)),
        ("siphash13/low32", Box::new(|s| sip(s) & 0xffff_ffff)),
        ("siphash13/high32", Box::new(|s| sip(s) >> 32)),
    ]
}

/// Up to `want` colliding pairs per projection among `n` candidates produced
/// by `make(i)`.  Returns (projection name, first, second).
pub fn pairs(n: usize, want: usize, make: &dyn Fn(usize) -> String) -> Vec<(&'static str, String, String)> {
    let mut out = vec![];
    for (name, key) in projections() {
        // 40-bit keys need about a million candidates for one pair; the 32-bit
        // ones give dozens from a quarter of that
        let m = if name.contains('+') { n } else { n.min(300_000) };
        let mut ks: Vec<(u64, u32)> = (0..m).map(|i| (key(make(i).as_bytes()), i as u32)).collect();
        ks.sort_unstable();
        let mut found = 0;
        for w in ks.windows(2) {
            if w[0].0 == w[1].0 {
                let (a, b) = (make(w[0].1 as usize), make(w[1].1 as usize));
                if a != b {
                    out.push((name, a, b));
                    found += 1;
                    if found >= want {
                        break;
                    }
                }
            }
        }
    }
    out
}
