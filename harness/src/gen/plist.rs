//! Generators for the plist monitors.
