//! Generators for the plist monitors (C14, C15).
//!
//! The generator emits lines as (command, separator, argument) triples or as
//! file names and therefore *knows* what every line has to parse to: the
//! expectation travels with the line (`Line::want`).  `PlistEntry` and
//! `PlistOption` are public API of the library, so the expectation is an
//! ordinary `PlistEntry` value built with the enum's constructors (no library
//! code runs for that).
//!
//! Soundness (DESIGN.md section 4): "blank" means space or tab here.  The
//! bytes in `excluded_lead` (LF, VT, FF, CR, 0x1C-0x1F, 0x85, 0xA0) are never
//! placed where the parser tests or strips blanks - as the first non-blank
//! byte of a line or of an argument - because `char::is_whitespace` and
//! `u8::is_ascii_whitespace` (and "blank") classify them differently.  They
//! do occur in the middle and at the end of names and arguments.  No line
//! contains LF.
//!
//! Next to random bytes the arguments come from pools of realistic
//! pkgsrc-style texts (one pool per command kind) and from a dictionary of
//! special prefixes / suffixes (`PREFIXES`, `SUFFIXES`): none of them starts
//! with '@', a blank or a disputed byte, so what the line must parse to is
//! still known by construction.  The long-line generators (`stress_piece`,
//! `aligned_document`, `large_document`, `huge_document`) only vary lengths,
//! blank runs and positions.

use crate::rng::Rng;
use pkgsrc::plist::{PlistEntry, PlistOption};
use std::ffi::OsString;
use std::os::unix::ffi::OsStringExt;

// ---------------------------------------------------------------------------
// Expectations
// ---------------------------------------------------------------------------

#[derive(Clone, Copy, Debug, PartialEq, Eq)]
pub enum ErrKind {
    Unsupported,
    IncorrectArgs,
    Utf8,
    /// The statement only says "an error" (wrong `@option` value).
    Any,
}

pub enum Want {
    Entry(PlistEntry),
    Err(ErrKind),
}

pub struct Line {
    pub bytes: Vec<u8>,
    pub want: Want,
    /// Command word (or "file" / "unknown") for the evidence matrix.
    pub cmd: &'static str,
    /// Argument class (or file-name class) for the evidence matrix.
    pub arg: &'static str,
}

impl Line {
    pub fn entry(&self) -> Option<&PlistEntry> {
        match &self.want {
            Want::Entry(e) => Some(e),
            Want::Err(_) => None,
        }
    }
    pub fn err(&self) -> Option<ErrKind> {
        match &self.want {
            Want::Entry(_) => None,
            Want::Err(k) => Some(*k),
        }
    }
}

#[derive(Clone, Copy, Debug, PartialEq, Eq)]
pub enum Kind {
    File,
    Cwd,
    Exec,
    UnExec,
    Mode,
    PkgOpt,
    Owner,
    Group,
    Comment,
    Ignore,
    Name,
    PkgDir,
    DirRm,
    Display,
    PkgDep,
    BldDep,
    PkgCfl,
}

/// Every entry kind except `File` and `Ignore` ("other commands of every
/// kind" in C15's workload).
pub const OTHER_KINDS: &[Kind] = &[
    Kind::Cwd,
    Kind::Exec,
    Kind::UnExec,
    Kind::Mode,
    Kind::PkgOpt,
    Kind::Owner,
    Kind::Group,
    Kind::Comment,
    Kind::Name,
    Kind::PkgDir,
    Kind::DirRm,
    Kind::Display,
    Kind::PkgDep,
    Kind::BldDep,
    Kind::PkgCfl,
];

#[derive(Clone, Copy, Debug, PartialEq, Eq)]
pub enum Rule {
    /// argument required, raw bytes
    ReqRaw,
    /// argument required, must be UTF-8
    ReqStr,
    /// argument optional, must be UTF-8 when present
    OptStr,
    /// argument optional, raw bytes
    OptRaw,
    /// argument forbidden
    Forbidden,
    /// `@option`: exactly `preserve`
    Opt,
}

pub struct Cmd {
    pub word: &'static str,
    pub kind: Kind,
    pub rule: Rule,
}

/// The command table, written from the statement of C14 / DESIGN.md.
pub const CMDS: &[Cmd] = &[
    Cmd { word: "@cwd", kind: Kind::Cwd, rule: Rule::ReqRaw },
    Cmd { word: "@src", kind: Kind::Cwd, rule: Rule::ReqRaw },
    Cmd { word: "@cd", kind: Kind::Cwd, rule: Rule::ReqRaw },
    Cmd { word: "@exec", kind: Kind::Exec, rule: Rule::ReqRaw },
    Cmd { word: "@unexec", kind: Kind::UnExec, rule: Rule::ReqRaw },
    Cmd { word: "@pkgdir", kind: Kind::PkgDir, rule: Rule::ReqRaw },
    Cmd { word: "@dirrm", kind: Kind::DirRm, rule: Rule::ReqRaw },
    Cmd { word: "@display", kind: Kind::Display, rule: Rule::ReqRaw },
    Cmd { word: "@name", kind: Kind::Name, rule: Rule::ReqStr },
    Cmd { word: "@pkgdep", kind: Kind::PkgDep, rule: Rule::ReqStr },
    Cmd { word: "@blddep", kind: Kind::BldDep, rule: Rule::ReqStr },
    Cmd { word: "@pkgcfl", kind: Kind::PkgCfl, rule: Rule::ReqStr },
    Cmd { word: "@mode", kind: Kind::Mode, rule: Rule::OptStr },
    Cmd { word: "@owner", kind: Kind::Owner, rule: Rule::OptStr },
    Cmd { word: "@group", kind: Kind::Group, rule: Rule::OptStr },
    Cmd { word: "@comment", kind: Kind::Comment, rule: Rule::OptRaw },
    Cmd { word: "@ignore", kind: Kind::Ignore, rule: Rule::Forbidden },
    Cmd { word: "@option", kind: Kind::PkgOpt, rule: Rule::Opt },
];

/// Argument classes of every command except `@option`.
pub const ARG_CLASSES: &[&str] =
    &["absent", "empty", "blank", "ascii", "utf8", "latin1", "tricky", "raw", "special", "long"];
/// Argument classes of `@option`.
pub const OPT_CLASSES: &[&str] = &[
    "absent",
    "empty",
    "blank",
    "preserve",
    "preserve-padded",
    "wrong-ascii",
    "wrong-trailing",
    "wrong-latin1",
];

pub fn classes_of(cmd: &Cmd) -> &'static [&'static str] {
    if cmd.rule == Rule::Opt {
        OPT_CLASSES
    } else {
        ARG_CLASSES
    }
}

/// Words that begin with '@' and are not commands.  None contains a space:
/// the command word ends at the first SPACE (a tab does not separate).
pub const UNKNOWN: &[&[u8]] = &[
    b"@bogus",
    b"@",
    b"@NAME",
    b"@name\tfoo",
    b"@Cwd",
    b"@cwdx",
    b"@cw",
    b"@@name",
    b"@comment\tx",
    b"@ignore\t",
    b"@names",
    b"@option\tpreserve",
    b"@pkgdepp",
    b"@cd/",
    b"@na\xffme",
    b"@\xe9",
    b"@srcs",
    b"@exe",
    b"@dirrm\t/x",
    b"@IGNORE",
    b"@cwd\t",
    b"@mode=0644",
    b"@\xef\xbb\xbfname",
    b"@name\xef\xbb\xbf",
    b"@./cwd",
    b"@mtree",
    b"@link",
];
pub const UNKNOWN_NAMES: &[&str] = &[
    "@bogus",
    "@",
    "@NAME",
    "@name<TAB>foo",
    "@Cwd",
    "@cwdx",
    "@cw",
    "@@name",
    "@comment<TAB>x",
    "@ignore<TAB>",
    "@names",
    "@option<TAB>preserve",
    "@pkgdepp",
    "@cd/",
    "@na<ff>me",
    "@<e9>",
    "@srcs",
    "@exe",
    "@dirrm<TAB>/x",
    "@IGNORE",
    "@cwd<TAB>",
    "@mode=0644",
    "@<BOM>name",
    "@name<BOM>",
    "@./cwd",
    "@mtree",
    "@link",
];
pub const UNKNOWN_ARGS: &[&str] = &["absent", "empty", "ascii"];

pub const FILE_CLASSES: &[&str] = &[
    "len1",
    "len2",
    "len3",
    "ascii",
    "spaces",
    "trail-blank",
    "lead-blank",
    "lead-blank-at",
    "plus",
    "latin1",
    "utf8",
    "raw",
    "at-inside",
    "special",
    "long",
    "lead-long",
];
/// The last `LONG_FILE_CLASSES` entries of `FILE_CLASSES` give names of
/// hundreds of bytes (C15 keeps its samples readable without them).
pub const LONG_FILE_CLASSES: usize = 2;

fn os(b: &[u8]) -> OsString {
    OsString::from_vec(b.to_vec())
}

/// Build the entry of a kind from its (already stripped) argument.  `None`
/// when the combination does not denote an entry.
pub fn entry(kind: Kind, arg: Option<&[u8]>) -> Option<PlistEntry> {
    use PlistEntry as E;
    let s = |b: &[u8]| String::from_utf8(b.to_vec()).ok();
    Some(match (kind, arg) {
        (Kind::File, Some(a)) => E::File(os(a)),
        (Kind::Cwd, Some(a)) => E::Cwd(os(a)),
        (Kind::Exec, Some(a)) => E::Exec(os(a)),
        (Kind::UnExec, Some(a)) => E::UnExec(os(a)),
        (Kind::PkgDir, Some(a)) => E::PkgDir(os(a)),
        (Kind::DirRm, Some(a)) => E::DirRm(os(a)),
        (Kind::Display, Some(a)) => E::Display(os(a)),
        (Kind::Name, Some(a)) => E::Name(s(a)?),
        (Kind::PkgDep, Some(a)) => E::PkgDep(s(a)?),
        (Kind::BldDep, Some(a)) => E::BldDep(s(a)?),
        (Kind::PkgCfl, Some(a)) => E::PkgCfl(s(a)?),
        (Kind::Mode, None) => E::Mode(None),
        (Kind::Mode, Some(a)) => E::Mode(Some(s(a)?)),
        (Kind::Owner, None) => E::Owner(None),
        (Kind::Owner, Some(a)) => E::Owner(Some(s(a)?)),
        (Kind::Group, None) => E::Group(None),
        (Kind::Group, Some(a)) => E::Group(Some(s(a)?)),
        (Kind::Comment, None) => E::Comment(None),
        (Kind::Comment, Some(a)) => E::Comment(Some(os(a))),
        (Kind::Ignore, None) => E::Ignore,
        (Kind::PkgOpt, Some(b"preserve")) => E::PkgOpt(PlistOption::Preserve),
        _ => return None,
    })
}

/// The argument rule of the command table: what a command line with the
/// given stripped argument (`None` = absent, empty or blank-only) must give.
pub fn want_for(cmd: &Cmd, arg: Option<&[u8]>) -> Want {
    let utf8 = |a: &[u8]| std::str::from_utf8(a).is_ok();
    let ent = |a: Option<&[u8]>| match entry(cmd.kind, a) {
        Some(e) => Want::Entry(e),
        // unreachable by construction; an "any error" expectation is the
        // weakest claim and keeps the harness from panicking
        None => Want::Err(ErrKind::Any),
    };
    match (cmd.rule, arg) {
        (Rule::ReqRaw, None) | (Rule::ReqStr, None) | (Rule::Opt, None) => {
            Want::Err(ErrKind::IncorrectArgs)
        }
        (Rule::ReqRaw, Some(a)) | (Rule::OptRaw, Some(a)) => ent(Some(a)),
        (Rule::ReqStr, Some(a)) | (Rule::OptStr, Some(a)) => {
            if utf8(a) {
                ent(Some(a))
            } else {
                Want::Err(ErrKind::Utf8)
            }
        }
        (Rule::OptStr, None) | (Rule::OptRaw, None) | (Rule::Forbidden, None) => ent(None),
        (Rule::Forbidden, Some(_)) => Want::Err(ErrKind::IncorrectArgs),
        (Rule::Opt, Some(a)) => {
            if a == b"preserve" {
                ent(Some(a))
            } else {
                Want::Err(ErrKind::Any)
            }
        }
    }
}

// ---------------------------------------------------------------------------
// Byte-level building blocks
// ---------------------------------------------------------------------------

pub fn is_blank(b: u8) -> bool {
    b == b' ' || b == b'\t'
}

/// Bytes on whose white-space status the readings differ (plus LF, which
/// never occurs inside a line at all).
pub fn excluded_lead(b: u8) -> bool {
    matches!(b, 0x0A | 0x0B | 0x0C | 0x0D | 0x1C..=0x1F | 0x85 | 0xA0)
}

/// Bytes that tend to expose sloppy slicing, trimming or conversion.  Used in
/// the middle and at the end of names and arguments only.
pub const DANGER: &[u8] = &[
    0x00, 0x01, 0x0B, 0x0C, 0x0D, 0x1C, 0x1F, 0x7F, 0x80, 0x85, 0xA0, 0xC2, 0xE9, 0xF8, 0xFF, b'@',
    b'=', b' ', b'\t', b'\\', b'"', b'[', b']', b'{', b'}', b',', b'%', b'\'',
];

const UTF8_BITS: &[&str] = &["\u{e9}", "\u{20ac}", "\u{1f496}", "\u{65e5}\u{672c}", "\u{f8}", "\u{df}"];
const LATIN1_BITS: &[u8] = &[0xE9, 0xF8, 0xFF, 0xFC, 0xC3, 0x80];

// Pools of realistic pkgsrc-style arguments, one per command kind, used next
// to the random bytes.  They deliberately hold the spellings on which an
// over-helpful implementation would act (directory removals, no-op commands,
// RCS ids, metadata files, backup files, non-canonical directories ...): the
// parser must keep, and the views must hand out, every entry of their kind
// whatever the argument says.
const PATHS: &[&str] = &[
    "bin/foo",
    "lib/libfoo.so.1.2",
    "share/doc/pkg/README",
    "man/man1/foo.1",
    "etc/rc.d/food",
    "a",
    "b/c",
    "include/x.h",
    "share/examples/foo/foo.conf",
    "+BUILD_INFO",
    "libexec/foo-1.0/helper",
    "+CONTENTS",
    "+DESC",
    "+COMMENT",
    "+INSTALL",
    "+DEINSTALL",
    "+DISPLAY",
    "+REQUIRED_BY",
    "+SIZE_PKG",
    "info/dir",
    "info/foo.info",
    "info/foo.info-1",
    "man/man1/foo.1.gz",
    "man/cat1/foo.0",
    "share/foo/bar.orig",
    "share/foo/bar.rej",
    "etc/foo.conf~",
    "bin/foo~",
    "share/foo/x.bak",
    "share/foo/#x#",
    "share/foo/.#x",
    "lib/libfoo.la",
    "lib/libfoo.a",
    "lib/foo/core",
    "share/foo/foo.core",
    "share/doc/foo/.hidden",
    "share/foo/CVS/Entries",
    "share/foo/.git/config",
    "lib/python3.11/site-packages/foo/__pycache__/x.cpython-311.pyc",
    ".",
    "..",
    "./bin/foo",
    "bin//foo",
    "bin/./foo",
    "bin/../bin/foo",
    "bin/foo/",
    "/etc/foo.conf",
    "/usr/pkg/bin/foo",
    "share/foo/a b",
    "${PLIST.nls}share/locale/de/LC_MESSAGES/foo.mo",
    "${PKGMANDIR}/man1/foo.1",
    "%D/bin/x",
    "bin/[",
    "include/c++/v1/x",
    "share/foo/ignore",
    "ignore",
    "comment",
    "preserve",
    "dir",
    "rmdir",
    "true",
];
const DIRS: &[&str] = &[
    "/usr/pkg",
    "/opt/pkg",
    "/",
    "/usr/pkg/",
    "/var/db/pkg",
    "opt",
    "/a/b/",
    ".",
    "//",
    "/tmp",
    "/usr/pkg//share",
    "/usr/pkg/./x",
    "/usr/pkg/x/.",
    "/usr/pkg/./",
    "/usr//pkg/",
    "///",
    "/.",
    "/./",
    "./",
    "./x",
    "..",
    "/usr/pkg/..",
    "/usr/pkg/../pkg",
    "/usr/pkg/share/../lib",
    "usr/pkg",
    "/usr/X11R7",
    "/usr/pkg/emul/linux",
    "~",
    "${PREFIX}",
    "%D",
    "/usr/pkg ",
    "/usr/pkg\\",
    "C:\\pkg",
];
/// Directories for @pkgdir / @dirrm (relative to the prefix as a rule, but
/// absolute and non-canonical ones occur).
const SUBDIRS: &[&str] = &[
    "share/foo",
    "share/foo/",
    "share/foo/bar",
    "/var/db/foo",
    "/usr/pkg/share/foo",
    "/",
    ".",
    "etc",
    "lib/foo-1.0",
    "share//foo",
    "./share/foo",
    "share/foo/.",
    "share/foo/..",
    "%D/share/foo",
    "${PREFIX}/share/foo",
    "share/foo bar",
    "info",
    "man/man1",
    "/var/run/foo",
    "/tmp",
];
const PKGNAMES: &[&str] = &[
    "pkgtest-1.0",
    "foo-1.2nb3",
    "p5-Foo-Bar-0.01",
    "x",
    "foo",
    "foo-",
    "-1.0",
    "foo-bar",
    "foo-1.0-2",
    "foo-1.0nb0",
    "FOO-1.0",
    "foo-[0-9]*",
    "foo-1.0 ",
    "foo-1.0 bar-2.0",
];
const DEPS: &[&str] = &[
    "dep-pkg1-[0-9]*",
    "dep-pkg2>=2.0",
    "cfl-pkg1<2.0",
    "{a,b}-[0-9]*",
    "foo>=1.0<2.0",
    "perl>=5.0",
    "foo-1.0",
    "foo-1.0{,nb*}",
    "foo",
    "foo-*",
    "*",
    "x",
    "../../lang/perl5",
    "foo-[0-9]*:../../devel/foo",
    ">=1.0",
    "foo>=",
    "foo-1.0 bar-2.0",
    "pkgtest-1.0",
    "{foo,bar",
    "foo<1.0>2.0",
];
const MODES: &[&str] = &[
    "0644", "4755", "755", "0755", "0444", "2755", "01777", "u+rwx", "a+x", "go-w", "u=rwx,go=rx", "0",
    "644", "0000", "7777", "-", "rw-r--r--", "0644 ",
];
const OWNERS: &[&str] = &[
    "root", "bin", "nobody", "daemon", "0", "games", "www", "_foo", "uucp", "root:wheel", "${ROOT_USER}",
    "${REAL_ROOT_USER}", "65534", "Root",
];
const GROUPS: &[&str] = &[
    "wheel", "bin", "nogroup", "staff", "0", "games", "kmem", "tty", "operator", "${ROOT_GROUP}", "nobody",
    "Wheel",
];
const DISPLAYS: &[&str] = &["MESSAGE", "+DISPLAY", "share/doc/foo/MESSAGE", "/dev/null", "hi", "MESSAGE.NetBSD"];
const WORDS: &[&str] = &["0644", "root", "wheel", "u+rwx", "bin", "755", "nobody", "MESSAGE", "hi"];
/// @exec / @unexec command texts.
const SHELL: &[&str] = &[
    "echo \"I just installed F=%F D=%D B=%B f=%f\"",
    "rm -f %D/share/foo",
    "${MKDIR} %D/var && true",
    "true",
    "install-info --delete %D/info/dir",
    "$NetBSD$",
    "rmdir %D/share/foo 2>/dev/null || true",
    "rmdir %D/share/foo",
    "/bin/rmdir -p %D/x",
    "/usr/bin/rmdir %D/share/foo/bar",
    "rmdir -p %D/share/foo/bar 2>/dev/null || ${TRUE}",
    "${RMDIR} %D/share/foo",
    "rmdir /var/x",
    "rmdir",
    "echo rmdir %D/x",
    "test -d %D/x && rmdir %D/x",
    "${MKDIR} %D/y",
    "mkdir -p %D/share/foo",
    "/bin/mkdir -p %D/var/foo",
    "install-info --delete %D/info/f.info %D/info/dir",
    "install-info %D/info/f.info %D/info/dir",
    "install-info --info-dir=%D/info %D/info/f.info",
    "%D/bin/x",
    "%D/sbin/update-foo --remove",
    "${RM} -f %D/x",
    "rm -rf %D/var/cache/foo",
    "/bin/rm -f %D/%F.bak",
    "/bin/sh -c \"cd %D && rm -f x\"",
    "if [ -f %D/x ]; then rm %D/x; fi",
    "ldconfig",
    "/sbin/ldconfig -m %D/lib",
    "update-desktop-database",
    "gtk-update-icon-cache -f -t %D/share/icons/hicolor",
    "%D/bin/mktexlsr",
    "chmod 755 %D/bin/x",
    "chown root:wheel %F",
    "ln -sf %D/bin/a %D/bin/b",
    "unlink %D/bin/b",
    "pkg_delete foo",
    ":",
    "false",
    "exit 0",
    "# nothing",
    "@unexec rmdir %D/x",
    "@exec true",
    "${TRUE}",
    "/usr/bin/true",
    "echo",
];
const COMMENTS: &[&str] = &[
    "$NetBSD$",
    "$NetBSD: PLIST,v 1.12 2023/04/01 10:00:00 wiz Exp $",
    "$Id$",
    "DEPENDS",
    "ignore",
    "preserve",
    "MD5:d41d8cd98f00b204e9800998ecf8427e",
    "Symlink:../lib/x",
    "bin/foo",
    "in-tree-file",
    "@ignore",
    "@name x",
    "This is a comment",
    "DEPOT",
    "PKG_FORMAT_REVISION:1.1",
    "#",
    "TODO: remove",
    "end of list",
];

/// Byte strings that tools, editors and shells treat specially in front of
/// a name: none begins with '@', a blank or a byte of disputed white-space
/// status, so a line that starts with one of them is a file entry and an
/// argument that starts with one keeps it.
pub const PREFIXES: &[&[u8]] = &[
    b"\xef\xbb\xbf",
    b"\xef\xbb\xbf\xef\xbb\xbf",
    b"\xff\xfe",
    b"\xfe\xff",
    b"\xef\xbb",
    b"./",
    b"/",
    b"//",
    b"../",
    b"#",
    b"# ",
    b"#!",
    b"\\",
    b"\\@",
    b"\"",
    b"'",
    b"`",
    b"-",
    b"--",
    b"+",
    b"!",
    b"%",
    b"%D/",
    b"%%",
    b"$",
    b"${PREFIX}/",
    // what a PLIST in the pkgsrc tree (not yet an installed +CONTENTS) carries
    b"${PLIST.nls}",
    b"${PLIST.x11}",
    b"${PKGLOCALEDIR}/",
    b"${PLIST.",
    b"${PLIST.a}${PLIST.b}",
    b"@comment",
    b"${PLIST.x}",
    b"~",
    b"~/",
    b"\x00",
    b"\x1b[0m",
    b"\x7f",
    b"\xc3\xa9",
    b"\xe2\x80\x8b",
    b"\xc2\xad",
    b"=",
    b":",
    b";",
    b"*",
    b"?",
    b"<",
    b">",
    b"|",
    b"&",
    b"(",
    b"[",
    b"{",
    b"a@",
    b".",
    b"..",
    b",",
    b"0",
];
/// What follows a special prefix at the start of a line: texts that would
/// be a command (or an error) if the prefix were stepped over, and plain
/// names.
const AFTER_PREFIX: &[&[u8]] = &[
    b"@name x",
    b"@name x-1.0",
    b"@comment $NetBSD$",
    b"@comment",
    b"@ignore",
    b"@",
    b"@cwd /usr/pkg",
    b"@bogus",
    b"@exec true",
    b"@unexec rmdir %D/x",
    b"@option preserve",
    b"@pkgdep foo>=1",
    b"@dirrm share/foo",
    b"@mode",
    b"bin/foo",
    b"x",
    b"",
    b" ",
    b" @name x",
    b"\t@ignore",
];
/// Ends of names and arguments that invite trimming, joining or unquoting.
const SUFFIXES: &[&[u8]] = &[
    b"\\", b" \\", b"/", b"/.", b"//", b"\r", b" \r", b";", b" &&", b"\"", b"'", b"\x00", b"\xef\xbb\xbf", b"~",
    b".gz", b".orig", b"#", b" #", b" # x", b",", b"=", b"@", b" @", b"$",
];

fn pickb(r: &mut Rng, xs: &[&'static [u8]]) -> &'static [u8] {
    xs[r.below(xs.len())]
}

fn blanks(r: &mut Rng, lo: usize, hi: usize) -> Vec<u8> {
    let n = r.range(lo, hi);
    (0..n).map(|_| if r.chance(2, 3) { b' ' } else { b'\t' }).collect()
}

fn ascii_for(r: &mut Rng, kind: Kind) -> Vec<u8> {
    let pool: &[&str] = match kind {
        Kind::File => PATHS,
        Kind::Cwd => DIRS,
        Kind::PkgDir | Kind::DirRm => {
            if r.chance(3, 4) {
                SUBDIRS
            } else {
                DIRS
            }
        }
        Kind::Name => PKGNAMES,
        Kind::PkgDep | Kind::BldDep | Kind::PkgCfl => {
            if r.chance(4, 5) {
                DEPS
            } else {
                PKGNAMES
            }
        }
        Kind::Exec | Kind::UnExec => SHELL,
        Kind::Comment => {
            if r.chance(3, 4) {
                COMMENTS
            } else {
                SHELL
            }
        }
        Kind::Mode => MODES,
        Kind::Owner => OWNERS,
        Kind::Group => GROUPS,
        Kind::Display => DISPLAYS,
        _ => WORDS,
    };
    if r.chance(1, 6) {
        // random printable text of length 1..12 (no blank first)
        let n = r.range(1, 12);
        let mut v: Vec<u8> = (0..n).map(|_| 0x21 + (r.below(0x7e - 0x21 + 1) as u8)).collect();
        if kind == Kind::File && v[0] == b'@' {
            v[0] = b'a';
        }
        v
    } else {
        r.pick(pool).as_bytes().to_vec()
    }
}

fn with_utf8(r: &mut Rng, mut base: Vec<u8>) -> Vec<u8> {
    // base is ASCII, so every position is a character boundary
    for _ in 0..r.range(1, 3) {
        let at = r.below(base.len() + 1);
        let bit = r.pick(UTF8_BITS).as_bytes();
        base.splice(at..at, bit.iter().copied());
    }
    base
}

fn with_latin1(r: &mut Rng, mut base: Vec<u8>) -> Vec<u8> {
    for _ in 0..r.range(1, 3) {
        let at = r.below(base.len() + 1);
        base.insert(at, *r.pick(LATIN1_BITS));
    }
    if std::str::from_utf8(&base).is_ok() {
        base.push(0xFF);
    }
    base
}

fn tricky(r: &mut Rng, mut base: Vec<u8>) -> Vec<u8> {
    for _ in 0..r.range(1, 3) {
        match r.below(6) {
            0 => base.extend(blanks(r, 1, 3)), // trailing blanks
            1 => {
                let at = r.range(1, base.len());
                base.splice(at..at, [b' ', b' ']); // inner spaces
            }
            2 => {
                let at = r.range(1, base.len());
                base.insert(at, *r.pick(b"@=\t"));
            }
            3 => {
                let at = r.range(1, base.len());
                base.insert(at, *r.pick(DANGER)); // middle
            }
            4 => base.push(*r.pick(DANGER)), // end
            _ => {
                // looks like another command / assignment
                base.extend_from_slice(pickb(r, &[&b" @name x"[..], b" = y", b" @", b"=", b"\t@ignore"]));
            }
        }
    }
    base
}

fn raw(r: &mut Rng) -> Vec<u8> {
    let n = if r.chance(1, 4) { r.range(1, 3) } else { r.range(1, 24) };
    (0..n).map(|_| if r.chance(1, 4) { *r.pick(DANGER) } else { r.byte() }).collect()
}

/// Make a byte string usable as an argument or as a file name without
/// leading blanks: no LF, non-empty, first byte neither blank nor in the
/// excluded set.
fn sanitize(v: &mut Vec<u8>) {
    for b in v.iter_mut() {
        if *b == b'\n' {
            *b = b'n';
        }
    }
    if v.is_empty() {
        v.push(b'x');
    }
    if is_blank(v[0]) || excluded_lead(v[0]) {
        v[0] = b'x';
    }
}

/// `n` blanks: all spaces, all tabs, or a mixture.
pub fn blank_run(r: &mut Rng, n: usize) -> Vec<u8> {
    match r.below(4) {
        0 => vec![b' '; n],
        1 => vec![b'\t'; n],
        _ => (0..n).map(|_| if r.chance(2, 3) { b' ' } else { b'\t' }).collect(),
    }
}

/// Number of leading blanks for the long-line workloads: every length
/// 0-200 is equally likely, with the block sizes and their neighbours on top.
pub fn lead_len(r: &mut Rng) -> usize {
    if r.chance(1, 5) {
        *r.pick(&[0usize, 1, 7, 8, 15, 16, 17, 31, 32, 33, 63, 64, 65, 127, 128, 129, 199, 200])
    } else {
        r.range(0, 200)
    }
}

/// `n` >= 1 bytes of name / argument text without LF whose first byte is
/// neither a blank, '@' nor of disputed white-space status.  `utf8` keeps
/// the text valid UTF-8.
pub fn long_text(r: &mut Rng, n: usize, utf8: bool) -> Vec<u8> {
    let mut v: Vec<u8> = Vec::with_capacity(n + 4);
    match r.below(if utf8 { 3 } else { 5 }) {
        0 => {
            // path-like
            while v.len() < n {
                v.extend_from_slice(r.pick(PATHS).as_bytes());
                v.push(b'/');
            }
        }
        1 => {
            // one repeated printable byte, a blank run somewhere inside
            let c = *r.pick(b"axZ0_-./");
            v.resize(n, c);
            if n >= 8 && r.chance(1, 2) {
                let len = r.range(1, n / 2);
                let at = r.range(1, n - len);
                let run = blank_run(r, len);
                v[at..at + len].copy_from_slice(&run);
            }
        }
        2 => {
            // words separated by blanks, trailing blanks now and then
            while v.len() < n {
                v.extend_from_slice(r.pick(SHELL).as_bytes());
                v.extend(blanks(r, 1, 3));
            }
        }
        _ => {
            v = (0..n).map(|_| if r.chance(1, 10) { *r.pick(DANGER) } else { r.byte() }).collect();
        }
    }
    v.truncate(n);
    sanitize(&mut v);
    if v[0] == b'@' {
        v[0] = b'a';
    }
    v
}

fn special(r: &mut Rng, base: Vec<u8>) -> Vec<u8> {
    let bom: &[u8] = b"\xef\xbb\xbf";
    let mut v: Vec<u8> = vec![];
    match r.below(8) {
        0 | 1 | 2 => {
            // special prefix (one time in four: a literal of the library's own
            // source), sometimes in front of something command-like
            let lits = literal_prefixes();
            if !lits.is_empty() && r.chance(1, 4) {
                v.extend_from_slice(lits[r.below(lits.len())]);
            } else {
                v.extend_from_slice(pickb(r, PREFIXES));
            }
            if r.chance(1, 3) {
                v.extend_from_slice(pickb(r, AFTER_PREFIX));
            } else {
                v.extend(base);
            }
        }
        3 => {
            // begins with '@' (an argument may)
            v.extend_from_slice(pickb(r, &[&b"@"[..], b"@name x", b"@@", b"@ignore", b"@comment ", b"@cwd /"]));
            if r.chance(1, 2) {
                v.extend(base);
            }
        }
        4 => {
            v.extend(base);
            v.extend_from_slice(pickb(r, SUFFIXES));
        }
        5 => {
            // byte order mark in front, inside or at the end
            let at = match r.below(3) {
                0 => 0,
                1 => r.below(base.len() + 1),
                _ => base.len(),
            };
            v.extend_from_slice(&base[..at]);
            v.extend_from_slice(bom);
            v.extend_from_slice(&base[at..]);
        }
        6 => {
            v.extend_from_slice(pickb(r, PREFIXES));
            v.extend(base);
            v.extend_from_slice(pickb(r, SUFFIXES));
        }
        _ => {
            // a prefix or suffix token as the whole text
            if r.chance(1, 2) {
                v.extend_from_slice(pickb(r, PREFIXES));
            } else {
                v.extend_from_slice(pickb(r, SUFFIXES));
            }
        }
    }
    v
}

fn payload(r: &mut Rng, class: &str, kind: Kind) -> Vec<u8> {
    if class == "long" {
        let n = if r.chance(1, 10) { r.range(1000, 5000) } else { r.range(60, 1000) };
        let strict = matches!(
            kind,
            Kind::Name | Kind::PkgDep | Kind::BldDep | Kind::PkgCfl | Kind::Mode | Kind::Owner | Kind::Group
        );
        // commands that need UTF-8 mostly get it (the error path has its own classes)
        let utf8 = strict && r.chance(7, 8);
        return long_text(r, n, utf8);
    }
    let base = ascii_for(r, kind);
    let mut v = match class {
        "ascii" => base,
        "utf8" => with_utf8(r, base),
        "latin1" => with_latin1(r, base),
        "tricky" => tricky(r, base),
        "special" => special(r, base),
        _ => raw(r),
    };
    sanitize(&mut v);
    if class == "latin1" && std::str::from_utf8(&v).is_ok() {
        v.push(0xFF);
    }
    v
}

/// Separator between command word and argument: the first SPACE, then
/// usually nothing, sometimes more blanks (which the parser must strip).
fn separator(r: &mut Rng) -> Vec<u8> {
    let mut s = vec![b' '];
    if r.chance(1, 4) {
        s.extend(blanks(r, 1, 3));
    }
    s
}

// ---------------------------------------------------------------------------
// Lines
// ---------------------------------------------------------------------------

/// A command line for `CMDS[ci]` with an argument of class `classes_of(..)[ai]`.
pub fn command_line(r: &mut Rng, ci: usize, ai: usize) -> Line {
    let cmd = &CMDS[ci % CMDS.len()];
    let classes = classes_of(cmd);
    let class = classes[ai % classes.len()];
    let mut bytes = cmd.word.as_bytes().to_vec();
    let mut arg: Option<Vec<u8>> = None;
    match class {
        "absent" => {}
        "empty" => bytes.push(b' '),
        "blank" => {
            bytes.push(b' ');
            bytes.extend(blanks(r, 1, 3));
        }
        "preserve" => {
            bytes.extend_from_slice(b" preserve");
            arg = Some(b"preserve".to_vec());
        }
        "preserve-padded" => {
            bytes.push(b' ');
            bytes.extend(blanks(r, 1, 3));
            bytes.extend_from_slice(b"preserve");
            arg = Some(b"preserve".to_vec());
        }
        "wrong-ascii" => {
            let a = pickb(r, &[&b"Preserve"[..],
                    b"preserved",
                    b"preserv",
                    b"preserve x",
                    b"invalid",
                    b"PRESERVE",
                    b"p",
                    b"preserve=yes",
                    b"@option preserve",
                ])
                .to_vec();
            bytes.extend(separator(r));
            bytes.extend_from_slice(&a);
            arg = Some(a);
        }
        "wrong-trailing" => {
            let mut a = b"preserve".to_vec();
            a.extend(blanks(r, 1, 2));
            bytes.extend(separator(r));
            bytes.extend_from_slice(&a);
            arg = Some(a);
        }
        "wrong-latin1" => {
            let a = with_latin1(r, b"preserve".to_vec());
            let mut a2 = a;
            sanitize(&mut a2);
            bytes.extend(separator(r));
            bytes.extend_from_slice(&a2);
            arg = Some(a2);
        }
        other => {
            let a = payload(r, other, cmd.kind);
            if other == "long" {
                // the separating space, then blanks of every length 0-200
                bytes.push(b' ');
                let n = lead_len(r);
                bytes.extend(blank_run(r, n));
            } else {
                bytes.extend(separator(r));
            }
            bytes.extend_from_slice(&a);
            arg = Some(a);
        }
    }
    let want = want_for(cmd, arg.as_deref());
    Line { bytes, want, cmd: cmd.word, arg: class }
}

/// A line starting with '@' whose first word is not a command.
pub fn unknown_line(r: &mut Rng, wi: usize, ai: usize) -> Line {
    let wi = wi % UNKNOWN.len();
    let class = UNKNOWN_ARGS[ai % UNKNOWN_ARGS.len()];
    let mut bytes = UNKNOWN[wi].to_vec();
    match class {
        "absent" => {}
        "empty" => bytes.push(b' '),
        _ => {
            bytes.extend(separator(r));
            bytes.extend(payload(r, "ascii", Kind::Comment));
        }
    }
    Line { bytes, want: Want::Err(ErrKind::Unsupported), cmd: "unknown", arg: UNKNOWN_NAMES[wi] }
}

const ONE: &[u8] = b"abzAZ019+-._~/\\#$%&*()=?!<>|;:,'\"[]{}\x00\x01\x7f\x80\xc2\xe9\xf8\xff";

/// One byte that is a complete, non-blank file name on its own.
pub fn single_char(r: &mut Rng) -> u8 {
    if r.chance(1, 5) {
        loop {
            let b = r.byte();
            if b != b'@' && !is_blank(b) && !excluded_lead(b) {
                return b;
            }
        }
    }
    *r.pick(ONE)
}

/// A file line of class `FILE_CLASSES[fi]`: the whole line is the name.
pub fn file_line(r: &mut Rng, fi: usize) -> Line {
    let class = FILE_CLASSES[fi % FILE_CLASSES.len()];
    let mut v: Vec<u8> = match class {
        "len1" => vec![single_char(r)],
        "len2" => {
            let b = if r.chance(1, 2) { *r.pick(DANGER) } else { r.byte() };
            vec![single_char(r), b]
        }
        "len3" => {
            let b = if r.chance(1, 2) { *r.pick(DANGER) } else { r.byte() };
            let c = if r.chance(1, 2) { *r.pick(DANGER) } else { r.byte() };
            vec![single_char(r), b, c]
        }
        "ascii" => ascii_for(r, Kind::File),
        "spaces" => {
            let mut b = ascii_for(r, Kind::File);
            b.push(b' ');
            b.extend(ascii_for(r, Kind::File));
            if r.chance(1, 3) {
                b.extend_from_slice(b"  x");
            }
            b
        }
        "trail-blank" => {
            let mut b = ascii_for(r, Kind::File);
            b.extend(blanks(r, 1, 3));
            b
        }
        "lead-blank" => {
            let mut b = blanks(r, 1, 3);
            let mut p = if r.chance(1, 3) { vec![single_char(r)] } else { payload(r, "tricky", Kind::File) };
            sanitize(&mut p);
            b.extend(p);
            b
        }
        "lead-blank-at" => {
            // blanks, then something that would be a command (or an error)
            // if the blanks were stripped
            let mut b = blanks(r, 1, 2);
            b.extend_from_slice(pickb(r, &[&b"@comment hi"[..],
                b"@comment ",
                b"@name x-1.0",
                b"@bogus",
                b"@",
                b"@ignore",
                b"@cwd /",
                b"@ignore x",
                b"@name",
            ]));
            b
        }
        "plus" => {
            let mut b = b"+".to_vec();
            b.extend_from_slice(pickb(r, &[&b"CONTENTS"[..],
                b"BUILD_INFO",
                b"DESC",
                b"COMMENT",
                b"",
                b"+",
                b" x",
            ]));
            b
        }
        "latin1" => {
            let b = ascii_for(r, Kind::File);
            with_latin1(r, b)
        }
        "utf8" => {
            let b = ascii_for(r, Kind::File);
            with_utf8(r, b)
        }
        "raw" => raw(r),
        "at-inside" => {
            let mut b = ascii_for(r, Kind::File);
            b.extend_from_slice(pickb(r, &[&b"@"[..], b" @name x", b"@cwd /", b"/@", b" @"]));
            b
        }
        "special" => {
            // a special prefix (byte order mark, "./", "#", ...) and then
            // usually something that would be a command without it
            let mut b = pickb(r, PREFIXES).to_vec();
            match r.below(4) {
                0 | 1 => b.extend_from_slice(pickb(r, AFTER_PREFIX)),
                2 => b.extend(ascii_for(r, Kind::File)),
                _ => {
                    b.extend(ascii_for(r, Kind::File));
                    b.extend_from_slice(pickb(r, SUFFIXES));
                }
            }
            b
        }
        "lead-long" => {
            // blanks of every length 0-200, then 60-1000 bytes (sometimes a
            // single byte, sometimes a command text: with blanks in front it
            // is a file)
            let n = lead_len(r);
            let mut b = blank_run(r, n);
            match r.below(8) {
                0 => b.push(single_char(r)),
                1 if n > 0 => {
                    b.extend_from_slice(b"@comment ");
                    let k = r.range(60, 1000);
                    b.extend(long_text(r, k, false));
                }
                _ => {
                    let k = if r.chance(1, 10) { r.range(1000, 5000) } else { r.range(60, 1000) };
                    b.extend(long_text(r, k, false));
                }
            }
            b
        }
        _ => {
            // long: a few hundred to a few thousand bytes
            let n = if r.chance(1, 8) { r.range(1000, 5000) } else { r.range(64, 400) };
            (0..n).map(|_| if r.chance(1, 10) { *r.pick(DANGER) } else { r.byte() }).collect()
        }
    };
    let lead = matches!(class, "lead-blank" | "lead-blank-at") || (class == "lead-long" && is_blank(v[0]));
    if !lead {
        sanitize(&mut v);
        if v[0] == b'@' {
            v[0] = b'a';
        }
    } else {
        for b in v.iter_mut() {
            if *b == b'\n' {
                *b = b'n';
            }
        }
    }
    let want = match entry(Kind::File, Some(&v)) {
        Some(e) => Want::Entry(e),
        None => Want::Err(ErrKind::Any),
    };
    Line { bytes: v, want, cmd: "file", arg: class }
}

/// A file line with exactly these bytes (after the same sanitising as
/// `file_line`: no line feed, no blank or excluded first byte, no '@' first).
pub fn file_line_from(mut v: Vec<u8>) -> Line {
    sanitize(&mut v);
    if v[0] == b'@' {
        v[0] = b'a';
    }
    let want = match entry(Kind::File, Some(&v)) {
        Some(e) => Want::Entry(e),
        None => Want::Err(ErrKind::Any),
    };
    Line { bytes: v, want, cmd: "file", arg: "exact" }
}

/// Number of cells of the (line kind x class) table.
pub fn table_cells() -> usize {
    let mut n = FILE_CLASSES.len() + UNKNOWN.len() * UNKNOWN_ARGS.len();
    for c in CMDS {
        n += classes_of(c).len();
    }
    n
}

/// The line of table cell `cell` (round-robin enumeration of every file
/// class, every command x argument class, every unknown word x class).
pub fn table_line(r: &mut Rng, cell: usize) -> Line {
    let mut c = cell % table_cells();
    if c < FILE_CLASSES.len() {
        return file_line(r, c);
    }
    c -= FILE_CLASSES.len();
    for (ci, cmd) in CMDS.iter().enumerate() {
        let k = classes_of(cmd).len();
        if c < k {
            return command_line(r, ci, c);
        }
        c -= k;
    }
    unknown_line(r, c / UNKNOWN_ARGS.len(), c % UNKNOWN_ARGS.len())
}

/// A random line that must parse to an entry.
pub fn valid_line(r: &mut Rng) -> Line {
    if r.chance(2, 5) {
        let fi = r.below(FILE_CLASSES.len());
        return file_line(r, fi);
    }
    let ci = r.below(CMDS.len());
    valid_command(r, ci)
}

fn valid_command(r: &mut Rng, ci: usize) -> Line {
    let k = classes_of(&CMDS[ci]).len();
    for _ in 0..16 {
        let ai = r.below(k);
        let l = command_line(r, ci, ai);
        if l.entry().is_some() {
            return l;
        }
    }
    // an argument class that is valid for every rule but Forbidden / Opt
    let fallback = match CMDS[ci].rule {
        Rule::Forbidden => 0, // absent
        _ => 3,               // ascii / "preserve"
    };
    command_line(r, ci, fallback)
}

/// A random valid line of the given entry kind (aliases of `@cwd` included).
pub fn valid_of_kind(r: &mut Rng, kind: Kind) -> Line {
    if kind == Kind::File {
        let fi = r.below(FILE_CLASSES.len());
        return file_line(r, fi);
    }
    let idx: Vec<usize> = (0..CMDS.len()).filter(|&i| CMDS[i].kind == kind).collect();
    let ci = *r.pick(&idx);
    valid_command(r, ci)
}

/// Literals of the library's own source that can stand at the start of a
/// file line (no '@', blank or byte of disputed white-space status first).
fn literal_prefixes() -> &'static [&'static [u8]] {
    static L: std::sync::OnceLock<Vec<&'static [u8]>> = std::sync::OnceLock::new();
    L.get_or_init(|| {
        crate::corpus::literals()
            .iter()
            .filter(|(s, _)| matches!(s.as_str(), "plist" | "pkgdb" | "metadata" | "summary" | "distinfo"))
            .map(|(_, b)| b.as_slice())
            .filter(|b| b.len() <= 24 && !b.contains(&b'\n') && !matches!(b[0], b'@' | b' ' | b'\t' | 0x0b | 0x0c | 0x0d | 0x1c..=0x1f | 0x85 | 0xa0 | 0xc2 | 0xe1 | 0xe2 | 0xe3))
            .collect()
    })
}

/// Command words the library's source mentions that are not among the
/// supported ones: `@word` lines that must be rejected whatever the library
/// has learnt about them.
fn literal_unknown_commands() -> &'static [Vec<u8>] {
    static L: std::sync::OnceLock<Vec<Vec<u8>>> = std::sync::OnceLock::new();
    L.get_or_init(|| {
        let mut out: Vec<Vec<u8>> = vec![];
        for (stem, b) in crate::corpus::literals() {
            if stem != "plist" || b.len() > 24 || b.iter().any(|c| !c.is_ascii_graphic()) {
                continue;
            }
            let w: Vec<u8> = if b[0] == b'@' { b.clone() } else { [&b"@"[..], b].concat() };
            if w.len() < 2 || CMDS.iter().any(|c| c.word.as_bytes() == &w[..]) || out.contains(&w) {
                continue;
            }
            out.push(w);
        }
        out
    })
}

/// A random line that must be rejected.
pub fn faulty_line(r: &mut Rng) -> Line {
    // a supported command word with one or two bytes glued to it that a
    // fixed-width or NUL-terminated comparison would not see (NUL, control
    // bytes, DEL, bytes >= 0x80): another word, hence not a command
    if r.chance(1, 12) {
        let ci = r.below(CMDS.len());
        let mut bytes = CMDS[ci].word.as_bytes().to_vec();
        for _ in 0..r.range(1, 2) {
            bytes.push(*r.pick(&[0x00u8, 0x00, 0x01, 0x7f, 0x80, 0xff, 0x1b, 0x08]));
        }
        match r.below(3) {
            0 => {}
            1 => bytes.push(b' '),
            _ => {
                bytes.extend(separator(r));
                bytes.extend(payload(r, "ascii", Kind::Comment));
            }
        }
        return Line { bytes, want: Want::Err(ErrKind::Unsupported), cmd: "unknown", arg: "command+invisible-byte" };
    }
    let lits = literal_unknown_commands();
    if !lits.is_empty() && r.chance(1, 8) {
        let mut bytes = lits[r.below(lits.len())].clone();
        match r.below(3) {
            0 => {}
            1 => bytes.push(b' '),
            _ => {
                bytes.extend(separator(r));
                bytes.extend(payload(r, "ascii", Kind::Comment));
            }
        }
        return Line { bytes, want: Want::Err(ErrKind::Unsupported), cmd: "unknown", arg: "source-literal" };
    }
    if r.chance(1, 3) {
        let (wi, ai) = (r.below(UNKNOWN.len()), r.below(UNKNOWN_ARGS.len()));
        return unknown_line(r, wi, ai);
    }
    for _ in 0..64 {
        let ci = r.below(CMDS.len());
        let ai = r.below(classes_of(&CMDS[ci]).len());
        let l = command_line(r, ci, ai);
        if l.err().is_some() {
            return l;
        }
    }
    unknown_line(r, 0, 0)
}

// ---------------------------------------------------------------------------
// Documents
// ---------------------------------------------------------------------------

/// A physical line of a document: a blank(-only) line or the i-th item.
#[derive(Clone, Debug, PartialEq, Eq)]
pub enum Phys {
    Blank(Vec<u8>),
    Item(usize),
}

/// Physical layout of a document over a list of item lines.
#[derive(Clone, Debug)]
pub struct Layout {
    pub phys: Vec<Phys>,
    pub final_nl: bool,
}

pub fn blank_line(r: &mut Rng) -> Vec<u8> {
    if r.chance(1, 2) {
        vec![]
    } else {
        blanks(r, 1, 4)
    }
}

/// Items in order with blank lines sprinkled "everywhere" (before the
/// first, between any two, after the last) with the given density in 1/8.
pub fn layout(r: &mut Rng, nitems: usize, density: usize) -> Layout {
    let mut phys = vec![];
    for i in 0..=nitems {
        while r.chance(density, 8 + density) {
            phys.push(Phys::Blank(blank_line(r)));
        }
        if i < nitems {
            phys.push(Phys::Item(i));
        }
    }
    Layout { phys, final_nl: r.chance(1, 2) }
}

pub fn render(items: &[&[u8]], lay: &Layout) -> Vec<u8> {
    let mut out = vec![];
    for (k, p) in lay.phys.iter().enumerate() {
        if k > 0 {
            out.push(b'\n');
        }
        match p {
            Phys::Blank(b) => out.extend_from_slice(b),
            Phys::Item(i) => out.extend_from_slice(items[*i]),
        }
    }
    if lay.final_nl {
        out.push(b'\n');
    }
    out
}

/// Is the last item followed directly by the end of input (no newline)?
pub fn last_item_unterminated(lay: &Layout) -> bool {
    !lay.final_nl && matches!(lay.phys.last(), Some(Phys::Item(_)))
}

// Equality-preserving layout edits (C14 metamorphic relation).

pub fn insert_blanks(r: &mut Rng, lay: &Layout) -> Layout {
    let mut l = lay.clone();
    for _ in 0..r.range(1, 3) {
        let at = r.below(l.phys.len() + 1);
        l.phys.insert(at, Phys::Blank(blank_line(r)));
    }
    l
}

pub fn toggle_final_newline(lay: &Layout) -> Layout {
    let mut l = lay.clone();
    l.final_nl = !l.final_nl;
    l
}

pub fn repad_blanks(r: &mut Rng, lay: &Layout) -> Layout {
    let mut l = lay.clone();
    let mut any = false;
    for p in l.phys.iter_mut() {
        if let Phys::Blank(b) = p {
            *b = if b.is_empty() { blanks(r, 1, 4) } else if r.chance(1, 2) { vec![] } else { blanks(r, 1, 4) };
            any = true;
        }
    }
    if !any {
        l.phys.push(Phys::Blank(blanks(r, 1, 4)));
    }
    l
}

// Equality-breaking layout edits.  Each returns None when not applicable.

fn item_positions(lay: &Layout) -> Vec<usize> {
    (0..lay.phys.len()).filter(|&k| matches!(lay.phys[k], Phys::Item(_))).collect()
}

pub fn delete_item(r: &mut Rng, lay: &Layout) -> Option<Layout> {
    let pos = item_positions(lay);
    if pos.is_empty() {
        return None;
    }
    let mut l = lay.clone();
    l.phys.remove(*r.pick(&pos));
    Some(l)
}

pub fn duplicate_item(r: &mut Rng, lay: &Layout) -> Option<Layout> {
    let pos = item_positions(lay);
    if pos.is_empty() {
        return None;
    }
    let mut l = lay.clone();
    let k = *r.pick(&pos);
    let at = if r.chance(1, 2) { k + 1 } else { r.below(l.phys.len() + 1) };
    let it = l.phys[k].clone();
    l.phys.insert(at, it);
    Some(l)
}

/// Swap two items for which `differ(i, j)` holds.
pub fn swap_items(r: &mut Rng, lay: &Layout, differ: &dyn Fn(usize, usize) -> bool) -> Option<Layout> {
    let pos = item_positions(lay);
    if pos.len() > 64 {
        // large documents: sample instead of enumerating all pairs
        for _ in 0..64 {
            let (a, b) = (r.below(pos.len()), r.below(pos.len()));
            if let (Phys::Item(i), Phys::Item(j)) = (&lay.phys[pos[a]], &lay.phys[pos[b]]) {
                if a != b && differ(*i, *j) {
                    let mut l = lay.clone();
                    l.phys.swap(pos[a], pos[b]);
                    return Some(l);
                }
            }
        }
        return None;
    }
    let mut pairs = vec![];
    for a in 0..pos.len() {
        for b in a + 1..pos.len() {
            if let (Phys::Item(i), Phys::Item(j)) = (&lay.phys[pos[a]], &lay.phys[pos[b]]) {
                if differ(*i, *j) {
                    pairs.push((pos[a], pos[b]));
                }
            }
        }
    }
    if pairs.is_empty() {
        return None;
    }
    let (a, b) = *r.pick(&pairs);
    let mut l = lay.clone();
    l.phys.swap(a, b);
    Some(l)
}

// ---------------------------------------------------------------------------
// Long lines, block alignment, large documents (C14)
// ---------------------------------------------------------------------------

/// Block sizes a scanner may work in.
pub const ALIGNS: &[usize] = &[16, 32, 64, 128, 256, 512, 1024, 4096, 8192, 65536];

pub enum Piece {
    Blank(Vec<u8>),
    Item(Line),
}

impl Piece {
    pub fn len(&self) -> usize {
        match self {
            Piece::Blank(b) => b.len(),
            Piece::Item(l) => l.bytes.len(),
        }
    }
}

fn pick_align(r: &mut Rng, cap: usize) -> usize {
    let a = match r.below(60) {
        0..=11 => 16,
        12..=23 => 32,
        24..=39 => 64,
        40..=44 => 128,
        45..=49 => 256,
        50..=52 => 512,
        53..=55 => 1024,
        56 | 57 => 4096,
        58 => 8192,
        _ => 65536,
    };
    if a + 8 > cap {
        64
    } else {
        a
    }
}

/// A length (>= 1, <= cap) for a line that starts at offset `cur` of the
/// document: anything from 1 to 400, a multiple of the block size `a` and
/// its neighbours, a length that makes the line END at a block boundary, or
/// one of the classic buffer sizes and its neighbours.
pub fn stress_len(r: &mut Rng, a: usize, cur: usize, cap: usize) -> usize {
    let d = r.range(0, 4) as isize - 2;
    let n = match r.below(6) {
        0 | 1 => r.range(1, 400) as isize,
        2 => (r.range(1, 3) * a) as isize + d,
        3 => {
            // `cur + n` (the position of the line's newline) lands on or
            // next to a multiple of `a`
            let to_boundary = a - (cur % a);
            (to_boundary + r.below(3) * a) as isize + d
        }
        4 => {
            *r.pick(&[63isize, 64, 65, 127, 128, 129, 191, 192, 193, 255, 256, 257, 511, 512, 513, 1023, 1024, 1025]) + 0
        }
        _ => *r.pick(&[2047isize, 2048, 2049, 4095, 4096, 4097, 8191, 8192, 8193, 65535, 65536, 65537]),
    };
    (n.max(1) as usize).min(cap.max(1))
}

fn file_of(v: Vec<u8>, class: &'static str) -> Line {
    let want = match entry(Kind::File, Some(&v)) {
        Some(e) => Want::Entry(e),
        None => Want::Err(ErrKind::Any),
    };
    Line { bytes: v, want, cmd: "file", arg: class }
}

/// One physical line of `total` bytes (approximately, for commands) built
/// to stress a block-wise scanner; `total` >= 1.
pub fn stress_piece(r: &mut Rng, total: usize) -> Piece {
    match r.below(10) {
        // a blank-only line: no entry
        0 | 1 | 2 => Piece::Blank(blank_run(r, total)),
        // blanks, then a name
        3 | 4 => {
            let lead = match r.below(4) {
                0 => total - 1, // a single byte at the very end
                1 => 0,
                _ => lead_len(r).min(total - 1),
            };
            let mut v = blank_run(r, lead);
            v.extend(long_text(r, total - lead, false));
            Piece::Item(file_of(v, "stress-name"))
        }
        // one non-blank byte somewhere in a run of blanks
        5 => {
            let mut v = blank_run(r, total);
            let at = r.below(total);
            v[at] = single_char(r);
            if at == 0 && v[0] == b'@' {
                v[0] = b'a';
            }
            Piece::Item(file_of(v, "stress-one-byte"))
        }
        // a command, blanks of every length 0-200 before its argument
        6 | 7 => {
            let word = *r.pick(&["@comment", "@exec", "@unexec", "@cwd", "@name", "@display", "@pkgdir", "@pkgdep", "@dirrm"]);
            let cmd = CMDS.iter().find(|c| c.word == word).unwrap_or(&CMDS[0]);
            let room = total.saturating_sub(word.len() + 1);
            let sep = lead_len(r).min(room.saturating_sub(1));
            let n = (room - sep).max(1);
            let arg = long_text(r, n, true);
            let mut v = word.as_bytes().to_vec();
            v.push(b' ');
            v.extend(blank_run(r, sep));
            v.extend_from_slice(&arg);
            Piece::Item(Line { bytes: v, want: want_for(cmd, Some(&arg)), cmd: cmd.word, arg: "stress-long" })
        }
        // a command whose argument is blanks only: absent
        8 => {
            let word = *r.pick(&["@comment", "@mode", "@owner", "@group", "@ignore"]);
            let cmd = CMDS.iter().find(|c| c.word == word).unwrap_or(&CMDS[0]);
            let mut v = word.as_bytes().to_vec();
            v.push(b' ');
            v.extend(blank_run(r, total.saturating_sub(word.len() + 1)));
            Piece::Item(Line { bytes: v, want: want_for(cmd, None), cmd: cmd.word, arg: "stress-blank-arg" })
        }
        // blanks, then a command text: a file
        _ => {
            let text: &[u8] = pickb(r, &[&b"@comment x"[..], b"@ignore", b"@name x-1.0", b"@", b"@bogus", b"@cwd /"]);
            let lead = total.saturating_sub(text.len()).max(1);
            let mut v = blank_run(r, lead);
            v.extend_from_slice(text);
            Piece::Item(file_of(v, "stress-lead-at"))
        }
    }
}

/// Accumulates physical lines and knows the offset at which the next one
/// starts.
struct DocBuilder {
    lines: Vec<Line>,
    phys: Vec<Phys>,
    cur: usize,
}

impl DocBuilder {
    fn push(&mut self, p: Piece) {
        self.cur += p.len() + 1;
        match p {
            Piece::Blank(b) => self.phys.push(Phys::Blank(b)),
            Piece::Item(l) => {
                self.phys.push(Phys::Item(self.lines.len()));
                self.lines.push(l);
            }
        }
    }

    /// Physical lines that occupy exactly the bytes `cur..target`.
    fn fill_to(&mut self, r: &mut Rng, target: usize) {
        // a few ordinary lines first, when there is room
        while target - self.cur > 40 && r.chance(1, 3) {
            let l = valid_line(r);
            if self.cur + l.bytes.len() + 1 + 1 > target {
                break;
            }
            self.push(Piece::Item(l));
        }
        while self.cur < target {
            let n = target - self.cur - 1; // bytes of the line in front of its newline
            if n == 0 {
                self.push(Piece::Blank(vec![]));
            } else if n >= 4 && r.chance(1, 4) {
                // two lines instead of one
                let k = r.range(1, n - 2);
                let p = Self::filler(r, k);
                self.push(p);
            } else {
                let p = Self::filler(r, n);
                self.push(p);
            }
        }
    }

    /// A line of exactly `n` >= 1 bytes.
    fn filler(r: &mut Rng, n: usize) -> Piece {
        match r.below(4) {
            0 => Piece::Blank(blank_run(r, n)),
            1 if n >= 10 => {
                let arg = long_text(r, n - 9, false);
                let mut v = b"@comment ".to_vec();
                v.extend_from_slice(&arg);
                let cmd = CMDS.iter().find(|c| c.word == "@comment").unwrap_or(&CMDS[0]);
                Piece::Item(Line { bytes: v, want: want_for(cmd, Some(&arg)), cmd: "@comment", arg: "filler" })
            }
            _ => Piece::Item(file_of(long_text(r, n, false), "filler")),
        }
    }
}

/// A document in which 1-3 stress lines start at (or one or two bytes next
/// to) a multiple of a block size, counted from the start of the document.
/// Returns the lines, the layout and the block sizes used.
pub fn aligned_document(r: &mut Rng, cap: usize) -> (Vec<Line>, Layout, Vec<usize>) {
    let mut b = DocBuilder { lines: vec![], phys: vec![], cur: 0 };
    let mut used = vec![];
    for _ in 0..r.range(1, 3) {
        let a = pick_align(r, cap);
        let delta = *r.pick(&[-2isize, -1, 0, 0, 0, 0, 1, 2]);
        let mut m = (b.cur + a - 1) / a;
        if r.chance(1, 3) && a <= 1024 {
            m += r.range(0, 2);
        }
        let mut target = (m * a) as isize + delta;
        while target < b.cur as isize {
            target += a as isize;
        }
        b.fill_to(r, target as usize);
        let total = stress_len(r, a, b.cur, cap);
        let p = stress_piece(r, total);
        b.push(p);
        used.push(a);
    }
    if r.chance(1, 2) {
        for _ in 0..r.range(1, 2) {
            if r.chance(1, 3) {
                let b2 = blank_line(r);
                b.push(Piece::Blank(b2));
            } else {
                let l = valid_line(r);
                b.push(Piece::Item(l));
            }
        }
    }
    let DocBuilder { lines, phys, .. } = b;
    (lines, Layout { phys, final_nl: r.chance(1, 2) }, used)
}

/// A document of `n` entry lines (ordinary and stress lines) with blank
/// lines, some of them long, sprinkled in.
pub fn large_document(r: &mut Rng, n: usize, cap: usize) -> (Vec<Line>, Layout) {
    let mut b = DocBuilder { lines: vec![], phys: vec![], cur: 0 };
    let density = r.below(4);
    while b.lines.len() < n {
        if r.chance(density, 12) {
            let bl = if r.chance(1, 4) {
                let k = stress_len(r, 64, b.cur, cap.min(5000));
                blank_run(r, k)
            } else {
                blank_line(r)
            };
            b.push(Piece::Blank(bl));
        }
        if r.chance(1, 10) {
            let k = stress_len(r, 64, b.cur, cap.min(5000));
            let p = stress_piece(r, k);
            b.push(p);
        } else {
            let l = if r.chance(1, 6) { file_line(r, 0) } else { valid_line(r) };
            b.push(Piece::Item(l));
        }
    }
    let DocBuilder { lines, phys, .. } = b;
    (lines, Layout { phys, final_nl: r.chance(1, 2) })
}

/// A document of at least `target` bytes: very many ordinary lines, a few
/// very long lines, or a mixture.
pub fn huge_document(r: &mut Rng, target: usize) -> (Vec<Line>, Layout) {
    let mut b = DocBuilder { lines: vec![], phys: vec![], cur: 0 };
    let mode = r.below(3);
    while b.cur < target {
        let long = match mode {
            0 => false,
            1 => true,
            _ => r.chance(1, 50),
        };
        if long {
            let k = r.range(16_000, 200_000).min(target);
            let p = stress_piece(r, k);
            b.push(p);
        } else if r.chance(1, 20) {
            let bl = blank_line(r);
            b.push(Piece::Blank(bl));
        } else {
            let l = valid_line(r);
            b.push(Piece::Item(l));
        }
    }
    let DocBuilder { lines, phys, .. } = b;
    (lines, Layout { phys, final_nl: r.chance(1, 2) })
}

/// A copy of a line (`PlistEntry` is not `Clone`).
pub fn dup_line(l: &Line) -> Line {
    use PlistEntry as E;
    #[allow(unreachable_patterns)]
    let want = match &l.want {
        Want::Err(k) => Want::Err(*k),
        Want::Entry(e) => Want::Entry(match e {
            E::File(a) => E::File(a.clone()),
            E::Cwd(a) => E::Cwd(a.clone()),
            E::Exec(a) => E::Exec(a.clone()),
            E::UnExec(a) => E::UnExec(a.clone()),
            E::Mode(a) => E::Mode(a.clone()),
            E::PkgOpt(PlistOption::Preserve) => E::PkgOpt(PlistOption::Preserve),
            E::Owner(a) => E::Owner(a.clone()),
            E::Group(a) => E::Group(a.clone()),
            E::Comment(a) => E::Comment(a.clone()),
            E::Ignore => E::Ignore,
            E::Name(a) => E::Name(a.clone()),
            E::PkgDir(a) => E::PkgDir(a.clone()),
            E::DirRm(a) => E::DirRm(a.clone()),
            E::Display(a) => E::Display(a.clone()),
            E::PkgDep(a) => E::PkgDep(a.clone()),
            E::BldDep(a) => E::BldDep(a.clone()),
            E::PkgCfl(a) => E::PkgCfl(a.clone()),
            _ => return Line { bytes: l.bytes.clone(), want: Want::Err(ErrKind::Any), cmd: l.cmd, arg: l.arg },
        }),
    };
    Line { bytes: l.bytes.clone(), want, cmd: l.cmd, arg: l.arg }
}

/// Repeat 1-3 lines of the sequence verbatim, directly after the original
/// or anywhere later (the same file, directory, dependency, @cwd or @mode
/// listed twice: every view keeps both).
pub fn with_duplicates(r: &mut Rng, mut v: Vec<Line>) -> Vec<Line> {
    if v.is_empty() {
        return v;
    }
    for _ in 0..r.range(1, 3) {
        let k = r.below(v.len());
        let at = if r.chance(1, 2) { k + 1 } else { r.range(k + 1, v.len()) };
        let d = dup_line(&v[k]);
        v.insert(at, d);
    }
    v
}

// ---------------------------------------------------------------------------
// C15: entry sequences that stress the ignore flag and the prefix
// ---------------------------------------------------------------------------

pub const SCENARIOS: &[&str] = &[
    "tiny",
    "plain",
    "consecutive-ignore",
    "trailing-ignore",
    "separated-ignore",
    "ignore-before-first-file",
    "no-cwd",
    "cwd-slash",
    "cwd-nonutf8",
    "cwd-change-in-window",
    "several-name-display",
    "preserve",
    "random-mix",
    "realistic",
    "long",
];

fn cwd_line(r: &mut Rng, style: usize) -> Line {
    let word = *r.pick(&["@cwd", "@src", "@cd"]);
    let arg: Vec<u8> = match style % 5 {
        0 => pickb(
            r,
            &[&b"/usr/pkg"[..], b"/opt/pkg", b"opt", b"/a/b", b".", b"/usr/pkg//share", b"/usr/pkg/./x", b"/usr/pkg/x/.", b"/usr/pkg/.."],
        )
        .to_vec(),
        1 => pickb(r, &[&b"/usr/pkg/"[..], b"/", b"//", b"/a/b/", b"x/", b"/usr//pkg/", b"/usr/pkg/./", b"///", b"./"]).to_vec(),
        2 => pickb(r, &[&b"/opt/\xe9"[..], b"/\xf8/x", b"/opt/p\xc3", b"\xff", b"/a\xc2"]).to_vec(),
        3 => pickb(r, &[&b"/opt/\xe9/"[..], b"/\xf8/", b"\xff/", b"/p\xc3/"]).to_vec(),
        _ => {
            let class = *r.pick(&["ascii", "utf8", "tricky", "raw"]);
            let mut v = payload(r, class, Kind::Cwd);
            if r.chance(1, 3) {
                v.push(b'/');
            }
            v
        }
    };
    let mut bytes = word.as_bytes().to_vec();
    bytes.extend(separator(r));
    bytes.extend_from_slice(&arg);
    let want = match entry(Kind::Cwd, Some(&arg)) {
        Some(e) => Want::Entry(e),
        None => Want::Err(ErrKind::Any),
    };
    Line { bytes, want, cmd: word, arg: "cwd-style" }
}

fn file(r: &mut Rng) -> Line {
    if r.chance(2, 3) {
        file_line(r, 3) // plain ASCII path: keeps samples readable
    } else {
        let fi = r.below(FILE_CLASSES.len() - LONG_FILE_CLASSES); // every class but the long ones
        file_line(r, fi)
    }
}

fn ignore(r: &mut Rng) -> Line {
    valid_of_kind(r, Kind::Ignore)
}

fn random_element(r: &mut Rng) -> Line {
    match r.below(20) {
        0..=6 => file(r),
        7..=9 => ignore(r),
        10..=12 => {
            let s = r.below(5);
            cwd_line(r, s)
        }
        _ => {
            let k = *r.pick(OTHER_KINDS);
            valid_of_kind(r, k)
        }
    }
}

/// The line `word [arg]` with exactly the given argument.
pub fn cmd_line(r: &mut Rng, word: &'static str, arg: Option<&[u8]>) -> Line {
    let cmd = CMDS.iter().find(|c| c.word == word).unwrap_or(&CMDS[0]);
    let mut bytes = cmd.word.as_bytes().to_vec();
    if let Some(a) = arg {
        bytes.extend(separator(r));
        bytes.extend_from_slice(a);
    }
    let want = want_for(cmd, arg);
    Line { bytes, want, cmd: cmd.word, arg: "pool" }
}

fn pool_line(r: &mut Rng, word: &'static str, pool: &[&str]) -> Line {
    let a = r.pick(pool).as_bytes();
    cmd_line(r, word, Some(a))
}

fn pool_file(r: &mut Rng) -> Line {
    let v = r.pick(PATHS).as_bytes().to_vec();
    let want = match entry(Kind::File, Some(&v)) {
        Some(e) => Want::Entry(e),
        None => Want::Err(ErrKind::Any),
    };
    Line { bytes: v, want, cmd: "file", arg: "pool" }
}

/// A packing list as pkg_create / the pkgsrc plist framework writes it,
/// every argument taken from the realistic pools: header (RCS id, @name,
/// dependencies, conflicts, @display, @option), @cwd, then groups of files
/// with @mode/@owner/@group set and reset, @ignore'd metadata files,
/// @exec/@unexec pairs, @pkgdir, @cwd changes, and the directory removals
/// (@unexec rmdir ..., @dirrm) at the end.
fn realistic(r: &mut Rng) -> Vec<Line> {
    let mut v: Vec<Line> = vec![];
    if r.chance(3, 4) {
        v.push(pool_line(r, "@comment", COMMENTS));
    }
    if r.chance(4, 5) {
        v.push(pool_line(r, "@name", PKGNAMES));
    }
    for _ in 0..r.below(3) {
        v.push(pool_line(r, "@blddep", DEPS));
        v.push(pool_line(r, "@pkgdep", DEPS));
    }
    for _ in 0..r.below(3) {
        v.push(pool_line(r, "@pkgcfl", DEPS));
    }
    if r.chance(1, 3) {
        v.push(pool_line(r, "@display", DISPLAYS));
    }
    if r.chance(1, 4) {
        v.push(cmd_line(r, "@option", Some(b"preserve")));
    }
    if r.chance(5, 6) {
        let w = *r.pick(&["@cwd", "@cwd", "@src", "@cd"]);
        v.push(pool_line(r, w, DIRS));
    }
    for _ in 0..r.range(1, 4) {
        let perms = r.chance(1, 2);
        if perms {
            if r.chance(2, 3) {
                v.push(pool_line(r, "@mode", MODES));
            }
            if r.chance(1, 2) {
                v.push(pool_line(r, "@owner", OWNERS));
            }
            if r.chance(1, 2) {
                v.push(pool_line(r, "@group", GROUPS));
            }
        }
        for _ in 0..r.range(1, 5) {
            match r.below(10) {
                0 | 1 => {
                    v.push(cmd_line(r, "@ignore", None));
                    if r.chance(1, 4) {
                        v.push(pool_line(r, "@comment", COMMENTS));
                    }
                    v.push(pool_file(r));
                }
                2 => {
                    v.push(pool_file(r));
                    v.push(pool_line(r, "@exec", SHELL));
                    v.push(pool_line(r, "@unexec", SHELL));
                }
                3 => {
                    v.push(pool_line(r, "@unexec", SHELL));
                    v.push(pool_file(r));
                }
                4 => {
                    v.push(pool_line(r, "@pkgdir", SUBDIRS));
                    v.push(pool_file(r));
                }
                5 => v.push(pool_line(r, "@comment", COMMENTS)),
                _ => v.push(pool_file(r)),
            }
        }
        if perms {
            // back to the defaults
            for w in ["@mode", "@owner", "@group"] {
                if r.chance(1, 2) {
                    v.push(cmd_line(r, w, None));
                }
            }
        }
        if r.chance(1, 3) {
            v.push(pool_line(r, "@cwd", DIRS));
        }
    }
    for _ in 0..r.below(4) {
        match r.below(3) {
            0 => v.push(pool_line(r, "@unexec", SHELL)),
            1 => v.push(pool_line(r, "@dirrm", SUBDIRS)),
            _ => v.push(pool_line(r, "@exec", SHELL)),
        }
    }
    if r.chance(1, 8) {
        v.push(cmd_line(r, "@ignore", None));
    }
    v
}

/// An entry sequence of length 0-30 for scenario `SCENARIOS[sc]`; `rot`
/// rotates through "every other command kind" deterministically.
pub fn sequence(r: &mut Rng, sc: usize, rot: usize) -> Vec<Line> {
    let mut core: Vec<Line> = vec![];
    let other = |r: &mut Rng, k: usize| {
        let kind = OTHER_KINDS[(rot + k) % OTHER_KINDS.len()];
        if kind == Kind::Cwd {
            let s = r.below(5);
            cwd_line(r, s)
        } else {
            valid_of_kind(r, kind)
        }
    };
    let mut with_filler = true;
    let mut allow_cwd_filler = true;
    match SCENARIOS[sc % SCENARIOS.len()] {
        "tiny" => {
            for _ in 0..r.below(3) {
                core.push(random_element(r));
            }
            with_filler = false;
        }
        "plain" => {
            core.push(cwd_line(r, 0));
            for _ in 0..r.range(1, 4) {
                core.push(file(r));
            }
            let s = r.below(5);
            core.push(cwd_line(r, s));
            core.push(file(r));
        }
        "consecutive-ignore" => {
            core.push(file(r));
            for _ in 0..r.range(2, 4) {
                core.push(ignore(r));
            }
            core.push(file(r));
            core.push(file(r));
        }
        "trailing-ignore" => {
            for _ in 0..r.below(3) {
                core.push(file(r));
            }
            core.push(ignore(r));
            if r.chance(1, 2) {
                core.push(other(r, 0));
            }
            // nothing but non-file entries may follow: filler goes in front
            let mut pre = vec![];
            for _ in 0..r.below(8) {
                pre.push(random_element(r));
            }
            pre.extend(core);
            return truncate_keep_tail(pre);
        }
        "separated-ignore" => {
            core.push(file(r));
            core.push(ignore(r));
            let k = 1 + (rot / OTHER_KINDS.len()) % 3;
            for j in 0..k {
                core.push(other(r, j));
            }
            core.push(file(r));
            core.push(file(r));
        }
        "ignore-before-first-file" => {
            let mut pre = vec![];
            for j in 0..r.below(3) {
                pre.push(other(r, j));
            }
            pre.push(ignore(r));
            if r.chance(1, 2) {
                pre.push(other(r, 3));
            }
            pre.push(file(r));
            pre.push(file(r));
            for _ in 0..r.below(6) {
                pre.push(random_element(r));
            }
            return pre;
        }
        "no-cwd" => {
            allow_cwd_filler = false;
            core.push(file(r));
            core.push(ignore(r));
            core.push(file(r));
            core.push(file(r));
        }
        "cwd-slash" => {
            core.push(cwd_line(r, 1));
            core.push(file(r));
            core.push(cwd_line(r, 0));
            core.push(file(r));
            core.push(cwd_line(r, 3));
            core.push(file(r));
        }
        "cwd-nonutf8" => {
            core.push(cwd_line(r, 2));
            core.push(file(r));
            core.push(ignore(r));
            core.push(file(r));
            core.push(cwd_line(r, 3));
            core.push(file(r));
        }
        "cwd-change-in-window" => {
            core.push(cwd_line(r, 0));
            core.push(file(r));
            core.push(ignore(r));
            let s = r.range(1, 4);
            core.push(cwd_line(r, s));
            core.push(file(r));
            core.push(file(r));
        }
        "several-name-display" => {
            let mut v = vec![];
            for _ in 0..r.range(2, 3) {
                v.push(valid_of_kind(r, Kind::Name));
                v.push(valid_of_kind(r, Kind::Display));
                if r.chance(1, 2) {
                    v.push(random_element(r));
                }
            }
            r.shuffle(&mut v);
            core = v;
        }
        "preserve" => {
            for _ in 0..r.range(1, 3) {
                core.push(valid_of_kind(r, Kind::PkgOpt));
                if r.chance(1, 2) {
                    core.push(random_element(r));
                }
            }
        }
        "realistic" => return realistic(r),
        "long" => {
            let n = if r.chance(1, 8) { r.range(100, 400) } else { r.range(31, 80) };
            for _ in 0..n {
                core.push(random_element(r));
            }
            with_filler = false;
        }
        _ => {
            for _ in 0..r.range(3, 30) {
                core.push(random_element(r));
            }
            with_filler = false;
        }
    }
    if !with_filler {
        return core;
    }
    let room = 30usize.saturating_sub(core.len());
    let before = r.below(room.min(10) + 1);
    let after = r.below((room - before).min(10) + 1);
    let fill = |r: &mut Rng, n: usize| -> Vec<Line> {
        (0..n)
            .map(|_| loop {
                let l = random_element(r);
                if allow_cwd_filler || !matches!(l.entry(), Some(PlistEntry::Cwd(_))) {
                    break l;
                }
            })
            .collect()
    };
    let mut out = fill(r, before);
    out.extend(core);
    out.extend(fill(r, after));
    out
}

fn truncate_keep_tail(mut v: Vec<Line>) -> Vec<Line> {
    while v.len() > 30 {
        v.remove(0);
    }
    v
}
